"""Run bookkeeping shared by every check: counters, samples, violations, known
findings, replay files and the evidence writer.

Nothing here knows about a particular property.  A driver (props/cXX.py) creates
one `Run`, feeds it case results (possibly produced by worker processes, see
mc/par.py) and calls `finish()`.
"""

import hashlib
import json
import os
import re
import sys
import time

VERIF = os.path.dirname(os.path.dirname(os.path.abspath(__file__)))
REPO = os.environ.get("CSPUZ_REPO", "/repo")
KNOWN_FILE = os.path.join(VERIF, "KNOWN_FINDINGS.txt")
MAX_REPLAYS = 12
MAX_SAMPLES = 8


def bind_repo():
    """Make `import cspuz` resolve to /repo's working tree and nothing else."""
    os.environ.setdefault("CSPUZ_VERIF", "1")
    if sys.path[0] != REPO:
        sys.path.insert(0, REPO)
    import cspuz

    path = os.path.abspath(cspuz.__file__)
    if not path.startswith(os.path.abspath(REPO) + os.sep):
        raise SystemExit("HARNESS-ERROR: cspuz imported from %s, not from %s" % (path, REPO))
    return cspuz


def jsonable(x):
    """Best-effort conversion of a case description to JSON."""
    if isinstance(x, (str, int, float, bool)) or x is None:
        return x
    if isinstance(x, dict):
        return {str(k): jsonable(v) for k, v in x.items()}
    if isinstance(x, (list, tuple)):
        return [jsonable(v) for v in x]
    if isinstance(x, (set, frozenset)):
        return sorted((jsonable(v) for v in x), key=repr)
    return repr(x)


class Violation(object):
    __slots__ = ("key", "case", "detail")

    def __init__(self, key, case, detail):
        self.key = key
        self.case = case
        self.detail = detail

    def to_json(self):
        return {"key": self.key, "case": jsonable(self.case), "detail": jsonable(self.detail)}


class EnoughViolations(BaseException):
    """Raised inside a shard once it has collected plenty of counterexamples (the verdict is certain)."""


class Partial(object):
    """What a worker returns for one shard: counters, violations, samples."""

    def __init__(self):
        self.counters = {}
        self.violations = []
        self.samples = []
        self.outcomes = {}
        self.sets = {}
        self.shard_violation_limit = 0

    def add(self, name, item):
        """Record membership of a hashable item in a named set (merged by union across workers)."""
        self.sets.setdefault(name, set()).add(item)

    def count(self, name, n=1):
        self.counters[name] = self.counters.get(name, 0) + n

    def maxi(self, name, v):
        k = "max:" + name
        if v > self.counters.get(k, -(10**18)):
            self.counters[k] = v

    def outcome(self, label, n=1):
        self.outcomes[label] = self.outcomes.get(label, 0) + n

    def violation(self, key, case, detail):
        # keep everything distinct by key up to a cap; count the rest
        self.count("violations_raw")
        if len(self.violations) < 200:
            self.violations.append(Violation(key, case, detail))
        if self.shard_violation_limit and self.counters["violations_raw"] >= self.shard_violation_limit:
            raise EnoughViolations()

    def sample(self, s):
        if len(self.samples) < MAX_SAMPLES:
            self.samples.append(s)


def load_known(pid):
    known, fixed = [], []
    if os.path.exists(KNOWN_FILE):
        for line in open(KNOWN_FILE):
            line = line.strip()
            if not line or line.startswith("#"):
                continue
            m = re.match(r"known:\s+property=(\S+)\s+key=(\S+)\s+(.*)$", line)
            if m and m.group(1) == pid:
                known.append((m.group(2), m.group(3)))
            m = re.match(r"fixed:\s+property=(\S+)\s+(\S+)\s+(.*)$", line)
            if m and m.group(1) == pid:
                fixed.append((m.group(2), m.group(3)))
    return known, fixed


class Run(object):
    def __init__(self, pid, tier, seed, level, rule):
        self.pid = pid
        self.tier = tier
        self.seed = seed
        self.level = level
        self.rule = rule
        self.t0 = time.time()
        self.total = Partial()
        self.assumptions = []
        self.extra = {}
        self.caps = []
        self.harness_errors = []

    # -- accumulation ---------------------------------------------------
    def merge(self, part):
        for k, v in part.counters.items():
            if k.startswith("max:"):
                if v > self.total.counters.get(k, -(10**18)):
                    self.total.counters[k] = v
            else:
                self.total.counters[k] = self.total.counters.get(k, 0) + v
        for k, v in part.outcomes.items():
            self.total.outcomes[k] = self.total.outcomes.get(k, 0) + v
        for k, v in part.sets.items():
            self.total.sets.setdefault(k, set()).update(v)
        for v in part.violations:
            if len(self.total.violations) < 2000:
                self.total.violations.append(v)
        for s in part.samples:
            if len(self.total.samples) < MAX_SAMPLES:
                self.total.samples.append(s)

    def count(self, name, n=1):
        self.total.count(name, n)

    def violation(self, key, case, detail):
        self.total.violation(key, case, detail)

    def sample(self, s):
        self.total.sample(s)

    def cap(self, text):
        self.caps.append(text)

    def harness_error(self, text):
        self.harness_errors.append(text)

    def c(self, name):
        return self.total.counters.get(name, 0)

    def n(self, name):
        """Size of a named set."""
        return len(self.total.sets.get(name, ()))

    # -- finishing ------------------------------------------------------
    def finish(self, coverage):
        """coverage: dict with the level's keys, computed by the driver from
        counters.  Returns the process exit code."""
        known, _fixed = load_known(self.pid)
        known_hit = {}
        fresh = []
        for v in self.total.violations:
            hit = None
            for k, what in known:
                if v.key == k:
                    hit = (k, what)
                    break
            if hit:
                known_hit.setdefault(hit, 0)
                known_hit[hit] += 1
            else:
                fresh.append(v)

        for (k, what), n in sorted(known_hit.items()):
            print("KNOWN-FINDING: property=%s %s [key=%s, %d case(s) this run]" % (self.pid, what, k, n))

        # replay files for fresh violations: one per distinct key first
        rdir = os.path.join(os.environ.get("VERIF_REPLAY_DIR") or os.path.join(VERIF, "replays"), self.pid)
        written = 0
        seen_keys = set()
        ordered = sorted(fresh, key=lambda v: (v.key, len(json.dumps(v.to_json()))))
        firsts = []
        rest = []
        for v in ordered:
            if v.key in seen_keys:
                rest.append(v)
            else:
                seen_keys.add(v.key)
                firsts.append(v)
        for v in firsts + rest:
            if written >= MAX_REPLAYS:
                break
            os.makedirs(rdir, exist_ok=True)
            body = {"property_id": self.pid, "tier": self.tier}
            body.update(v.to_json())
            text = json.dumps(body, indent=1, sort_keys=True)
            h = hashlib.sha1(text.encode()).hexdigest()[:12]
            path = os.path.join(rdir, h + ".json")
            with open(path, "w") as f:
                f.write(text + "\n")
            print("VIOLATION property=%s replay=%s" % (self.pid, path))
            print("  key=%s detail=%s" % (v.key, json.dumps(jsonable(v.detail))[:400]))
            written += 1
        if fresh:
            print(
                "%s: %d violating case(s), %d distinct key(s): %s"
                % (self.pid, len(fresh), len(seen_keys), ", ".join(sorted(seen_keys))[:600])
            )

        wall = time.time() - self.t0
        cov = dict(coverage)
        cov.setdefault("rule", self.rule)
        cov.setdefault("samples", jsonable(self.total.samples))
        cov["counters"] = {k: v for k, v in sorted(self.total.counters.items())}
        cov["outcomes"] = {k: v for k, v in sorted(self.total.outcomes.items())}
        cov["distinct_outcomes"] = len(self.total.outcomes)
        cov["set_sizes"] = {k: len(v) for k, v in sorted(self.total.sets.items())}
        cov["caps_hit"] = self.caps
        if self.caps:
            cov["exhaustive"] = False
        cov["known_findings_reproduced"] = sorted("%s: %s" % (k, w) for (k, w) in known_hit)
        cov.update(self.extra)
        ev = {
            "property_id": self.pid,
            "tier": self.tier,
            "seed": self.seed,
            "level": self.level,
            "coverage": cov,
            "assumptions": self.assumptions,
            "wall_s": round(wall, 3),
            "violations": len(fresh),
        }
        edir = os.environ.get("VERIF_EVIDENCE_DIR") or os.path.join(VERIF, "evidence")
        os.makedirs(edir, exist_ok=True)
        with open(os.path.join(edir, self.pid + ".json"), "w") as f:
            json.dump(ev, f, indent=1, sort_keys=True)
            f.write("\n")

        summary = ", ".join(
            "%s=%s" % (k, cov[k])
            for k in (
                "evaluations",
                "distinct_nontrivial",
                "states",
                "transitions",
                "traces_validated_against_impl",
                "distinct_outcomes",
            )
            if k in cov
        )
        print("%s tier=%s seed=%d wall=%.1fs %s violations=%d" % (self.pid, self.tier, self.seed, wall, summary, len(fresh)))
        if self.harness_errors:
            for e in self.harness_errors[:10]:
                print("HARNESS-ERROR: " + e)
            # a violation that was found and written out stands, whatever else went wrong in other shards
            return 1 if fresh else 2
        return 1 if fresh else 0
