"""Generator of constraint programs for C01 / C03: every way the DSL can build a
node, as Python source strings evaluated against a namespace of declared
variables (so that a replay file is just the source text).

A *term* is (src, nops).  `terms(kind, k, leaves)` lists all terms of kind
'int' / 'bool' with exactly k operator nodes.  Strings whose evaluation by
Python itself is ill-typed for reasons unrelated to cspuz (`~True` is the int
-2) are filtered by `admissible()` after evaluation.
"""

import itertools

INT_LEAVES_FULL = ["i0", "i1", "-1", "0", "2"]
BOOL_LEAVES_FULL = ["b0", "b1", "True", "False"]
INT_LEAVES_RED = ["i0", "i1", "2"]
BOOL_LEAVES_RED = ["b0", "b1", "True"]
INT_LEAVES_MIN = ["i0", "1"]
BOOL_LEAVES_MIN = ["b0", "False"]


class Leaves(object):
    def __init__(self, ints, bools):
        self.ints = ints
        self.bools = bools


FULL = Leaves(INT_LEAVES_FULL, BOOL_LEAVES_FULL)
RED = Leaves(INT_LEAVES_RED, BOOL_LEAVES_RED)
MIN = Leaves(INT_LEAVES_MIN, BOOL_LEAVES_MIN)
TINY = Leaves(["i0"], ["b0"])

# constructor table: (name, result kind, operand kinds, format)
# fixed-arity constructors
FIXED = [
    ("neg", "int", ("int",), "(-{0})"),
    ("add", "int", ("int", "int"), "({0} + {1})"),
    ("sub", "int", ("int", "int"), "({0} - {1})"),
    ("cond.m", "int", ("bool", "int", "int"), "({0}).cond({1}, {2})"),
    ("cond.f", "int", ("bool", "int", "int"), "cond({0}, {1}, {2})"),
    ("count.m", "int", ("bool",), "({0}).count_true()"),
    ("eq", "bool", ("int", "int"), "({0} == {1})"),
    ("ne", "bool", ("int", "int"), "({0} != {1})"),
    ("le", "bool", ("int", "int"), "({0} <= {1})"),
    ("lt", "bool", ("int", "int"), "({0} < {1})"),
    ("ge", "bool", ("int", "int"), "({0} >= {1})"),
    ("gt", "bool", ("int", "int"), "({0} > {1})"),
    ("not", "bool", ("bool",), "inv({0})"),
    ("and", "bool", ("bool", "bool"), "({0} & {1})"),
    ("or", "bool", ("bool", "bool"), "({0} | {1})"),
    ("xor", "bool", ("bool", "bool"), "({0} ^ {1})"),
    ("iff", "bool", ("bool", "bool"), "({0} == {1})"),
    ("bne", "bool", ("bool", "bool"), "({0} != {1})"),
    ("then.m", "bool", ("bool", "bool"), "({0}).then({1})"),
    ("then.f", "bool", ("bool", "bool"), "then({0}, {1})"),
]
# list constructors: (name, result kind, element kind, format with {0} = comma list, arities)
NARY = [
    ("count_true", "int", "bool", "count_true([{0}])", (0, 1, 2, 3)),
    ("fold_or", "bool", "bool", "fold_or([{0}])", (0, 1, 2, 3)),
    ("fold_and", "bool", "bool", "fold_and([{0}])", (0, 1, 2, 3)),
    ("alldifferent", "bool", "int", "alldifferent([{0}])", (0, 1, 2, 3)),
    ("arr.fold_or", "bool", "bool", "BA([{0}]).fold_or()", (0, 1, 2)),
    ("arr.fold_and", "bool", "bool", "BA([{0}]).fold_and()", (0, 1, 2)),
    ("arr.count_true", "int", "bool", "BA([{0}]).count_true()", (0, 2)),
    ("arr.alldifferent", "bool", "int", "IA([{0}]).alldifferent()", (0, 2, 3)),
]


def compositions(total, parts):
    """All ways to write total as an ordered sum of `parts` non-negative integers."""
    if parts == 0:
        if total == 0:
            yield ()
        return
    for first in range(total + 1):
        for rest in compositions(total - first, parts - 1):
            yield (first,) + rest


def terms(kind, k, leaves, _memo=None):
    """All source strings of the given kind with exactly k operator nodes."""
    if _memo is None:
        _memo = {}
    key = (kind, k)
    if key in _memo:
        return _memo[key]
    out = []
    if k == 0:
        out = list(leaves.ints if kind == "int" else leaves.bools)
    else:
        for name, res, opk, fmt in FIXED:
            if res != kind:
                continue
            for comp in compositions(k - 1, len(opk)):
                pools = [terms(t, c, leaves, _memo) for t, c in zip(opk, comp)]
                for combo in itertools.product(*pools):
                    out.append(fmt.format(*combo))
        for name, res, elk, fmt, arities in NARY:
            if res != kind:
                continue
            for ar in arities:
                for comp in compositions(k - 1, ar):
                    pools = [terms(elk, c, leaves, _memo) for c in comp]
                    for combo in itertools.product(*pools):
                        out.append(fmt.format(", ".join(combo)))
    _memo[key] = out
    return out


def namespace(solver, domains):
    """Declare b0, i0, b1, i1 (interleaved kinds/ids) and return the eval namespace."""
    import cspuz
    from cspuz import constraints
    from cspuz.array import BoolArray1D, IntArray1D

    ns = {
        "count_true": cspuz.count_true,
        "fold_or": cspuz.fold_or,
        "fold_and": cspuz.fold_and,
        "alldifferent": cspuz.alldifferent,
        "cond": cspuz.cond,
        "then": constraints.then,
        # negation as a user writes it: `not` on a Python literal, `~` on an expression
        "inv": lambda x: (not x) if isinstance(x, bool) else ~x,
        "BA": BoolArray1D,
        "IA": IntArray1D,
        "__builtins__": {},
    }
    ns["b0"] = solver.bool_var()
    ns["i0"] = solver.int_var(*domains[0])
    ns["b1"] = solver.bool_var()
    ns["i1"] = solver.int_var(*domains[1])
    return ns


# ---- source-level reference semantics -----------------------------------------------------
# The same source strings are evaluated a second time with the variables bound to plain values wrapped in the
# two classes below, and the helper names bound to their Python meaning.  This oracle never sees a cspuz tree,
# so a constructor that builds the wrong tree (not only a backend that mistranslates a right one) is visible.
def _rv(x):
    return x.v if isinstance(x, (RB, RI)) else x


def _flat(args):
    for a in args:
        if isinstance(a, (list, tuple, RArr)) or hasattr(a, "__next__"):
            for x in _flat(list(a)):
                yield x
        else:
            yield a


class RB(object):
    def __init__(self, v):
        assert isinstance(v, bool)
        self.v = v

    def _b(self, o):
        o = _rv(o)
        if not isinstance(o, bool):
            raise TypeError("bool operand expected")
        return o

    def __invert__(self):
        return RB(not self.v)

    def __and__(self, o):
        return RB(self.v and self._b(o))

    __rand__ = __and__

    def __or__(self, o):
        return RB(self.v or self._b(o))

    __ror__ = __or__

    def __xor__(self, o):
        return RB(self.v != self._b(o))

    __rxor__ = __xor__

    def __eq__(self, o):
        return RB(self.v == self._b(o))

    def __ne__(self, o):
        return RB(self.v != self._b(o))

    __hash__ = None

    def then(self, o):
        return RB((not self.v) or self._b(o))

    def cond(self, t, f):
        return RI(RI._i(t) if self.v else RI._i(f))

    def count_true(self):
        return RI(1 if self.v else 0)


class RI(object):
    def __init__(self, v):
        assert isinstance(v, int) and not isinstance(v, bool)
        self.v = v

    @staticmethod
    def _i(o):
        o = _rv(o)
        if isinstance(o, bool) or not isinstance(o, int):
            raise TypeError("int operand expected")
        return o

    def __neg__(self):
        return RI(-self.v)

    def __add__(self, o):
        return RI(self.v + self._i(o))

    __radd__ = __add__

    def __sub__(self, o):
        return RI(self.v - self._i(o))

    def __rsub__(self, o):
        return RI(self._i(o) - self.v)

    def __eq__(self, o):
        return RB(self.v == self._i(o))

    def __ne__(self, o):
        return RB(self.v != self._i(o))

    def __le__(self, o):
        return RB(self.v <= self._i(o))

    def __lt__(self, o):
        return RB(self.v < self._i(o))

    def __ge__(self, o):
        return RB(self.v >= self._i(o))

    def __gt__(self, o):
        return RB(self.v > self._i(o))

    __hash__ = None


class RArr(object):
    def __init__(self, items):
        self.items = list(items)

    def __iter__(self):
        return iter(self.items)

    def fold_or(self):
        return RB(any(RB._b(None, x) for x in self.items))

    def fold_and(self):
        return RB(all(RB._b(None, x) for x in self.items))

    def count_true(self):
        return RI(sum(1 for x in self.items if RB._b(None, x)))

    def alldifferent(self):
        vs = [RI._i(x) for x in self.items]
        return RB(len(set(vs)) == len(vs))


def ref_namespace(b0, i0, b1, i1):
    def bools(args):
        return [RB._b(None, x) for x in _flat(args)]

    def ints(args):
        return [RI._i(x) for x in _flat(args)]

    def alldiff(*a):
        vs = ints(a)
        return RB(len(set(vs)) == len(vs))

    return {
        "count_true": lambda *a: RI(sum(1 for x in bools(a) if x)),
        "fold_or": lambda *a: RB(any(bools(a))),
        "fold_and": lambda *a: RB(all(bools(a))),
        "alldifferent": alldiff,
        "cond": lambda c, t, f: RI(RI._i(t) if RB._b(None, c) else RI._i(f)),
        "then": lambda a, b: RB((not RB._b(None, a)) or RB._b(None, b)),
        "inv": lambda x: (not x) if isinstance(x, bool) else ~x,
        "BA": RArr,
        "IA": RArr,
        "b0": RB(b0),
        "i0": RI(i0),
        "b1": RB(b1),
        "i1": RI(i1),
        "__builtins__": {},
    }


def ref_value(src, b0, i0, b1, i1):
    """Python-level meaning of a source string under one assignment (plain bool / int)."""
    return _rv(eval(src, ref_namespace(b0, i0, b1, i1)))


def admissible(kind, value):
    """Is the evaluated root a well-typed constraint operand of the expected kind?"""
    from cspuz.expr import BoolExpr, IntExpr

    if kind == "bool":
        return isinstance(value, (BoolExpr, bool))
    return isinstance(value, IntExpr) or (isinstance(value, int) and not isinstance(value, bool))


def python_pure(src):
    """True iff the source mentions no variable (Python folds it before cspuz sees anything)."""
    return not any(v in src for v in ("b0", "b1", "i0", "i1"))


def selftest():
    assert ref_value("count_true([True, b0, [b1, True]])", True, 0, False, 0) == 3
    assert ref_value("(2 - i0)", True, -1, False, 0) == 3 and ref_value("(True ^ b0)", True, 0, False, 0) is False
    assert ref_value("(b0).cond(i0, 1)", False, 5, False, 0) == 1 and ref_value("BA([b0, b1]).fold_or()", False, 0, True, 0) is True
    assert ref_value("alldifferent([i0, 2, i1])", True, 2, True, 3) is False and ref_value("inv(True)", True, 0, True, 0) is False
    assert ref_value("(i0 == i1)", True, 1, True, 1) is True and ref_value("then(b0, False)", True, 0, True, 0) is False
    assert len(terms("int", 0, FULL)) == 5 and len(terms("bool", 0, FULL)) == 4
    t1 = terms("int", 1, MIN)
    assert "(i0 + 1)" in t1 and "count_true([])" in t1 and "(b0).cond(i0, 1)" in t1
    assert list(compositions(2, 2)) == [(0, 2), (1, 1), (2, 0)]
