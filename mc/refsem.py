"""R-expr: reference semantics of cspuz expression trees (plain Python).

`ev(e, env)` gives the ordinary arithmetic / logical meaning of a tree under an
assignment env: variable id -> value.  `solutions()` enumerates the product of
the declared domains.  The two native graph operators get their documented
meaning from mc/graphref.py (R-native).

This module only *reads* cspuz's data structures (Op, Expr.op, Expr.operands,
var.id, var.lo, var.hi); it does not call any cspuz code.
"""

import itertools


class IllTyped(Exception):
    pass


_OPS = None


def _ops():
    global _OPS
    if _OPS is None:
        from cspuz.expr import Op, BoolVar, IntVar, Expr

        _OPS = (Op, BoolVar, IntVar, Expr)
    return _OPS


def _b(x):
    if not isinstance(x, bool):
        raise IllTyped("bool expected, got %r" % (x,))
    return x


def _i(x):
    if isinstance(x, bool) or not isinstance(x, int):
        raise IllTyped("int expected, got %r" % (x,))
    return x


def ev(e, env):
    Op, BoolVar, IntVar, Expr = _ops()
    if isinstance(e, bool):
        return e
    if isinstance(e, int):
        return e
    if isinstance(e, (BoolVar, IntVar)):
        return env[e.id]
    if not isinstance(e, Expr):
        raise IllTyped("not an expression: %r" % (e,))
    op = e.op
    if op in (Op.GRAPH_ACTIVE_VERTICES_CONNECTED, Op.GRAPH_DIVISION):
        from . import graphref

        return graphref.eval_native(e, env, ev)
    a = [ev(x, env) for x in e.operands]
    n = len(a)
    if op == Op.BOOL_CONSTANT:
        if n != 1:
            raise IllTyped("BOOL_CONSTANT arity")
        return _b(a[0])
    if op == Op.INT_CONSTANT:
        if n != 1:
            raise IllTyped("INT_CONSTANT arity")
        return _i(a[0])
    if op == Op.NEG:
        if n != 1:
            raise IllTyped("NEG arity")
        return -_i(a[0])
    if op == Op.ADD:
        if n < 1:
            raise IllTyped("ADD arity")
        return sum(_i(x) for x in a)
    if op == Op.SUB:
        if n < 1:
            raise IllTyped("SUB arity")
        r = _i(a[0])
        for x in a[1:]:
            r -= _i(x)
        return r
    if op in (Op.EQ, Op.NE, Op.LE, Op.LT, Op.GE, Op.GT):
        if n != 2:
            raise IllTyped("comparison arity")
        x, y = _i(a[0]), _i(a[1])
        return {Op.EQ: x == y, Op.NE: x != y, Op.LE: x <= y, Op.LT: x < y, Op.GE: x >= y, Op.GT: x > y}[op]
    if op == Op.NOT:
        if n != 1:
            raise IllTyped("NOT arity")
        return not _b(a[0])
    if op == Op.AND:
        return all(_b(x) for x in a)
    if op == Op.OR:
        return any(_b(x) for x in a)
    if op in (Op.IFF, Op.XOR, Op.IMP):
        if n != 2:
            raise IllTyped("binary boolean arity")
        x, y = _b(a[0]), _b(a[1])
        return {Op.IFF: x == y, Op.XOR: x != y, Op.IMP: (not x) or y}[op]
    if op == Op.IF:
        if n != 3:
            raise IllTyped("IF arity")
        return _i(a[1]) if _b(a[0]) else _i(a[2])
    if op == Op.ALLDIFF:
        vals = [_i(x) for x in a]
        return len(set(vals)) == len(vals)
    raise IllTyped("unknown operator %r" % (op,))


def domain(v):
    Op, BoolVar, IntVar, Expr = _ops()
    if isinstance(v, BoolVar):
        return (False, True)
    return tuple(range(v.lo, v.hi + 1))


def assignments(variables):
    ids = [v.id for v in variables]
    for vals in itertools.product(*[domain(v) for v in variables]):
        yield dict(zip(ids, vals))


def holds(constraints, env):
    for c in constraints:
        if not _b(ev(c, env)):
            return False
    return True


def solutions(variables, constraints):
    """All satisfying assignments, as tuples in the order of `variables`."""
    out = []
    ids = [v.id for v in variables]
    for env in assignments(variables):
        if holds(constraints, env):
            out.append(tuple(env[i] for i in ids))
    return out


def exact_facts(variables, sols, key_mask):
    """C02 oracle: for each key variable the value shared by all solutions, else None."""
    facts = []
    for idx, v in enumerate(variables):
        if not key_mask[idx]:
            facts.append("notkey")
            continue
        vals = set(s[idx] for s in sols)
        facts.append(next(iter(vals)) if len(vals) == 1 else None)
    return facts


def sol_typed_ok(v, val):
    Op, BoolVar, IntVar, Expr = _ops()
    if isinstance(v, BoolVar):
        return isinstance(val, bool)
    return isinstance(val, int) and not isinstance(val, bool) and v.lo <= val <= v.hi


def selftest():
    from cspuz import Solver, count_true, fold_and, fold_or, alldifferent
    from cspuz.expr import BoolExpr, IntExpr, Op

    s = Solver()
    b = s.bool_var()
    c = s.bool_var()
    i = s.int_var(-1, 1)
    j = s.int_var(0, 2)
    env = {b.id: True, c.id: False, i.id: -1, j.id: 2}
    assert ev(i + j, env) == 1 and ev(i - j, env) == -3 and ev(3 - i, env) == 4 and ev(-i, env) == 1
    assert ev(IntExpr(Op.SUB, [i, j, 1]), env) == -4
    assert ev(i < j, env) is True and ev(i >= j, env) is False and ev(i != j, env) is True
    assert ev(b & c, env) is False and ev(b | c, env) is True and ev(b ^ c, env) is True
    assert ev(b == c, env) is False and ev(~c, env) is True
    assert ev(c.then(b), env) is True and ev(b.then(c), env) is False
    assert ev(b.cond(i, j), env) == -1 and ev(c.cond(i, j), env) == 2
    assert ev(count_true([b, c, True]), env) == 2 and ev(count_true([]), env) == 0
    assert ev(fold_and([]), env) is True and ev(fold_or([]), env) is False
    assert ev(BoolExpr(Op.AND, []), env) is True and ev(BoolExpr(Op.OR, []), env) is False
    assert ev(alldifferent([i, j, 0]), env) is True and ev(alldifferent([i, -1]), env) is False
    assert ev(alldifferent([]), env) is True
    sols = solutions([b, i], [b.then(i == 1)])
    assert sorted(sols) == [(False, -1), (False, 0), (False, 1), (True, 1)]
    assert exact_facts([b, i], [(True, 1), (False, 1)], [True, True]) == [None, 1]
    try:
        ev(BoolExpr(Op.AND, [i, b]), env)
        raise AssertionError("ill-typed tree accepted")
    except IllTyped:
        pass
