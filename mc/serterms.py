"""Term language over cspuz.problem_serializer combinators for C15 / C17: each
Term knows how to build the real combinator, the set of characters an encoding
may start with (FIRST), and how to enumerate the values of its domain.

Domains are *type-directed and harness-side*: they do not consult the
implementation.  `sure` values must be accepted by serialize(); values that are
merely `maybe` (e.g. IntSpaces sequences with over-long blank runs) may be
rejected, but if accepted must round-trip as well.
"""

import itertools

B36 = "0123456789abcdefghijklmnopqrstuvwxyz"
DIGITS = set("0123456789")


def ps():
    from cspuz import problem_serializer

    return problem_serializer


class Term(object):
    name = "?"
    item_level = True  # consumes items of a flat list (vs. one structured item)

    def build(self):
        raise NotImplementedError

    def first(self):
        """Characters an encoding can start with; '' in the set = encoding may be empty."""
        raise NotImplementedError

    def steps(self):
        """Single-step item lists (what one serialize() call consumes), with boundary values."""
        raise NotImplementedError

    def alphabet(self):
        """Small item alphabet for building sequences."""
        raise NotImplementedError

    def seq_ok(self, lst):
        """Harness-side predicate: is the greedy chunking of lst into steps defined?"""
        return True

    def greedy_digits(self):
        """True if decoding reads a maximal run of digits (needs a non-digit follower)."""
        return False

    def canon(self, v):
        return v

    def __repr__(self):
        return self.name


class TDict(Term):
    def __init__(self, before, after):
        self.before, self.after = list(before), list(after)
        self.name = "Dict(%r,%r)" % (self.before, self.after)

    def build(self):
        return ps().Dict(list(self.before), list(self.after))

    def first(self):
        return set(a[0] for a in self.after)

    def steps(self):
        return [[b] for b in self.before]

    def alphabet(self):
        return list(self.before)


class TSpaces(Term):
    def __init__(self, space, smallest):
        self.space, self.smallest = space, smallest
        self.max = 36 - B36.index(smallest)
        self.name = "Spaces(%r,%r)" % (space, smallest)

    def build(self):
        return ps().Spaces(self.space, self.smallest)

    def first(self):
        return set(B36[B36.index(self.smallest):])

    def steps(self):
        return [[self.space] * k for k in sorted(k for k in set([1, 2, self.max - 1, self.max]) if 1 <= k <= self.max)]

    def alphabet(self):
        return [self.space]


class TDecInt(Term):
    name = "DecInt"

    def build(self):
        return ps().DecInt()

    def first(self):
        return set(DIGITS)

    def steps(self):
        return [[0], [7], [10], [255], [4096]]

    def alphabet(self):
        return [0, 12]

    def greedy_digits(self):
        return True


class THexInt(Term):
    name = "HexInt"

    def build(self):
        return ps().HexInt()

    def first(self):
        return set("0123456789abcdef-+")

    def steps(self):
        return [[v] for v in (0, 9, 10, 15, 16, 17, 255, 256, 257, 4095)]

    def alphabet(self):
        return [0, 15, 16, 255, 256, 4095]


class TIntSpaces(Term):
    def __init__(self, space, max_int, max_spaces):
        self.space, self.max_int, self.max_spaces = space, max_int, max_spaces
        self.name = "IntSpaces(%r,%d,%d)" % (space, max_int, max_spaces)

    def build(self):
        return ps().IntSpaces(self.space, self.max_int, self.max_spaces)

    def first(self):
        return set(B36[: (self.max_int + 1) * (self.max_spaces + 1)])

    def steps(self):
        out = []
        for v in sorted(set([0, 1, self.max_int])):
            for k in sorted(set([0, 1, self.max_spaces])):
                out.append([v] + [self.space] * k)
        return out

    def alphabet(self):
        return [0, self.max_int, self.space]

    def seq_ok(self, lst):
        run = None
        for x in lst:
            if x == self.space:
                if run is None:
                    return False  # a blank with no number before it
                run += 1
                if run > self.max_spaces:
                    return False
            else:
                run = 0
        return True


class TMultiDigit(Term):
    def __init__(self, base, digits):
        self.base, self.digits = base, digits
        self.name = "MultiDigit(%d,%d)" % (base, digits)

    def build(self):
        return ps().MultiDigit(self.base, self.digits)

    def first(self):
        return set(B36[: self.base ** self.digits])

    def steps(self):
        vals = [0, self.base - 1] + ([1] if self.base > 2 else [])
        out = []
        for combo in itertools.product(sorted(set(vals)), repeat=min(self.digits, 3)):
            lst = list(combo) + [self.base - 1] * (self.digits - len(combo))
            out.append(lst)
        return out

    def alphabet(self):
        return sorted(set([0, 1, self.base - 1]))


class TFixStr(Term):
    def __init__(self, s):
        self.s = s
        self.name = "FixStr(%r)" % s

    def build(self):
        return ps().FixStr(self.s)

    def first(self):
        return set([self.s[0]]) if self.s else set([""])

    def steps(self):
        return [[]]

    def alphabet(self):
        return []


class TOneOf(Term):
    def __init__(self, *alts):
        self.alts = list(alts)
        self.name = "OneOf(%s)" % ",".join(a.name for a in self.alts)

    def build(self):
        return ps().OneOf(*[a.build() for a in self.alts])

    def first(self):
        out = set()
        for a in self.alts:
            out |= a.first()
        return out

    def admissible(self):
        seen = set()
        for a in self.alts:
            f = a.first()
            if f & seen or "" in f:
                return False
            seen |= f
        # values must not be claimed by an earlier alternative with a different meaning:
        # the only overlap we allow is identical items (e.g. the blank 0 of Spaces and HexInt's 0)
        return True

    def steps(self):
        # a step belongs to the first alternative that accepts its first item (that is the one serialize() will use)
        out = []
        for k, a in enumerate(self.alts):
            for st in a.steps():
                if st and any(accepts_first(b, st[0]) for b in self.alts[:k]):
                    continue
                if st not in out:
                    out.append(st)
        return out

    def alphabet(self):
        out = []
        for a in self.alts:
            for x in a.alphabet():
                if x not in out:
                    out.append(x)
        return out

    def seq_ok(self, lst):
        # chunking is only guaranteed when no alternative consumes several items at once with its own side conditions
        multi = [a for a in self.alts if isinstance(a, (TIntSpaces, TMultiDigit))]
        if not multi:
            return True
        if len(self.alts) == 1:
            return self.alts[0].seq_ok(lst)
        return False  # may be rejected; if accepted it must still round-trip

    def greedy_digits(self):
        return any(a.greedy_digits() for a in self.alts)


def accepts_first(t, item):
    """Harness-side model: would combinator t start consuming at this item?"""
    isint = isinstance(item, int) and not isinstance(item, bool)
    if isinstance(t, TDict):
        return item in t.before
    if isinstance(t, TSpaces):
        return item == t.space
    if isinstance(t, TDecInt):
        return isint and item >= 0
    if isinstance(t, THexInt):
        return isint and 0 <= item <= 4095
    if isinstance(t, TIntSpaces):
        return isint and 0 <= item <= t.max_int
    if isinstance(t, TMultiDigit):
        return isint and 0 <= item < t.base
    if isinstance(t, TOneOf):
        return any(accepts_first(a, item) for a in t.alts)
    return False


# ---- structured terms ----------------------------------------------------------------
class TSeq(Term):
    item_level = False

    def __init__(self, base, n):
        self.base, self.n = base, n
        self.name = "Seq(%s,%d)" % (base.name, n)

    def build(self):
        return ps().Seq(self.base.build(), self.n)

    def first(self):
        return self.base.first() if self.n > 0 else set([""])

    def sequences(self, n, cap):
        """Lists of n items over the base's alphabet (all of them if <= cap, else a boundary family)."""
        alpha = self.base.alphabet()
        if not alpha:
            return [[]] if n == 0 else []
        if len(alpha) ** n <= cap:
            return [list(c) for c in itertools.product(alpha, repeat=n)]
        out = []
        for a in alpha:
            out.append([a] * n)
            for b in alpha:
                out.append([a if k % 2 == 0 else b for k in range(n)])
                for cut in (1, n // 2, n - 1):
                    out.append([a] * cut + [b] * (n - cut))
        uniq = []
        for o in out:
            if o not in uniq:
                uniq.append(o)
        return uniq

    def values(self, ctx):
        for lst in self.sequences(self.n, ctx.get("seq_cap", 300)):
            yield lst, self.base.seq_ok(lst)

    def greedy_digits(self):
        return self.base.greedy_digits()


class TGrid(Term):
    item_level = False

    def __init__(self, base, height=None, width=None):
        self.base, self.height, self.width = base, height, width
        self.name = "Grid(%s%s)" % (base.name, "" if height is None else ",%d,%d" % (height, width))

    def build(self):
        if self.height is None:
            return ps().Grid(self.base.build())
        return ps().Grid(self.base.build(), height=self.height, width=self.width)

    def dims(self, ctx):
        if self.height is None:
            return ctx["height"], ctx["width"]
        return self.height, self.width

    def first(self):
        return self.base.first() | set([""])

    def values(self, ctx):
        h, w = self.dims(ctx)
        seq = TSeq(self.base, h * w)
        for lst in seq.sequences(h * w, ctx.get("seq_cap", 300)):
            yield [lst[y * w : (y + 1) * w] for y in range(h)], self.base.seq_ok(lst)

    def greedy_digits(self):
        return self.base.greedy_digits()


class TRooms(Term):
    item_level = False
    name = "Rooms"

    def __init__(self, **kw):
        self.kw = kw
        if kw:
            self.name = "Rooms(%s)" % ",".join("%s=%r" % kv for kv in sorted(kw.items()))

    def build(self):
        return ps().Rooms(**self.kw)

    def first(self):
        return set(B36[:32]) | set([""])

    def values(self, ctx):
        from . import graphref

        h, w = ctx["height"], ctx["width"]
        n = h * w
        edges = graphref.grid_edges(h, w)
        for part in graphref.connected_partitions(n, edges):
            rooms = [[divmod(c, w) for c in blk] for blk in part]
            for variant in room_orders(rooms, n <= ctx.get("all_orders_upto", 4)):
                yield variant, True

    def canon(self, v):
        return sorted(sorted(tuple(c) for c in room) for room in v)


def room_orders(rooms, everything):
    """Presentations of one partition: every order of rooms and of cells within rooms, or canonical/reversed/rotated."""
    if everything:
        per_room = [list(itertools.permutations(r)) for r in rooms]
        for combo in itertools.product(*per_room):
            for perm in itertools.permutations(combo):
                yield [list(r) for r in perm]
        return
    yield [list(r) for r in rooms]
    yield [list(reversed(r)) for r in reversed(rooms)]
    yield [list(r[1:] + r[:1]) for r in rooms[1:] + rooms[:1]]


class TValuedRooms(Term):
    item_level = False

    def __init__(self, value, **kw):
        self.value, self.kw = value, kw
        self.name = "ValuedRooms(%s)" % value.name

    def build(self):
        return ps().ValuedRooms(self.value.build(), **self.kw)

    def first(self):
        return set(B36[:32]) | self.value.first()

    def values(self, ctx):
        alpha = self.value.alphabet()
        for rooms, _ in TRooms().values(ctx):
            k = len(rooms)
            # distinct values per room where possible, so that a value landing on the wrong room is visible
            vals = [alpha[i % len(alpha)] for i in range(k)]
            for vs in (vals, list(reversed(vals))):
                # the values are written in the canonical room order (rooms by first cell, row-major)
                in_order = [v for _, v in sorted(zip(rooms, vs), key=lambda rv: min(rv[0]))]
                yield (rooms, vs), self.value.seq_ok(in_order)

    def canon(self, v):
        rooms, vals = v
        return sorted((sorted(tuple(c) for c in room), val) for room, val in zip(rooms, vals))


class TTupl(Term):
    item_level = True  # one item: the tuple

    def __init__(self, *elems):
        self.elems = list(elems)
        self.name = "Tupl(%s)" % ",".join(e.name for e in self.elems)

    def build(self):
        return ps().Tupl(*[e.build() for e in self.elems])

    def first(self):
        out = set()
        for e in self.elems:
            f = e.first()
            out |= f - {""}
            if "" not in f:
                return out
        out.add("")
        return out

    def admissible(self):
        # a greedy decimal reader must not be followed by something that can start with a digit
        for i, e in enumerate(self.elems[:-1]):
            if e.greedy_digits():
                nxt = set()
                for f in self.elems[i + 1 :]:
                    ff = f.first()
                    nxt |= ff - {""}
                    if "" not in ff:
                        break
                if nxt & DIGITS:
                    return False
        return True

    def elem_values(self, e, ctx):
        if isinstance(e, (TSeq, TGrid, TRooms, TValuedRooms)):
            for v, sure in e.values(ctx):
                yield [v], sure
        elif isinstance(e, TTupl):
            for v, sure in e.values(ctx):
                yield v, sure
        else:
            for st in e.steps():
                yield list(st), True

    def values(self, ctx, cap=400):
        pools = []
        for e in self.elems:
            vs = list(itertools.islice(self.elem_values(e, ctx), 0, ctx.get("tupl_elem_cap", 40)))
            pools.append(vs)
        n = 0
        for combo in itertools.product(*pools):
            yield [tuple(v for v, _ in combo)], all(s for _, s in combo)
            n += 1
            if n >= cap:
                return

    def steps(self):
        ctx = {"height": 1, "width": 2, "seq_cap": 20, "tupl_elem_cap": 4}
        return [v for v, sure in self.values(ctx, cap=12) if sure]

    def alphabet(self):
        return [st[0] for st in self.steps()][:4]

    def canon(self, v):
        return v

    def greedy_digits(self):
        return self.elems[-1].greedy_digits() if self.elems else False


def canon_deep(term, v):
    """Canonical form of a value for comparison (sorting only inside Rooms / ValuedRooms)."""
    if isinstance(term, (TRooms, TValuedRooms)):
        return term.canon(v)
    if isinstance(term, TTupl):
        # v is a tuple of lists, one per element
        out = []
        for e, part in zip(term.elems, v):
            if isinstance(e, (TRooms, TValuedRooms)):
                out.append([e.canon(part[0])] if len(part) == 1 else part)
            elif isinstance(e, TTupl):
                out.append([canon_deep(e, x) for x in part])
            else:
                out.append(part)
        return tuple(out)
    return v


# ------------------------------------------------------------------------ term menus
def base_terms():
    return [
        TDict([99], ["."]),
        TDict([-1, -2], [".", "_x"]),
        TSpaces(0, "1"), TSpaces(0, "a"), TSpaces(0, "g"), TSpaces(0, "z"),
        TDecInt(), THexInt(),
        TIntSpaces(-1, 4, 2), TIntSpaces(-1, 1, 5), TIntSpaces(-1, 8, 3),
        TMultiDigit(2, 5), TMultiDigit(3, 3), TMultiDigit(6, 2),
    ]


def oneof_terms():
    menu = [
        TDict([99], ["."]), TDict([-1, -2], [".", "_x"]), TDict([77], ["+"]),
        TSpaces(0, "a"), TSpaces(0, "g"), TSpaces(0, "z"), TSpaces(-3, "g"),
        THexInt(), TIntSpaces(-1, 4, 2), TIntSpaces(-1, 1, 5), TMultiDigit(2, 3), TMultiDigit(3, 2),
    ]
    out = []
    for k in (2, 3):
        for combo in itertools.permutations(menu, k):
            t = TOneOf(*combo)
            if not t.admissible():
                continue
            out.append(t)
    return out
