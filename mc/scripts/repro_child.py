"""Child interpreter of C19's cross-interpreter reproducibility family: one seeded generation, result printed as JSON.
usage: repro_child.py <repo> <config name> <seed>      (PYTHONHASHSEED is set by the parent)"""
import json
import sys

repo, name, seed = sys.argv[1], sys.argv[2], int(sys.argv[3])
sys.path.insert(0, repo)
from cspuz.generator import ArrayBuilder2D, Choice, SegmentationBuilder2D, generate_problem, srandom  # noqa: E402


def make(name):
    if name == "strings-symmetry":
        return ArrayBuilder2D(2, 3, ["..", "^1", "v2", ">4", "^?"], default="..", symmetry=True)
    if name == "strings-plain":
        return ArrayBuilder2D(2, 3, ["..", "^1", "v2", ">4"], default="..")
    if name == "tuples-symmetry-adjacent":
        return ArrayBuilder2D(3, 3, [(0, "a"), (1, "b"), (2, "c"), (3, "d")], default=(0, "a"), symmetry=True, disallow_adjacent=True)
    if name == "strings-move":
        return ArrayBuilder2D(2, 3, ["", "x", "yy", "zzz"], default="", use_move=True, symmetry=True)
    if name == "choice-strings":
        return [Choice(["north", "east", "south", "west"], "north"), Choice(["p", "q", "r"], "q")]
    if name == "segmentation+strings":
        return (SegmentationBuilder2D(2, 3, min_block_size=1, max_block_size=3), [Choice(["a", "b", "c"], "a") for _ in range(2)])
    raise SystemExit("unknown configuration")


log = []


def flat(p):
    if isinstance(p, (list, tuple)):
        return sum((flat(x) for x in p), [])
    return [p]


def solver(problem):
    log.append(json.dumps(problem))
    s = sum(len(str(v)) for v in flat(problem)) + len(log)
    return (s % 5 != 0, s % 4, (s % 11 == 10))


srandom.use_deterministic_prng(True, seed)
res = generate_problem(solver, builder_pattern=make(name), score=lambda s, u: s, uniqueness=lambda s, u: u, max_steps=8)
print(json.dumps({"calls": log, "result": res}))
