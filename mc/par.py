"""Shard-parallel execution.  The enumerated space is cut into shards by the
driver; worker processes (fork) consume shards and return `Partial`s.

VERIF_SEED only rotates the order in which shards are handed out; the set of
shards, and therefore the covered space, is seed independent.
"""

import faulthandler
import multiprocessing
import signal
import os
import traceback

from .harness import Partial

_WORKER_FN = None


def _call(shard):
    try:
        faulthandler.register(signal.SIGUSR1, all_threads=True)
        part = Partial()
        _WORKER_FN(shard, part)
        return part, None
    except Exception:
        return None, "worker failed on shard %r:\n%s" % (shard, traceback.format_exc())


def nprocs():
    try:
        n = int(os.environ.get("VERIF_JOBS", "0"))
    except ValueError:
        n = 0
    if n <= 0:
        n = min(16, os.cpu_count() or 1)
    return n


def rotate(shards, seed):
    shards = list(shards)
    if not shards:
        return shards
    k = (seed * 7919) % len(shards)
    return shards[k:] + shards[:k]


def run_shards(run, worker_fn, shards, seed=0, jobs=None, chunksize=1):
    """worker_fn(shard, partial) is executed for every shard; results are merged
    into `run`.  worker_fn must be a module-level function (fork start method
    means it need not be picklable, it is inherited)."""
    global _WORKER_FN
    _WORKER_FN = worker_fn
    shards = rotate(shards, seed)
    jobs = jobs or nprocs()
    if jobs == 1 or len(shards) <= 1:
        for s in shards:
            part, err = _call(s)
            if err:
                run.harness_error(err)
            else:
                run.merge(part)
        return
    ctx = multiprocessing.get_context("fork")
    with ctx.Pool(jobs) as pool:
        for part, err in pool.imap_unordered(_call, shards, chunksize):
            if err:
                run.harness_error(err)
            else:
                run.merge(part)
