"""Shard-parallel execution.  The enumerated space is cut into shards by the
driver; worker processes (fork) consume shards and return `Partial`s.

VERIF_SEED only rotates the order in which shards are handed out; the set of
shards, and therefore the covered space, is seed independent.
"""

import faulthandler
import multiprocessing
import signal
import os
import time
import traceback

from .harness import EnoughViolations, Partial

_WORKER_FN = None
_SHARD_LIMIT = 0


class ShardTimeout(BaseException):
    """Raised by the watchdog inside the code under test (BaseException so that `except Exception` in
    the library cannot swallow it)."""


def _alarm(signum, frame):
    raise ShardTimeout()


def _call(shard):
    part = Partial()
    part.shard_violation_limit = int(os.environ.get("VERIF_SHARD_VIOLATIONS", "40"))
    try:
        faulthandler.register(signal.SIGUSR1, all_threads=True)
        if _SHARD_LIMIT:
            signal.signal(signal.SIGALRM, _alarm)
            signal.alarm(_SHARD_LIMIT)
        t0 = time.process_time()
        try:
            _WORKER_FN(shard, part)
        finally:
            signal.alarm(0)
        if os.environ.get("VERIF_PROFILE"):
            desc = getattr(_WORKER_FN, "describe", None)
            part.profile = (time.process_time() - t0, (desc(shard) if desc else repr(shard))[:200], part.counts.get("evaluations", 0) if hasattr(part, "counts") else 0)
        return part, None
    except EnoughViolations:
        return part, None
    except ShardTimeout:
        # Every shard is sized to finish in seconds on the unchanged tree; a shard that is still running after
        # the horizon means the library did not terminate (or became orders of magnitude slower) on some case.
        part.violation(
            "no-termination-within-horizon",
            {"shard": list(shard) if isinstance(shard, (list, tuple)) else shard, "horizon_s": _SHARD_LIMIT},
            {"observed": "shard still running after %d s" % _SHARD_LIMIT},
        )
        return part, None
    except Exception:
        return None, "worker failed on shard %r:\n%s" % (shard, traceback.format_exc())


def nprocs():
    try:
        n = int(os.environ.get("VERIF_JOBS", "0"))
    except ValueError:
        n = 0
    if n <= 0:
        n = min(16, os.cpu_count() or 1)
    return n


def rotate(shards, seed):
    shards = list(shards)
    if not shards:
        return shards
    k = (seed * 7919) % len(shards)
    return shards[k:] + shards[:k]


def run_shards(run, worker_fn, shards, seed=0, jobs=None, chunksize=1, shard_limit=900, first=()):
    """worker_fn(shard, partial) is executed for every shard; results are merged
    into `run`.  worker_fn must be a module-level function (fork start method
    means it need not be picklable, it is inherited)."""
    global _WORKER_FN, _SHARD_LIMIT
    _WORKER_FN = worker_fn
    _SHARD_LIMIT = int(os.environ.get("VERIF_SHARD_LIMIT", shard_limit))
    # `first`: long shards that must start early for load balance (their order is fixed; only the rest is rotated)
    shards = list(first) + rotate(shards, seed)
    jobs = jobs or nprocs()
    stop_after = int(os.environ.get("VERIF_STOP_AFTER", "150"))

    def enough():
        # a verdict is already certain; do not spend hours enumerating more counterexamples
        if run.c("violations_raw") >= stop_after:
            run.cap("stopped early after %d violating cases (VERIF_STOP_AFTER); the space was not completed" % run.c("violations_raw"))
            return True
        return False

    if jobs == 1 or len(shards) <= 1:
        for s in shards:
            part, err = _call(s)
            if err:
                run.harness_error(err)
            else:
                run.merge(part)
            if enough():
                break
        return
    ctx = multiprocessing.get_context("fork")
    prof = []
    with ctx.Pool(jobs) as pool:
        for part, err in pool.imap_unordered(_call, shards, chunksize):
            if err:
                run.harness_error(err)
            else:
                if getattr(part, "profile", None):
                    prof.append(part.profile)
                run.merge(part)
            if enough():
                pool.terminate()
                break
    if prof:
        _print_profile(prof)


def _print_profile(prof):
    prof.sort(reverse=True)
    print("PROFILE total cpu %.0f s over %d shards" % (sum(p[0] for p in prof), len(prof)))
    for t, sh, n in (prof if os.environ.get("VERIF_PROFILE") == "all" else prof[:25]):
        print("PROFILE %7.1f s  %s" % (t, sh))


def _tuplify(x):
    if isinstance(x, list):
        return tuple(_tuplify(v) for v in x)
    return x


def replay_shard(worker_fn, shard, limit):
    """Re-run one shard under the watchdog (replay of a no-termination finding)."""
    global _WORKER_FN, _SHARD_LIMIT
    _WORKER_FN = worker_fn
    _SHARD_LIMIT = int(limit)
    part, err = _call(_tuplify(shard))
    if err:
        return False, err
    bad = [v for v in part.violations]
    return (not bad), (bad[0].detail if bad else "shard finished within the horizon without violations")
