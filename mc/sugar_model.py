#!/venv/bin/python
"""R-sugar: strict parser + evaluator for the Sugar CSP text that cspuz emits,
and a reference external solver answering in the two reply formats of
sugar_extension/CspuzSugarInterface.java.

Grammar (DESIGN.md appendix B), one item per line:
  (int iN lo hi) | (bool bN) | <constraint> | #[name( name)*]      (last line)
  expr := true | false | INT | name | * | '(' op expr* ')'

Runnable as a script (`sugar_model.py /dev/stdin`) so that the subprocess
backends of cspuz execute it through their real pipe code.  Environment:
  SUGAR_MODEL_PICK=<k>   answer-finder mode: return the k-th model (mod count)
  SUGAR_MODEL_ORDER=<k>  permutation index for the order of reply lines
  SUGAR_MODEL_STDERR=1   write a diagnostic line to stderr before the reply
"""

import itertools
import os
import re
import sys


class ParseError(Exception):
    pass


FIXED_ARITY = {"!": 1, "=": 2, "!=": 2, "<=": 2, "<": 2, ">=": 2, ">": 2, "iff": 2, "xor": 2, "=>": 2, "if": 3}
VARIADIC = {"-", "+", "&&", "||", "alldifferent", "graph-active-vertices-connected", "graph-division"}
NAME_RE = re.compile(r"^[bi](0|[1-9][0-9]*)$")
INT_RE = re.compile(r"^-?(0|[1-9][0-9]*)$")


def tokenize(line):
    toks = []
    i = 0
    n = len(line)
    while i < n:
        c = line[i]
        if c == " ":
            i += 1
        elif c in "()":
            toks.append(c)
            i += 1
        else:
            j = i
            while j < n and line[j] not in " ()":
                j += 1
            toks.append(line[i:j])
            i = j
    return toks


def parse_expr(toks, pos):
    if pos >= len(toks):
        raise ParseError("unexpected end of line")
    t = toks[pos]
    if t == "(":
        if pos + 1 >= len(toks):
            raise ParseError("dangling '('")
        op = toks[pos + 1]
        if op in ("(", ")"):
            raise ParseError("operator expected after '('")
        pos += 2
        args = []
        while pos < len(toks) and toks[pos] != ")":
            a, pos = parse_expr(toks, pos)
            args.append(a)
        if pos >= len(toks):
            raise ParseError("missing ')'")
        return (op, args), pos + 1
    if t == ")":
        raise ParseError("unexpected ')'")
    return t, pos + 1


def parse_line(line):
    if line != line.strip() or "  " in line or "\t" in line:
        raise ParseError("stray whitespace in %r" % line)
    toks = tokenize(line)
    e, pos = parse_expr(toks, 0)
    if pos != len(toks):
        raise ParseError("trailing tokens in %r" % line)
    return e


class Program(object):
    def __init__(self):
        self.decls = []  # (name, kind, lo, hi) in order
        self.names = {}
        self.constraints = []  # parsed exprs
        self.keys = None  # None = answer-finder mode; list of names otherwise


def parse(text):
    """Strict parse; raises ParseError on anything outside the grammar."""
    prog = Program()
    lines = text.split("\n")
    seen_constraint = False
    for ln, line in enumerate(lines):
        if line.startswith("#"):
            if ln != len(lines) - 1:
                raise ParseError("answer-key line is not the last line")
            body = line[1:]
            keys = body.split(" ") if body != "" else []
            for k in keys:
                if not NAME_RE.match(k):
                    raise ParseError("bad answer key %r" % k)
            if len(set(keys)) != len(keys):
                raise ParseError("answer key repeated")
            prog.keys = keys
            continue
        if line == "":
            raise ParseError("empty line")
        e = parse_line(line)
        if isinstance(e, tuple) and e[0] in ("int", "bool"):
            if seen_constraint:
                raise ParseError("declaration after a constraint")
            op, args = e
            if op == "bool":
                if len(args) != 1 or not isinstance(args[0], str) or not re.match(r"^b(0|[1-9][0-9]*)$", args[0]):
                    raise ParseError("bad bool declaration %r" % line)
                name, kind, lo, hi = args[0], "bool", None, None
            else:
                if (
                    len(args) != 3
                    or not all(isinstance(a, str) for a in args)
                    or not re.match(r"^i(0|[1-9][0-9]*)$", args[0])
                    or not INT_RE.match(args[1])
                    or not INT_RE.match(args[2])
                ):
                    raise ParseError("bad int declaration %r" % line)
                name, kind, lo, hi = args[0], "int", int(args[1]), int(args[2])
                if lo > hi:
                    raise ParseError("empty domain in %r" % line)
            if name in prog.names:
                raise ParseError("name declared twice: %s" % name)
            prog.names[name] = (kind, lo, hi)
            prog.decls.append((name, kind, lo, hi))
        else:
            seen_constraint = True
            check_expr(e, prog)
            prog.constraints.append(e)
    if prog.keys is not None:
        for k in prog.keys:
            if k not in prog.names:
                raise ParseError("answer key %s is not declared" % k)
    return prog


def check_expr(e, prog):
    if isinstance(e, str):
        if e in ("true", "false", "*") or INT_RE.match(e):
            return
        if NAME_RE.match(e):
            if e not in prog.names:
                raise ParseError("undeclared name %s" % e)
            return
        raise ParseError("unknown atom %r" % e)
    op, args = e
    if op in FIXED_ARITY:
        if len(args) != FIXED_ARITY[op]:
            raise ParseError("operator %s takes %d operands, got %d" % (op, FIXED_ARITY[op], len(args)))
    elif op in VARIADIC:
        if op in ("-", "+") and len(args) < 1:
            raise ParseError("operator %s needs an operand" % op)
    else:
        raise ParseError("unknown operator %r" % op)
    for a in args:
        check_expr(a, prog)


class TypeErr(Exception):
    pass


def _b(x):
    if not isinstance(x, bool):
        raise TypeErr("bool expected, got %r" % (x,))
    return x


def _i(x):
    if isinstance(x, bool) or not isinstance(x, int):
        raise TypeErr("int expected, got %r" % (x,))
    return x


def ev(e, env):
    if isinstance(e, str):
        if e == "true":
            return True
        if e == "false":
            return False
        if e == "*":
            return None
        if INT_RE.match(e):
            return int(e)
        return env[e]
    op, args = e
    if op == "graph-active-vertices-connected" or op == "graph-division":
        return ev_native(op, args, env)
    a = [ev(x, env) for x in args]
    if op == "-":
        if len(a) == 1:
            return -_i(a[0])
        r = _i(a[0])
        for x in a[1:]:
            r -= _i(x)
        return r
    if op == "+":
        return sum(_i(x) for x in a)
    if op in ("=", "!=", "<=", "<", ">=", ">"):
        x, y = _i(a[0]), _i(a[1])
        return {"=": x == y, "!=": x != y, "<=": x <= y, "<": x < y, ">=": x >= y, ">": x > y}[op]
    if op == "!":
        return not _b(a[0])
    if op == "&&":
        return all(_b(x) for x in a)
    if op == "||":
        return any(_b(x) for x in a)
    if op == "iff":
        return _b(a[0]) == _b(a[1])
    if op == "xor":
        return _b(a[0]) != _b(a[1])
    if op == "=>":
        return (not _b(a[0])) or _b(a[1])
    if op == "if":
        return _i(a[1]) if _b(a[0]) else _i(a[2])
    if op == "alldifferent":
        vals = [_i(x) for x in a]
        return len(set(vals)) == len(vals)
    raise TypeErr("operator %r" % op)


def ev_native(op, args, env):
    from . import graphref

    def lit(x):
        if not (isinstance(x, str) and INT_RE.match(x)):
            raise TypeErr("integer literal expected in %s, got %r" % (op, x))
        return int(x)

    if len(args) < 2:
        raise TypeErr("%s: too few operands" % op)
    n, m = lit(args[0]), lit(args[1])
    if op == "graph-active-vertices-connected":
        if len(args) != 2 + n + 2 * m:
            raise TypeErr("%s: operand count %d for n=%d m=%d" % (op, len(args), n, m))
        act = [_b(ev(x, env)) for x in args[2 : 2 + n]]
        flat = [lit(x) for x in args[2 + n :]]
        edges = [(flat[2 * k], flat[2 * k + 1]) for k in range(m)]
        if any(not (0 <= u < n and 0 <= v < n) for u, v in edges):
            raise TypeErr("%s: edge endpoint out of range" % op)
        return graphref.induced_connected(n, edges, [v for v in range(n) if act[v]])
    if len(args) != 2 + n + 3 * m:
        raise TypeErr("%s: operand count %d for n=%d m=%d" % (op, len(args), n, m))
    sizes = []
    for x in args[2 : 2 + n]:
        v = ev(x, env)
        sizes.append(None if v is None else _i(v))
    flat = [lit(x) for x in args[2 + n : 2 + n + 2 * m]]
    edges = [(flat[2 * k], flat[2 * k + 1]) for k in range(m)]
    if any(not (0 <= u < n and 0 <= v < n) for u, v in edges):
        raise TypeErr("%s: edge endpoint out of range" % op)
    border = [_b(ev(x, env)) for x in args[2 + n + 2 * m :]]
    return graphref.division_ok(n, edges, sizes, border)


def domain(decl):
    name, kind, lo, hi = decl
    return (False, True) if kind == "bool" else tuple(range(lo, hi + 1))


def models(prog):
    """All models as dicts name -> value (brute force over the declared domains)."""
    names = [d[0] for d in prog.decls]
    out = []
    for vals in itertools.product(*[domain(d) for d in prog.decls]):
        env = dict(zip(names, vals))
        ok = True
        for c in prog.constraints:
            if not _b(ev(c, env)):
                ok = False
                break
        if ok:
            out.append(env)
    return out


def fmt(v):
    if v is True:
        return "true"
    if v is False:
        return "false"
    return str(v)


def nth_permutation(items, k):
    items = list(items)
    out = []
    while items:
        k, r = divmod(k, len(items))
        out.append(items.pop(r))
    return out


def reply_finder(prog, model, order=0):
    """Answer-finder reply: the Java wrapper prints ints then bools, then a bare 'a'."""
    if model is None:
        return "s UNSATISFIABLE\n"
    ints = [d[0] for d in prog.decls if d[1] == "int"]
    bools = [d[0] for d in prog.decls if d[1] == "bool"]
    lines = ["a %s\t%s" % (n, fmt(model[n])) for n in ints + bools]
    lines = nth_permutation(lines, order)
    return "s SATISFIABLE\n" + "".join(l + "\n" for l in lines) + "a\n"


def reply_deduction(prog, facts, order=0):
    """Deduction reply: facts = None (unsat) or dict name -> value for the decided keys only."""
    if facts is None:
        return "unsat\n"
    ints = [d[0] for d in prog.decls if d[1] == "int" and d[0] in facts]
    bools = [d[0] for d in prog.decls if d[1] == "bool" and d[0] in facts]
    lines = ["%s %s" % (n, fmt(facts[n])) for n in ints + bools]
    lines = nth_permutation(lines, order)
    return "sat\n" + "".join(l + "\n" for l in lines)


def exact_facts(prog, ms):
    facts = {}
    for k in prog.keys:
        vals = set(m[k] for m in ms)
        if len(vals) == 1:
            facts[k] = next(iter(vals))
    return facts


def solve_text(text, pick=0, order=0):
    prog = parse(text)
    ms = models(prog)
    if prog.keys is None:
        return reply_finder(prog, ms[pick % len(ms)] if ms else None, order)
    return reply_deduction(prog, exact_facts(prog, ms) if ms else None, order)


def selftest():
    p = parse("(bool b0)\n(int i1 -1 2)\n(=> b0 (= i1 (+ 1 (if b0 1 0))))\n(alldifferent i1 0)\n#b0 i1")
    ms = models(p)
    assert sorted((m["b0"], m["i1"]) for m in ms) == [(False, -1), (False, 1), (False, 2), (True, 2)]
    assert solve_text("(bool b0)\n(! b0)") == "s SATISFIABLE\na b0\tfalse\na\n"
    assert solve_text("(bool b0)\n(&& b0 (! b0))") == "s UNSATISFIABLE\n"
    assert solve_text("(bool b0)\n(int i1 0 2)\n(>= i1 2)\n#b0 i1") == "sat\ni1 2\n"
    assert solve_text("(bool b0)\nfalse\n#b0") == "unsat\n"
    for bad in ("(bool b0)\nNone", "(bool b0)\n(bool b0)", "(bool b0)\n(xor b0)", "(bool b0)\nb1", "(bool b0)\n(foo b0)",
                "(bool b0)\n(! b0", "(int i0 0)\ntrue", "(bool b0)\nTrue", "(bool b0)\n#b1", "(bool b0)\n\ntrue"):
        try:
            parse(bad)
        except ParseError:
            continue
        raise AssertionError("accepted: %r" % bad)
    g = "(bool b0)\n(bool b1)\n(bool b2)\n(graph-active-vertices-connected 3 2 b0 b1 b2 0 1 1 2)"
    assert len(models(parse(g))) == 7
    d = "(bool b0)\n(graph-division 2 1 2 * 0 1 b0)"
    assert [m["b0"] for m in models(parse(d))] == [False]
    assert ev(parse_line("(- 5 1 1)"), {}) == 3 and ev(parse_line("(- 5)"), {}) == -5


if __name__ == "__main__":
    sys.path.insert(0, os.path.dirname(os.path.dirname(os.path.abspath(__file__))))
    __package__ = "mc"
    import mc  # noqa: F401

    path = sys.argv[1] if len(sys.argv) > 1 else "/dev/stdin"
    data = open(path).read()
    if os.environ.get("SUGAR_MODEL_STDERR") == "1":
        # a diagnostic on stderr before the reply, as a JVM prints ("Picked up _JAVA_OPTIONS: ..."): not part of the reply
        sys.stderr.write("Picked up _JAVA_OPTIONS: -Xmx1g (simulated diagnostic)\n")
        sys.stderr.flush()
    sys.stdout.write(
        solve_text(data, int(os.environ.get("SUGAR_MODEL_PICK", "0")), int(os.environ.get("SUGAR_MODEL_ORDER", "0")))
    )
