"""R-graph / R-native: plain-Python graph predicates and enumerators.

Vertices are 0..n-1, an edge list is a list of (u, v) pairs (parallel edges
allowed, loops never generated).  Nothing here calls cspuz.
"""

import itertools


# ---------------------------------------------------------------- predicates
def components(n, edges, verts=None):
    """Connected components of the subgraph induced by `verts` (default: all)."""
    if verts is None:
        verts = range(n)
    verts = set(verts)
    adj = {v: [] for v in verts}
    for u, v in edges:
        if u in verts and v in verts:
            adj[u].append(v)
            adj[v].append(u)
    seen = set()
    comps = []
    for s in sorted(verts):
        if s in seen:
            continue
        comp = {s}
        stack = [s]
        seen.add(s)
        while stack:
            x = stack.pop()
            for y in adj[x]:
                if y not in seen:
                    seen.add(y)
                    comp.add(y)
                    stack.append(y)
        comps.append(comp)
    return comps


def induced_connected(n, edges, verts):
    """True iff `verts` induce a connected subgraph; the empty set counts."""
    verts = set(verts)
    return len(components(n, edges, verts)) <= 1


def induced_edge_count(edges, verts):
    verts = set(verts)
    return sum(1 for u, v in edges if u in verts and v in verts)


def induced_tree(n, edges, verts):
    """Connected and acyclic (as a multigraph), or empty."""
    verts = set(verts)
    if not verts:
        return True
    return induced_connected(n, edges, verts) and induced_edge_count(edges, verts) == len(verts) - 1


def edges_acyclic(n, active_edges):
    """True iff the multigraph formed by the given edges has no cycle."""
    parent = list(range(n))

    def find(x):
        while parent[x] != x:
            parent[x] = parent[parent[x]]
            x = parent[x]
        return x

    for u, v in active_edges:
        ru, rv = find(u), find(v)
        if ru == rv:
            return False
        parent[ru] = rv
    return True


def degrees(n, active_edges):
    d = [0] * n
    for u, v in active_edges:
        d[u] += 1
        d[v] += 1
    return d


def edges_one_component(n, active_edges):
    touched = set()
    for u, v in active_edges:
        touched.add(u)
        touched.add(v)
    return len(components(n, active_edges, touched)) <= 1


def single_cycle(n, active_edges):
    """Exactly one simple cycle (two parallel edges form one); not the empty set."""
    if not active_edges:
        return False
    d = degrees(n, active_edges)
    if any(x not in (0, 2) for x in d):
        return False
    return edges_one_component(n, active_edges)


def single_path(n, active_edges):
    """Exactly one simple path with >= 1 edge; not the empty set."""
    if not active_edges:
        return False
    d = degrees(n, active_edges)
    if any(x not in (0, 1, 2) for x in d):
        return False
    if sum(1 for x in d if x == 1) != 2:
        return False
    return edges_one_component(n, active_edges)


def visited(n, active_edges):
    d = degrees(n, active_edges)
    return [x > 0 for x in d]


def blocks_after_cut(n, edges, border):
    """Components after removing the edges whose border flag is set."""
    kept = [e for e, b in zip(edges, border) if not b]
    return components(n, kept)


def division_ok(n, edges, sizes, border):
    """R-native meaning of graph-division (and the oracle of C07 with borders)."""
    blocks = blocks_after_cut(n, edges, border)
    where = {}
    for k, blk in enumerate(blocks):
        for v in blk:
            where[v] = k
    for (u, v), b in zip(edges, border):
        if b and where[u] == where[v]:
            return False
    for v in range(n):
        if sizes[v] is not None and len(blocks[where[v]]) != sizes[v]:
            return False
    return True


def eval_native(e, env, ev):
    """Reference semantics of the two native operators (from the cspuz docstrings)."""
    from cspuz.expr import Op

    ops = e.operands
    n, m = ops[0], ops[1]
    if not (isinstance(n, int) and isinstance(m, int)):
        raise ValueError("native operator: n, m must be integer literals")
    if e.op == Op.GRAPH_ACTIVE_VERTICES_CONNECTED:
        if len(ops) != 2 + n + 2 * m:
            raise ValueError("graph-active-vertices-connected: operand count")
        act = [ev(x, env) for x in ops[2 : 2 + n]]
        if not all(isinstance(a, bool) for a in act):
            raise ValueError("graph-active-vertices-connected: activity must be boolean")
        flat = ops[2 + n :]
        edges = [(flat[2 * k], flat[2 * k + 1]) for k in range(m)]
        for u, v in edges:
            if not (isinstance(u, int) and isinstance(v, int) and 0 <= u < n and 0 <= v < n):
                raise ValueError("graph-active-vertices-connected: bad edge")
        return induced_connected(n, edges, [v for v in range(n) if act[v]])
    if e.op == Op.GRAPH_DIVISION:
        if len(ops) != 2 + n + 2 * m + m:
            raise ValueError("graph-division: operand count")
        sizes = [None if x is None else ev(x, env) for x in ops[2 : 2 + n]]
        flat = ops[2 + n : 2 + n + 2 * m]
        edges = [(flat[2 * k], flat[2 * k + 1]) for k in range(m)]
        border = [ev(x, env) for x in ops[2 + n + 2 * m :]]
        if not all(isinstance(b, bool) for b in border):
            raise ValueError("graph-division: border flags must be boolean")
        return division_ok(n, edges, sizes, border)
    raise ValueError("not a native operator")


# --------------------------------------------------------------- enumerators
def all_pairs(n):
    return [(u, v) for u in range(n) for v in range(u + 1, n)]


def simple_graphs(n):
    """All labelled simple graphs on n vertices, as edge lists (u < v)."""
    pairs = all_pairs(n)
    for mask in range(1 << len(pairs)):
        yield [p for k, p in enumerate(pairs) if mask >> k & 1]


def multigraphs(n, max_edges, max_mult=2):
    """All labelled loop-free multigraphs with multiplicity <= max_mult and <= max_edges edges."""
    pairs = all_pairs(n)
    for mult in itertools.product(range(max_mult + 1), repeat=len(pairs)):
        if sum(mult) > max_edges:
            continue
        edges = []
        for p, k in zip(pairs, mult):
            edges += [p] * k
        yield edges


def orient(edges, variant):
    """Edge-list presentation variants: 0 as is, 1 every pair reversed, 2 list order reversed,
    3 alternating orientation."""
    if variant == 0:
        return list(edges)
    if variant == 1:
        return [(v, u) for u, v in edges]
    if variant == 2:
        return list(reversed(edges))
    return [(v, u) if k % 2 else (u, v) for k, (u, v) in enumerate(edges)]


def grid_edges(h, w):
    """Independent construction of the grid graph: vertex y*w+x; all horizontal edges, then vertical."""
    edges = []
    for y in range(h):
        for x in range(w - 1):
            edges.append((y * w + x, y * w + x + 1))
    for y in range(h - 1):
        for x in range(w):
            edges.append((y * w + x, (y + 1) * w + x))
    return edges


def grid_shapes(max_cells, min_side=1):
    out = []
    for h in range(min_side, max_cells + 1):
        for w in range(min_side, max_cells + 1):
            if h * w <= max_cells:
                out.append((h, w))
    return sorted(out, key=lambda s: (s[0] * s[1], s))


def set_partitions(items):
    """All set partitions of a list, blocks in order of their smallest element."""
    items = list(items)
    if not items:
        yield []
        return
    first, rest = items[0], items[1:]
    for part in set_partitions(rest):
        yield [[first]] + part
        for k in range(len(part)):
            yield part[:k] + [[first] + part[k]] + part[k + 1 :]


def canonical_partition(blocks):
    return tuple(sorted(tuple(sorted(b)) for b in blocks))


def connected_partitions(n, edges):
    """All partitions of 0..n-1 into blocks that each induce a connected subgraph."""
    for part in set_partitions(range(n)):
        if all(induced_connected(n, edges, b) for b in part):
            yield [sorted(b) for b in sorted(part, key=min)]


def lattice_edges(h, w):
    """Segments of the lattice of an h x w cell frame, as ((y0,x0),(y1,x1)) point pairs.
    Returned as two dicts keyed like BoolGridFrame arrays: horizontal[(y,x)] joins (y,x)-(y,x+1) for
    0<=y<=h, 0<=x<w; vertical[(y,x)] joins (y,x)-(y+1,x) for 0<=y<h, 0<=x<=w."""
    hor = {}
    ver = {}
    for y in range(h + 1):
        for x in range(w):
            hor[(y, x)] = ((y, x), (y, x + 1))
    for y in range(h):
        for x in range(w + 1):
            ver[(y, x)] = ((y, x), (y + 1, x))
    return hor, ver


def selftest():
    tri = [(0, 1), (1, 2), (0, 2)]
    assert induced_connected(3, tri, []) and induced_connected(3, tri, [0, 2])
    assert not induced_connected(4, [(0, 1), (2, 3)], [0, 1, 2, 3])
    assert not induced_connected(3, [(0, 1), (1, 2)], [0, 2])
    assert induced_tree(3, [(0, 1), (1, 2)], [0, 1, 2]) and not induced_tree(3, tri, [0, 1, 2])
    assert induced_tree(3, tri, [0, 1]) and induced_tree(3, tri, [])
    assert edges_acyclic(3, [(0, 1), (1, 2)]) and not edges_acyclic(3, tri)
    assert not edges_acyclic(2, [(0, 1), (0, 1)])
    assert single_cycle(3, tri) and single_cycle(2, [(0, 1), (0, 1)]) and not single_cycle(3, [])
    assert not single_cycle(6, tri + [(3, 4), (4, 5), (3, 5)])
    assert not single_cycle(3, [(0, 1), (1, 2)])
    assert single_path(3, [(0, 1), (1, 2)]) and single_path(2, [(0, 1)]) and not single_path(3, tri)
    assert not single_path(4, [(0, 1), (2, 3)]) and not single_path(4, [(0, 1), (0, 2), (0, 3)])
    assert not single_path(5, [(0, 1)] + [(2, 3), (3, 4), (2, 4)])
    assert sum(1 for _ in simple_graphs(4)) == 64 and sum(1 for _ in set_partitions(range(5))) == 52
    assert len(grid_edges(2, 3)) == 7 and len(grid_edges(1, 4)) == 3 and grid_edges(1, 1) == []
    assert division_ok(3, [(0, 1), (1, 2)], [2, None, 1], [False, True])
    assert not division_ok(3, [(0, 1), (1, 2)], [3, None, None], [False, True])
    assert not division_ok(3, tri, [None] * 3, [False, False, True])  # border inside a block
    assert sum(1 for _ in connected_partitions(4, grid_edges(2, 2))) == 12
    assert sum(1 for _ in multigraphs(3, 2)) == 1 + 3 + 3 + 3


# ---- deterministic "scale" families: deep shapes on larger grids -------------------------
def serpentine(h, w):
    """Cells of a winding corridor: even rows full, odd rows a single connector alternating right / left.
    It is a path (hence a tree) of about h*w/2 cells whose ends are as far apart as the board allows."""
    cells = []
    for y in range(h):
        if y % 2 == 0:
            cells += [(y, x) for x in range(w)]
        elif y % 4 == 1:
            cells.append((y, w - 1))
        else:
            cells.append((y, 0))
    return cells


def serpentine_order(h, w):
    """The serpentine cells in path order (from (0,0) to the far end)."""
    order = []
    for y in range(h):
        if y % 2 == 0:
            row = [(y, x) for x in range(w)]
            if (y // 2) % 2 == 1:
                row.reverse()
            order += row
        elif y % 4 == 1:
            order.append((y, w - 1))
        else:
            order.append((y, 0))
    return order


def boustrophedon(h, w):
    """Hamiltonian path through all cells of the grid, row by row, alternating direction."""
    out = []
    for y in range(h):
        row = [(y, x) for x in range(w)]
        if y % 2:
            row.reverse()
        out += row
    return out


def zoo():
    """Named mid-sized graphs with *structure* (5..10 vertices): shapes that neither the all-graphs-up-to-5 enumeration nor
    the path / cycle / grid scale families contain.  Returns [(name, n, edges)], each also in a relabelled presentation
    (vertex ids permuted by a fixed non-monotone permutation, edge list reversed, orientation alternating) so that
    nothing depends on vertex 0 being special or on edges being sorted."""
    base = []

    def add(name, n, edges):
        base.append((name, n, [tuple(e) for e in edges]))

    add("bowtie", 5, [(0, 1), (1, 2), (0, 2), (2, 3), (3, 4), (2, 4)])
    add("theta", 5, [(0, 2), (2, 1), (0, 3), (3, 1), (0, 4), (4, 1)])
    add("k4-pendant", 5, [(0, 1), (0, 2), (0, 3), (1, 2), (1, 3), (2, 3), (3, 4)])
    add("path-isolated-mid", 5, [(0, 1), (1, 3), (3, 4)])
    add("star-deg4", 5, [(2, 0), (2, 1), (2, 3), (2, 4)])
    add("two-far-edges", 6, [(0, 5), (1, 2)])
    add("sparse8", 8, [(0, 7), (2, 5), (6, 1)])
    add("prism", 6, [(0, 1), (1, 2), (0, 2), (3, 4), (4, 5), (3, 5), (0, 3), (1, 4), (2, 5)])
    add("wheel5", 6, [(i, (i + 1) % 5) for i in range(5)] + [(5, i) for i in range(5)])
    add("two-squares-one-vertex", 7, [(0, 1), (1, 2), (2, 3), (3, 0), (3, 4), (4, 5), (5, 6), (6, 3)])
    add("dumbbell", 7, [(0, 1), (1, 2), (0, 2), (2, 3), (3, 4), (4, 5), (5, 6), (4, 6)])
    add("triangle-path-isolated", 7, [(0, 1), (1, 2), (0, 2), (3, 4), (4, 5)])
    add("cycle7-chord", 7, [(i, (i + 1) % 7) for i in range(7)] + [(1, 4)])
    add("caterpillar", 8, [(0, 1), (1, 2), (2, 3), (0, 4), (1, 5), (2, 6), (3, 7)])
    add("cube", 8, [(a, a ^ b) for a in range(8) for b in (1, 2, 4) if a < a ^ b])
    add("ladder4", 8, [(i, i + 1) for i in range(3)] + [(4 + i, 5 + i) for i in range(3)] + [(i, i + 4) for i in range(4)])
    add("spider-deg4", 9, [(0, 1), (1, 2), (0, 3), (3, 4), (0, 5), (5, 6), (0, 7), (7, 8)])
    add("three-triangles-chain", 7, [(0, 1), (1, 2), (0, 2), (2, 3), (3, 4), (2, 4), (4, 5), (5, 6), (4, 6)])
    add("petersen", 10, [(i, (i + 1) % 5) for i in range(5)] + [(5 + i, 5 + (i + 2) % 5) for i in range(5)] + [(i, i + 5) for i in range(5)])
    # the same path / cycle with its edges listed in *merge order* (disjoint pieces first, joined later: (0,1)(2,3)(4,5)(6,7)(1,2)(5,6)(3,4))
    def merge_order(n, closed):
        es, step = [], 1
        while step < n:
            es += [(i + step - 1, i + step) for i in range(0, n - step, 2 * step)]
            step *= 2
        if closed:
            es.append((n - 1, 0))
        return es

    add("path8-merge-order", 8, merge_order(8, False))
    add("cycle8-merge-order", 8, merge_order(8, True))
    out = []
    for name, n, edges in base:
        out.append((name, n, edges))
        perm = [(3 * i + 2) % n if n % 3 else (i * 5 + 1) % n if n % 5 else (n - 1 - i) for i in range(n)]
        assert sorted(perm) == list(range(n))
        rel = orient(list(reversed([(perm[u], perm[v]) for u, v in edges])), 3)
        out.append((name + "~relabelled", n, rel))
    return out


def sparse_multigraphs(n, max_edges, max_mult=2):
    """All labelled loop-free multigraphs on n vertices with <= max_edges edges (multiplicity <= max_mult), enumerated by
    edge multiset (cheap when max_edges is small and n is not): graphs with many more vertices than edges, isolated
    vertices in every position."""
    pairs = all_pairs(n)
    for k in range(max_edges + 1):
        for es in itertools.combinations_with_replacement(pairs, k):
            if max_mult < k and any(es.count(p) > max_mult for p in set(es)):
                continue
            yield list(es)
