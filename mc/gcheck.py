"""Shared machinery of the graph-constraint checks (C04-C10): build a real Solver
with the constraint under test, fix the caller's variables to every pattern,
decide satisfiability through cspuz's own z3 backend (or the native-aware
harness backend when the program contains native operators) and compare with a
plain-Python oracle.
"""

from . import native_backend


def fix(v, val):
    """A constraint forcing variable v to val, built from raw nodes (no DSL sugar)."""
    from cspuz.expr import BoolExpr, BoolVar, Op

    if isinstance(v, BoolVar):
        return v if val else BoolExpr(Op.NOT, [v])
    return BoolExpr(Op.EQ, [v, val])


def count_native(constraints):
    from cspuz.expr import Expr, Op

    n = 0
    for c in constraints:
        if isinstance(c, Expr) and c.op in (Op.GRAPH_ACTIVE_VERTICES_CONNECTED, Op.GRAPH_DIVISION):
            n += 1
        elif native_backend._has_native(c):
            n += 1000  # nested native operator: never expected
    return n


_Z3_TIMEOUT_SET = [False]


def decide(solver, fixes):
    """Satisfiability of solver's constraints + fixes; solver is left unchanged."""
    if not _Z3_TIMEOUT_SET[0]:
        # the shard watchdog cannot interrupt a C call: bound every z3 query (no query of the unchanged tree comes near)
        import z3

        z3.set_param("timeout", 300000)
        _Z3_TIMEOUT_SET[0] = True
    saved = solver.constraints
    solver.constraints = list(saved) + list(fixes)
    try:
        backend = native_backend.NativeBackend if count_native(solver.constraints) else "z3"
        return solver.find_answer(backend=backend)
    finally:
        solver.constraints = saved


def junk(solver):
    """Make the Solver a used one: earlier variables of both kinds and unrelated constraints, so that the constraint under
    test does not start at variable id 0 on an empty program."""
    b = solver.bool_array(3)
    i = solver.int_array(2, -2, 3)
    solver.ensure(b[0] | ~b[0], i[0] <= i[1] + 9, (b[1] & b[2]).then(i[0] >= -2))


def make_graph(n, edges, grown=None):
    """Build a cspuz Graph.  With grown=k the Graph object has a history: only the first k edges are added, then the
    object is *used* by every graph constraint on throw-away Solvers (and its line graph is taken), then the remaining
    edges are added.  A Graph with a history must behave exactly like one built in one go."""
    from cspuz import graph

    g = graph.Graph(n)
    if grown is None:
        for u, v in edges:
            g.add_edge(u, v)
        return g
    for u, v in edges[:grown]:
        g.add_edge(u, v)
    use_everywhere(g)
    for u, v in edges[grown:]:
        g.add_edge(u, v)
    return g


def use_everywhere(g):
    """Post every graph constraint once on this Graph object (results are thrown away)."""
    from cspuz import Solver, graph

    n, m = g.num_vertices, len(g)
    calls = [
        lambda s: graph.active_vertices_connected(s, s.bool_array(n), g, use_graph_primitive=False),
        lambda s: graph.active_vertices_connected(s, s.bool_array(n), g, acyclic=True),
        lambda s: graph.active_vertices_connected(s, s.bool_array(n), g, use_graph_primitive=True),
        lambda s: graph.active_vertices_not_adjacent(s, s.bool_array(n), g),
        lambda s: graph.active_vertices_not_adjacent_and_not_segmenting(s, s.bool_array(n), g),
        lambda s: graph.active_edges_acyclic(s, s.bool_array(m), g),
        lambda s: graph.division_connected(s, s.int_array(n, 0, 1), 2, g),
        lambda s: graph.active_edges_single_cycle(s, s.bool_array(m), g, use_graph_primitive=False),
        lambda s: graph.active_edges_single_cycle(s, s.bool_array(m), g, use_graph_primitive=True),
        lambda s: graph.active_edges_single_path(s, s.bool_array(m), g, use_graph_primitive=True),
        lambda s: graph.division_connected_variable_groups(s, graph=g, group_size=[None] * n),
        lambda s: graph.division_connected_variable_groups_with_borders(s, group_size=[None] * n, is_border=s.bool_array(m), graph=g, use_graph_primitive=False),
        lambda s: g.line_graph(),
        lambda s: (len(g), list(g), [g[i] for i in range(len(g))]),
    ]
    # calls that must be (and are) refused come first and last: too few flags, ints / None for flags, integer arrays for flags.  A refused
    # call must leave nothing behind on the Graph object either.
    bad = [
        lambda s: graph.active_edges_acyclic(s, s.bool_array(max(0, m - 1)), g),
        lambda s: graph.active_edges_acyclic(s, [1] * m, g),
        lambda s: graph.active_edges_acyclic(s, [None] * m, g),
        lambda s: graph.active_edges_single_cycle(s, s.bool_array(max(0, m - 1)), g, use_graph_primitive=False),
        lambda s: graph.active_edges_single_cycle(s, [2] * m, g, use_graph_primitive=True),
        lambda s: graph.active_vertices_connected(s, s.bool_array(max(0, n - 1)), g, use_graph_primitive=False),
        lambda s: graph.active_vertices_connected(s, [0.5] * n, g, acyclic=True),
        lambda s: graph.active_vertices_not_adjacent(s, s.bool_array(max(0, n - 1)), g),
        lambda s: graph.active_vertices_not_adjacent_and_not_segmenting(s, s.int_array(n, 0, 1), g),
        lambda s: graph.division_connected(s, s.int_array(max(0, n - 1), 0, 1), 2, g),
        lambda s: graph.division_connected(s, s.int_array(n, 0, 1), 2, g, roots=["x"]),
        lambda s: graph.division_connected_variable_groups(s, graph=g, group_size=[None] * max(0, n - 1)),
        lambda s: graph.division_connected_variable_groups_with_borders(s, group_size=[None] * n, is_border=s.bool_array(max(0, m - 1)), graph=g, use_graph_primitive=False),
    ]
    for c in bad + calls + bad:
        try:
            c(Solver())
        except Exception:
            pass  # whatever goes wrong here is judged by the checks that own that constraint


def patterns(n, prange=None):
    lo, hi = prange if prange else (0, 1 << n)
    for mask in range(lo, min(hi, 1 << n)):
        yield tuple(bool(mask >> k & 1) for k in range(n))


def split_shards(cases, size_of, target):
    """Shards (lo, hi, plo, phi): runs of whole cases worth ~target patterns, big cases split by pattern range."""
    shards = []
    lo, acc = 0, 0
    for i, c in enumerate(cases):
        sz = size_of(c)
        if sz > 2 * target:
            if lo < i:
                shards.append((lo, i, None, None))
            for plo in range(0, sz, target):
                shards.append((i, i + 1, plo, min(sz, plo + target)))
            lo, acc = i + 1, 0
            continue
        acc += sz
        if acc >= target:
            shards.append((lo, i + 1, None, None))
            lo, acc = i + 1, 0
    if lo < len(cases):
        shards.append((lo, len(cases), None, None))
    return shards


def heavy_first(shards, cases):
    """(first, rest): shards that hold a scale / large case (a fixed list of hand-picked inputs on a big board: few
    evaluations, each of them slow) are started first so that they do not form the tail of the run."""
    first, rest = [], []
    for sh in shards:
        lo, hi = sh[0], sh[1]
        big = any(("patterns" in c or "partitions" in c or "labelings" in c or c.get("family")) for c in cases[lo:hi])
        (first if big else rest).append(sh)
    return first, rest


# boards whose (height, width) collide under careless keys: decimal concatenation ("1"+"12" == "11"+"2"), h*w, h+w, transposition
HIST_BOARDS = [(1, 12), (11, 2), (2, 11), (21, 1), (1, 21), (12, 1), (1, 11), (11, 1), (2, 6), (6, 2), (3, 4), (4, 3)]


def grid_history_pairs(tier):
    pairs = [(a, b) for a in HIST_BOARDS for b in HIST_BOARDS if a != b]
    if tier == "quick":
        # every board appears as the second of a pair after its transpose, after each board of equal area and after each
        # board with the same decimal concatenation
        keep = []
        for a, b in pairs:
            same_cat = ("%d%d" % a) == ("%d%d" % b)
            if same_cat or a[0] * a[1] == b[0] * b[1] or a == (b[1], b[0]) or a[0] + a[1] == b[0] + b[1]:
                keep.append((a, b))
        pairs = keep
    return pairs


def warm_grid(shape):
    """Use every constraint that infers a grid graph once on a board of this shape (throw-away Solvers): whatever the
    library remembers about that board must not leak into the next one."""
    from cspuz import BoolGridFrame, Solver, graph

    h, w = shape
    calls = [
        lambda s: graph.active_vertices_connected(s, s.bool_array((h, w))),
        lambda s: graph.active_vertices_connected(s, s.bool_array((h, w)), acyclic=True),
        lambda s: graph.division_connected(s, s.int_array((h, w), 0, 1), 2),
        lambda s: graph.division_connected_variable_groups(s, shape=(h, w)),
        lambda s: graph.active_vertices_not_adjacent(s, s.bool_array((h, w))),
        lambda s: graph.active_vertices_not_adjacent_and_not_segmenting(s, s.bool_array((h, w))),
        lambda s: BoolGridFrame(s, h, w).single_loop(),
        lambda s: graph.active_edges_connected_crossable(s, BoolGridFrame(s, h, w)),
    ]
    for c in calls:
        try:
            c(Solver())
        except Exception:
            pass  # judged by the check that owns that constraint


LAYER_GRAPHS = None


def layer_graphs():
    """Graphs of the two-layer family: all multigraphs with <= 3 edges on 2..3 vertices, two disjoint triangles, a triangle
    next to a square sharing no vertex, a path of 4."""
    global LAYER_GRAPHS
    if LAYER_GRAPHS is None:
        from . import graphref

        out = []
        for n in (2, 3):
            for es in graphref.multigraphs(n, 3, 2):
                if es:
                    out.append((n, list(es)))
        out.append((6, [(0, 1), (1, 2), (2, 0), (3, 4), (4, 5), (5, 3)]))
        out.append((7, [(0, 1), (1, 2), (2, 0), (3, 4), (4, 5), (5, 6), (6, 3)]))
        out.append((4, [(0, 1), (1, 2), (2, 3)]))
        out.append((4, [(0, 1), (1, 2), (2, 3), (3, 0)]))
        out.append((4, [(0, 1), (1, 2), (2, 0), (2, 3), (3, 0)]))
        LAYER_GRAPHS = out
    return LAYER_GRAPHS


def run_two_layers(part, key, case, post, nvars, oracle, menu):
    """The same constraint posted TWICE on one Solver with one Graph object and two independent variable arrays: the
    program must admit exactly the pairs (p1, p2) with oracle(p1) and oracle(p2) (state kept on the Graph, the Solver or
    the module between the two calls shows here).  p1 ranges over all 2^nvars patterns, p2 over `menu` (all patterns when
    nvars <= 5)."""
    from cspuz import Solver

    s = Solver()
    g = make_graph(case["n"], case["edges"])
    try:
        v1 = post(s, g)
        v2 = post(s, g)
    except Exception as e:
        part.violation(key + ":build-raises-" + type(e).__name__, case, {"exception": repr(e)[:300]})
        return
    seconds = list(patterns(nvars)) if nvars <= 5 else [tuple(bool(b) for b in p) for p in menu]
    for p1 in patterns(nvars):
        e1 = oracle(p1)
        for p2 in seconds:
            exp = e1 and oracle(p2)
            judge(part, key, case, list(p1) + list(p2), exp, s, [fix(v, b) for v, b in zip(v1, p1)] + [fix(v, b) for v, b in zip(v2, p2)])


class GraphConfig(object):
    """Context manager setting cspuz.config flags (module-level state) and restoring them."""

    def __init__(self, **kw):
        self.kw = kw

    def __enter__(self):
        from cspuz import config

        self.saved = {k: getattr(config, k) for k in self.kw}
        for k, v in self.kw.items():
            setattr(config, k, v)

    def __exit__(self, *a):
        from cspuz import config

        for k, v in self.saved.items():
            setattr(config, k, v)


BRUTE_LIMIT = 0  # set by the drivers: size of the auxiliary assignment space up to which z3 is cross-checked


def brute_decide(solver, fixes, limit):
    """Decide the same question without any solver: enumerate every assignment of the variables not pinned by `fixes`
    and evaluate the posted constraints with the reference evaluator.  None if the space exceeds `limit`."""
    import itertools

    from cspuz.expr import BoolVar, Expr, IntVar, Op

    from . import refsem

    pinned = {}
    rest = []
    for f in fixes:
        if isinstance(f, (BoolVar,)):
            pinned[f.id] = True
        elif isinstance(f, Expr) and f.op == Op.NOT and isinstance(f.operands[0], BoolVar):
            pinned[f.operands[0].id] = False
        elif isinstance(f, Expr) and f.op == Op.EQ and isinstance(f.operands[0], IntVar) and isinstance(f.operands[1], int):
            pinned[f.operands[0].id] = f.operands[1]
        else:
            rest.append(f)
    for v in solver.variables:
        if v.id in pinned and isinstance(v, IntVar) and pinned[v.id] not in refsem.domain(v):
            return False  # pinned outside the variable's own domain
    free = [v for v in solver.variables if v.id not in pinned]
    size = 1
    for v in free:
        size *= len(refsem.domain(v))
        if size > limit:
            return None
    cons = list(solver.constraints) + rest
    ids = [v.id for v in free]
    for vals in itertools.product(*[refsem.domain(v) for v in free]):
        env = dict(pinned)
        env.update(zip(ids, vals))
        if refsem.holds(cons, env):
            return True
    return False


def judge(part, key_prefix, case, pattern, expected, solver, fixes):
    """One decision: compare with the oracle, record outcome/violation.  Returns observed or None."""
    part.count("evaluations")
    if BRUTE_LIMIT:
        try:
            b = brute_decide(solver, fixes, BRUTE_LIMIT)
        except Exception as e:
            # the posted program cannot even be evaluated (e.g. a native operator whose operand list contradicts its header)
            c = dict(case)
            c["pattern"] = list(pattern)
            part.violation("%s:posted-program-ill-formed-%s" % (key_prefix, type(e).__name__), c, {"exception": repr(e)[:300]})
            return None
        if b is not None:
            part.count("solver_free_decisions")
            if b is not expected:
                c = dict(case)
                c["pattern"] = list(pattern)
                part.violation("%s:%s(solver-free)" % (key_prefix, "false-accept" if b else "false-reject"), c, {"observed_sat": b, "expected_sat": expected})
    try:
        got = decide(solver, fixes)
    except Exception as e:
        c = dict(case)
        c["pattern"] = list(pattern)
        part.violation("%s:raises-%s" % (key_prefix, type(e).__name__), c, {"exception": repr(e)[:300], "expected_sat": expected})
        return None
    part.outcome("%s:%s" % (key_prefix.split("[")[0], "admit" if expected else "reject"))
    if got is not expected:
        c = dict(case)
        c["pattern"] = list(pattern)
        part.violation(
            "%s:%s" % (key_prefix, "false-accept" if got else "false-reject"), c, {"observed_sat": got, "expected_sat": expected}
        )
    return got
