"""Harness-side backend for programs that contain the two native graph operators.

cspuz's z3 backend cannot translate `graph-active-vertices-connected` /
`graph-division`; the backends that can (csugar, cspuz_core) are not installed.
This class is passed as `backend=<type>`: the plain part of the program goes
through cspuz's own z3 translation, and every native constraint gets its
documented meaning (mc/graphref.py, R-native) by lazy refinement: solve the
plain part, evaluate the native operator on the model, block the operand
valuation if it is violated, repeat.  Terminates because each blocked valuation
is excluded for good and the operand space is finite.
"""


def _vars_of(e, acc):
    from cspuz.expr import BoolVar, Expr, IntVar

    if isinstance(e, (BoolVar, IntVar)):
        acc[e.id] = e
    elif isinstance(e, Expr):
        for o in e.operands:
            _vars_of(o, acc)
    return acc


def _has_native(e):
    from cspuz.expr import Expr, Op

    if not isinstance(e, Expr):
        return False
    if e.op in (Op.GRAPH_ACTIVE_VERTICES_CONNECTED, Op.GRAPH_DIVISION):
        return True
    return any(_has_native(o) for o in e.operands)


class NativeBackend(object):
    MAX_ROUNDS = 100000
    ROUNDS = 0  # statistics of the last solve

    def __init__(self, variables):
        import z3
        from cspuz.backend import z3 as cz3

        if cz3.z3 is None:
            cz3.z3 = z3
        self.z3 = z3
        self.cz3 = cz3
        self.variables = list(variables)
        self.inner = cz3.Z3Backend(self.variables)
        self.native = []

    def add_constraint(self, constraint):
        from cspuz.expr import Expr, Op

        cs = constraint if isinstance(constraint, list) else [constraint]
        for c in cs:
            if isinstance(c, Expr) and c.op in (Op.GRAPH_ACTIVE_VERTICES_CONNECTED, Op.GRAPH_DIVISION):
                self.native.append(c)
            elif _has_native(c):
                raise NotImplementedError("native operator nested inside another expression")
            else:
                self.inner.add_constraint(c)

    def solve(self):
        from cspuz.expr import BoolVar, IntVar
        from . import refsem

        z3 = self.z3
        vd = self.inner.variables_dict
        solver = z3.Solver()
        for var in self.variables:
            if isinstance(var, IntVar):
                solver.add(var.lo <= vd[var.id], vd[var.id] <= var.hi)
        solver.add(self.inner.converted_constraints)
        rounds = 0
        while True:
            rounds += 1
            if rounds > self.MAX_ROUNDS:
                raise RuntimeError("native refinement did not converge")
            if solver.check() == z3.unsat:
                type(self).ROUNDS = rounds
                return False
            model = solver.model()
            env = {}
            for var in self.variables:
                val = model.eval(vd[var.id], model_completion=True)
                env[var.id] = z3.is_true(val) if isinstance(var, BoolVar) else val.as_long()
            bad = None
            for nc in self.native:
                if not refsem.ev(nc, env):
                    bad = nc
                    break
            if bad is None:
                for var in self.variables:
                    var.sol = env[var.id]
                type(self).ROUNDS = rounds
                return True
            lemma = self.lemma(bad, env)
            if lemma is None:
                type(self).ROUNDS = rounds
                return False  # a variable-free native constraint that is false
            solver.add(lemma)

    def lemma(self, nc, env):
        """A clause implied by the R-native meaning of `nc` that excludes the current valuation."""
        from cspuz.expr import Op
        from . import graphref, refsem

        z3 = self.z3
        vd = self.inner.variables_dict
        conv = lambda e: self.cz3._convert_expr(e, vd)  # noqa: E731
        if nc.op == Op.GRAPH_DIVISION:
            ops = nc.operands
            n, m = ops[0], ops[1]
            size_ops = ops[2 : 2 + n]
            flat = ops[2 + n : 2 + n + 2 * m]
            edges = [(flat[2 * k], flat[2 * k + 1]) for k in range(m)]
            border_ops = ops[2 + n + 2 * m :]
            bvals = [refsem.ev(b, env) for b in border_ops]
            differ = [conv(b) != z3.BoolVal(v) for b, v in zip(border_ops, bvals) if _vars_of(b, {})]
            blocks = graphref.blocks_after_cut(n, edges, bvals)
            where = {}
            for blk in blocks:
                for v in blk:
                    where[v] = len(blk)
            blk_of = {}
            for k, blk in enumerate(blocks):
                for v in blk:
                    blk_of[v] = k
            consistent = all(not (b and blk_of[u] == blk_of[v]) for (u, v), b in zip(edges, bvals))
            if not consistent:
                return z3.Or(differ) if differ else None
            # given this border valuation the block sizes are forced
            sizes = [conv(sz) == where[v] for v, sz in enumerate(size_ops) if sz is not None]
            body = z3.And(sizes) if sizes else z3.BoolVal(True)
            return z3.Or(differ + [body])
        occ = _vars_of(nc, {})
        if not occ:
            return None
        return z3.Or([vd[i] != env[i] for i in occ])

    def solve_irrefutably(self, is_answer_key):
        raise NotImplementedError


def selftest():
    from cspuz import Solver, graph

    s = Solver()
    a = s.bool_array(3)
    g = graph.Graph(3)
    g.add_edge(0, 1)
    g.add_edge(1, 2)
    graph.active_vertices_connected(s, a, g, use_graph_primitive=True)
    s.ensure(a[0], a[2])
    assert s.find_answer(backend=NativeBackend) is True and a[1].sol is True
    s.ensure(~a[1])
    assert s.find_answer(backend=NativeBackend) is False
