"""E3: stateless exploration of environment nondeterminism with a choice tape.

The code under test asks `tape.choose(n)` wherever its environment may answer
in n ways.  `explore()` runs it to completion with answer 0 everywhere, then
systematically re-runs it with every alternative at every choice point
(depth-first over choice prefixes).  Replaying a prefix must reproduce the
recorded prefix; anything else is a hard error (nondeterminism we do not own).
"""


class ReplayDivergence(Exception):
    pass


class Tape(object):
    def __init__(self, prefix=()):
        self.prefix = list(prefix)
        self.pos = 0
        self.trace = []  # (choice, number of options)

    def choose(self, n):
        if n <= 0:
            raise ValueError("choose() among no options")
        if self.pos < len(self.prefix):
            c = self.prefix[self.pos]
            if c >= n:
                raise ReplayDivergence("prefix choice %d but only %d options at point %d" % (c, n, self.pos))
        else:
            c = 0
        self.pos += 1
        self.trace.append((c, n))
        return c

    def choices(self):
        return [c for c, _ in self.trace]


def explore(run_one, max_deviations=None, max_executions=None):
    """Yield (choices, observation) for every execution.  `run_one(tape)` executes the
    real code once.  max_deviations bounds the number of non-default answers per execution
    (None = unbounded = exhaustive)."""
    stack = [[]]
    n = 0
    while stack:
        prefix = stack.pop()
        tape = Tape(prefix)
        obs = run_one(tape)
        if tape.pos < len(prefix):
            raise ReplayDivergence("execution ended after %d choice points, prefix has %d" % (tape.pos, len(prefix)))
        n += 1
        yield tape.choices(), obs
        if max_executions is not None and n >= max_executions:
            return
        for i in range(len(prefix), len(tape.trace)):
            base = [c for c, _ in tape.trace[:i]]
            if max_deviations is not None and sum(1 for c in base if c != 0) + 1 > max_deviations:
                continue
            for alt in range(1, tape.trace[i][1]):
                stack.append(base + [alt])


def selftest():
    def prog(t):
        a = t.choose(2)
        b = t.choose(3) if a else 0
        return (a, b)

    got = sorted(obs for _, obs in explore(prog))
    assert got == [(0, 0), (1, 0), (1, 1), (1, 2)], got
    assert len(list(explore(prog, max_deviations=1))) == 2
    t = Tape([1, 5])
    t.choose(2)
    try:
        t.choose(3)
        raise AssertionError("divergence not detected")
    except ReplayDivergence:
        pass
