"""Yajilin: a single loop through cell centres (or no line at all) and some black cells.

Rules (Nikoli; DESIGN.md appendix A): clue cells are neither black nor on the loop; every other cell is black xor on the
loop; black cells are never orthogonally adjacent; an arrow clue "dn" gives the number n of black cells strictly in direction
d from the clue ("^" up, "v" down, "<" left, ">" right) up to the board edge; "??" is a clue cell without information.

Key order of call()/readings(): the BoolGridFrame(h-1, w-1) edges (horizontal row-major, then vertical row-major), then
black_cell[y][x] row-major.  All values are bools.
"""

from . import base

ARROWS = "^v<>"
_CACHE = {}


def _cands(h, w):
    """Clue-independent part: per loop the set of cells it visits."""
    if (h, w) not in _CACHE:
        out = []
        for loop in base.loops(h, w):
            info = base.loop_degree_info(h, w, loop)
            out.append((loop, frozenset(c for c, d in info.items() if d)))
        _CACHE[(h, w)] = out
    return _CACHE[(h, w)]


class Yajilin(base.Rule):
    name = "yajilin"

    def shapes(self, tier):
        s = [(1, 1), (1, 2), (2, 1), (1, 3), (3, 1), (2, 2), (2, 3), (3, 2), (3, 3)]
        if tier != "quick":
            s += [(1, 4), (4, 1), (2, 4), (4, 2), (3, 4), (4, 3)]
        # long thin boards for clue values of two digits (one clue, or one clue per end)
        s += [("long", 1, 12), ("long", 12, 1), ("long", 3, 12), ("long", 12, 3)]
        if tier != "quick":
            s += [("long", 2, 13), ("long", 13, 2), ("long", 1, 23), ("long", 23, 1)]
        return s

    def alphabet(self, shape):
        return ["??"] + [d + str(n) for d in ARROWS for n in (0, 1, 2)]

    def instances(self, shape, cap):
        if shape[0] == "long":
            _, h, w = shape
            horiz = w >= h
            n = max(h, w)
            for v in (n - 3, n - 2, 9, 10, 11, 5):
                if v < 0:
                    continue
                for line in range(min(h, w)):
                    for near, far in (((">" if horiz else "v"), ("<" if horiz else "^")),):
                        p1 = [[".."] * w for _ in range(h)]
                        p2 = [[".."] * w for _ in range(h)]
                        p3 = [[".."] * w for _ in range(h)]
                        if horiz:
                            p1[line][0] = near + str(v)
                            p2[line][w - 1] = far + str(v)
                            p3[line][0] = near + str(v)
                            p3[line][w - 1] = far + str(max(0, v - 1))
                        else:
                            p1[0][line] = near + str(v)
                            p2[h - 1][line] = far + str(v)
                            p3[0][line] = near + str(v)
                            p3[h - 1][line] = far + str(max(0, v - 1))
                        for pr in (p1, p2, p3):
                            yield {"height": h, "width": w, "problem": pr}
            return
        h, w = shape
        lays, k = base.layouts(h * w, "..", self.alphabet(shape), cap)
        for cells in lays:
            yield {"height": h, "width": w, "problem": base.grid(cells, h, w)}

    def call(self, p):
        from cspuz.puzzle import yajilin

        is_sat, frame, black = yajilin.solve_yajilin(p["height"], p["width"], p["problem"])
        return is_sat, base.sols_of(frame) + base.sols_of(black)

    def readings(self, p):
        h, w, prob = p["height"], p["width"], p["problem"]
        cells = [(y, x) for y in range(h) for x in range(w)]
        clues = [(y, x) for (y, x) in cells if prob[y][x] != ".."]
        clueset = set(clues)
        out = []
        for loop, passed in _cands(h, w):
            if passed & clueset:
                continue
            black = set(c for c in cells if c not in clueset and c not in passed)
            if any((y + 1, x) in black or (y, x + 1) in black for (y, x) in black):
                continue
            ok = True
            for y, x in clues:
                c = prob[y][x]
                if c == "??":
                    continue
                n = int(c[1:])
                if c[0] == "^":
                    line = [(yy, x) for yy in range(0, y)]
                elif c[0] == "v":
                    line = [(yy, x) for yy in range(y + 1, h)]
                elif c[0] == "<":
                    line = [(y, xx) for xx in range(0, x)]
                else:
                    line = [(y, xx) for xx in range(x + 1, w)]
                if sum(1 for q in line if q in black) != n:
                    ok = False
                    break
            if ok:
                out.append(tuple(loop) + tuple(q in black for q in cells))
        return [out]

    def example(self):
        e = ".."
        prob = [[e] * 10 for _ in range(10)]
        for (y, x), c in {(2, 2): "v0", (2, 5): ">2", (5, 8): "^1", (7, 2): "^0", (7, 4): "^3", (7, 7): ">1", (9, 7): ">0"}.items():
            prob[y][x] = c
        return {"height": 10, "width": 10, "problem": prob}, "cspuz/puzzle/yajilin.py _main() (twitter.com/semiexp/status/1206956338556764161)"


RULE = Yajilin()
