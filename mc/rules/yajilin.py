"""Yajilin: a single loop through cell centres (or no line at all) and some black cells.

Rules (Nikoli; DESIGN.md appendix A): clue cells are neither black nor on the loop; every other cell is black xor on the
loop; black cells are never orthogonally adjacent; an arrow clue "dn" gives the number n of black cells strictly in direction
d from the clue ("^" up, "v" down, "<" left, ">" right) up to the board edge; "??" is a clue cell without information.

Key order of call()/readings(): the BoolGridFrame(h-1, w-1) edges (horizontal row-major, then vertical row-major), then
black_cell[y][x] row-major.  All values are bools.

Shape ("dense", h, w): boards 4x4 / 3x5 / 5x3 (thorough: 4x5 / 5x4 / 5x5) with two to four clue cells; the clue cells are
first left without information ("??"), the oracle lists the answers, and a few of them (evenly spaced in that list) are
turned into complete clue sets - every clue cell gets an arrow and the number of black cells the answer has in that
direction -, then thinned out (every second clue back to "??", or removed altogether) or falsified by one.
"""

from . import base

ARROWS = "^v<>"
_CACHE = {}


def _cands(h, w):
    """Clue-independent part: per loop the set of cells it visits."""
    if (h, w) not in _CACHE:
        out = []
        for loop in base.loops(h, w):
            info = base.loop_degree_info(h, w, loop)
            out.append((loop, frozenset(c for c, d in info.items() if d)))
        _CACHE[(h, w)] = out
    return _CACHE[(h, w)]


def _picks(n, count):
    if n <= count:
        return list(range(n))
    return sorted(set(round(i * (n - 1) / (count - 1)) for i in range(count)))


def _line(h, w, y, x, d):
    if d == "^":
        return [(yy, x) for yy in range(0, y)]
    if d == "v":
        return [(yy, x) for yy in range(y + 1, h)]
    if d == "<":
        return [(y, xx) for xx in range(0, x)]
    return [(y, xx) for xx in range(x + 1, w)]


def dense_instances(rule, h, w, rich):
    import itertools

    cells = [(y, x) for y in range(h) for x in range(w)]
    nedges = h * (w - 1) + (h - 1) * w

    def inst(pr):
        return {"height": h, "width": w, "problem": [list(r) for r in pr]}

    def blank(place, mark="??"):
        pr = [[".."] * w for _ in range(h)]
        for y, x in place:
            pr[y][x] = mark
        return pr

    yield inst(blank(()))
    # clue-cell placements (two to four cells) that leave at least two answers; per size a few of them, evenly spaced in
    # lexicographic order, the last one (last row) included
    far = (h - 1, w - 1)
    chosen = []
    for k in (2, 3, 4):
        if k == 4 and h * w > (20 if rich else 16):
            continue
        solvable = []
        for place in itertools.combinations(cells, k):
            if k >= 3 and (not rich or h * w > 20 or k == 4) and far not in place:
                continue  # the larger placements only with the far corner, to keep the list short
            sols = rule.readings(inst(blank(place)))[0]
            if len(sols) >= 2:
                solvable.append((place, sols))
        idx = _picks(len(solvable), 4 if rich else 3)
        if not rich:
            idx = idx[1:]
        chosen += [solvable[i] for i in idx]
    for place, sols in chosen:
        yield inst(blank(place))
        for si in (_picks(len(sols), 3) if rich else [len(sols) // 2]):
            sol = sols[si]
            black = set(c for i, c in enumerate(cells) if sol[nedges + i])

            def count(c, d):
                return sum(1 for q in _line(h, w, c[0], c[1], d) if q in black)

            longest = [max(ARROWS, key=lambda d: (len(_line(h, w, c[0], c[1], d)), -ARROWS.index(d))) for c in place]
            modes = [longest] + ([[d] * len(place) for d in ARROWS] if rich else [[ARROWS[(ARROWS.index(d) + 1) % 4] for d in longest]])
            for dirs in modes:
                full = [(c, d, count(c, d)) for c, d in zip(place, dirs)]

                def build(skip=None, mark="??", change=None):
                    pr = blank(())
                    for j, (c, d, n) in enumerate(full):
                        if skip is not None and j % 2 == skip:
                            pr[c[0]][c[1]] = mark
                        else:
                            if change and change[0] == j:
                                n = n + change[1] if n + change[1] >= 0 else n + 1
                            pr[c[0]][c[1]] = d + str(n)
                    return pr

                yield inst(build())
                if dirs is longest or rich:
                    yield inst(build(skip=0))
                    yield inst(build(skip=1, mark=".."))
                    yield inst(build(change=(0, 1)))
                    yield inst(build(change=(len(full) - 1, -1)))
                    if rich:
                        yield inst(build(skip=1))
                        yield inst(build(skip=0, mark=".."))
                        yield inst(build(change=(0, -1)))
                        yield inst(build(change=(len(full) - 1, 1)))


class Yajilin(base.Rule):
    name = "yajilin"

    def shapes(self, tier):
        s = [(1, 1), (1, 2), (2, 1), (1, 3), (3, 1), (2, 2), (2, 3), (3, 2), (3, 3)]
        if tier != "quick":
            s += [(1, 4), (4, 1), (2, 4), (4, 2), (3, 4), (4, 3)]
        # long thin boards for clue values of two digits (one clue, or one clue per end)
        s += [("long", 1, 12), ("long", 12, 1)]
        s += [("long", 3, 10), ("long", 10, 3)] if tier == "quick" else [("long", 3, 12), ("long", 12, 3)]
        if tier != "quick":
            s += [("long", 2, 13), ("long", 13, 2), ("long", 1, 23), ("long", 23, 1)]
        # dense clue sets derived from answers
        s += [("dense", 4, 4), ("dense", 3, 5), ("dense", 5, 3)]
        if tier != "quick":
            s += [("dense", 4, 5), ("dense", 5, 4), ("dense", 5, 5)]
        return s

    def alphabet(self, shape):
        return ["??"] + [d + str(n) for d in ARROWS for n in (0, 1, 2)]

    def instances(self, shape, cap):
        if shape[0] == "dense":
            seen = set()
            for p in dense_instances(self, shape[1], shape[2], cap > 1000):
                key = repr(p)
                if key not in seen:
                    seen.add(key)
                    yield p
            return
        if shape[0] == "long":
            _, h, w = shape
            horiz = w >= h
            n = max(h, w)
            for v in (n - 3, n - 2, 9, 10, 11, 5):
                if v < 0:
                    continue
                for line in range(min(h, w)):
                    for near, far in (((">" if horiz else "v"), ("<" if horiz else "^")),):
                        p1 = [[".."] * w for _ in range(h)]
                        p2 = [[".."] * w for _ in range(h)]
                        p3 = [[".."] * w for _ in range(h)]
                        if horiz:
                            p1[line][0] = near + str(v)
                            p2[line][w - 1] = far + str(v)
                            p3[line][0] = near + str(v)
                            p3[line][w - 1] = far + str(max(0, v - 1))
                        else:
                            p1[0][line] = near + str(v)
                            p2[h - 1][line] = far + str(v)
                            p3[0][line] = near + str(v)
                            p3[h - 1][line] = far + str(max(0, v - 1))
                        for pr in (p1, p2, p3):
                            yield {"height": h, "width": w, "problem": pr}
            return
        h, w = shape
        lays, k = base.layouts(h * w, "..", self.alphabet(shape), cap)
        for cells in lays:
            yield {"height": h, "width": w, "problem": base.grid(cells, h, w)}

    def call(self, p):
        from cspuz.puzzle import yajilin

        is_sat, frame, black = yajilin.solve_yajilin(p["height"], p["width"], p["problem"])
        return is_sat, base.sols_of(frame) + base.sols_of(black)

    def readings(self, p):
        h, w, prob = p["height"], p["width"], p["problem"]
        cells = [(y, x) for y in range(h) for x in range(w)]
        clues = [(y, x) for (y, x) in cells if prob[y][x] != ".."]
        clueset = set(clues)
        out = []
        for loop, passed in _cands(h, w):
            if passed & clueset:
                continue
            black = set(c for c in cells if c not in clueset and c not in passed)
            if any((y + 1, x) in black or (y, x + 1) in black for (y, x) in black):
                continue
            ok = True
            for y, x in clues:
                c = prob[y][x]
                if c == "??":
                    continue
                n = int(c[1:])
                if c[0] == "^":
                    line = [(yy, x) for yy in range(0, y)]
                elif c[0] == "v":
                    line = [(yy, x) for yy in range(y + 1, h)]
                elif c[0] == "<":
                    line = [(y, xx) for xx in range(0, x)]
                else:
                    line = [(y, xx) for xx in range(x + 1, w)]
                if sum(1 for q in line if q in black) != n:
                    ok = False
                    break
            if ok:
                out.append(tuple(loop) + tuple(q in black for q in cells))
        return [out]

    def example(self):
        e = ".."
        prob = [[e] * 10 for _ in range(10)]
        for (y, x), c in {(2, 2): "v0", (2, 5): ">2", (5, 8): "^1", (7, 2): "^0", (7, 4): "^3", (7, 7): ">1", (9, 7): ">0"}.items():
            prob[y][x] = c
        return {"height": 10, "width": 10, "problem": prob}, "cspuz/puzzle/yajilin.py _main() (twitter.com/semiexp/status/1206956338556764161)"


RULE = Yajilin()
