"""Shakashaka (Nikoli): put a black right-angled triangle (half a cell, one of four orientations) into some of the white
cells so that every white area left over (whole white cells and white half cells, joined along shared sides) is a
rectangle - upright or rotated by 45 degrees; a number on a black cell = how many of the orthogonally adjacent cells
hold a triangle.

Instance: {"height", "width", "problem"[y][x]}: None white cell, -1 black cell without number, 0..4 numbered black cell.
Answer keys (fixed order): answer[y][x] row-major: 0 = no triangle (also for every black cell), 1..4 = triangle whose
right angle (the black half) sits in the top-left / bottom-left / bottom-right / top-right corner of the cell (the
module's picture:  1 = |/ under a top bar, 2 = |\\ over a bottom bar, 3 = /| over a bottom bar, 4 = \\| under a top bar).

Oracle geometry (coordinates doubled to stay in integers): both diagonals cut a cell into four small triangles N, E, S, W
(the one touching the top / right / bottom / left side).  A black triangle covers two of them.  White small triangles
are joined when they share a side (N-E, E-S, S-W, W-N inside a cell across a half diagonal that is not a triangle's
hypotenuse - two white small triangles of one cell always share one -, S with the N of the cell below, E with the W of the
cell to the right).  A white area is a rectangle iff its area equals the area of its bounding box in the (x, y) frame
(upright) or in the (x + y, x - y) frame (45 degrees; that frame doubles areas).

The search fills the cells row by row and cuts branches with two NECESSARY conditions only (the final verdict on a
complete grid is always the global flood-fill test): (a) an area that can no longer grow must already be a rectangle;
(b) an area containing a white half cell has a diagonal side (the hypotenuse), so it is a 45-degree rectangle and has no
axis-parallel side: across each of the two legs of the white half there must be a white small triangle (never the edge of
the board, a black cell or the black half of a neighbour); (c) around a lattice point the white small triangles form
wedges of 45 degrees each; a run of neighbouring white wedges is the angle some white area has at that point, and a
rectangle only has angles of 90 degrees (corner), 180 (side) and 360 (inside).  selftest() compares the pruned search
with the unpruned one.

Large family (shape ("large", h, w)): boards 5x5 .. 7x7, 4x6, 3x8, 2x10, 2x12, 1x12 with black cells on lattice patterns
and dense number sets derived from fillings.  clued_fillings() is the same row-by-row search with the two local
conditions (b), (c) only - condition (a) costs a flood fill per cell and is what keeps fillings() from scaling; the verdict
on a complete grid is still the global flood-fill test - plus the numbers: a number can never be exceeded, and must be
reachable with the neighbours still to be filled.  selftest() compares it with fillings() + number filter.
"""

import itertools

from . import base

N, E, S, W = 0, 1, 2, 3
# white small triangles per answer value
WHITE = {0: (N, E, S, W), 1: (S, E), 2: (N, E), 3: (N, W), 4: (S, W)}
_FILL = {}


def tri_vertices(y, x, t):
    tl, tr, bl, br, c = (2 * x, 2 * y), (2 * x + 2, 2 * y), (2 * x, 2 * y + 2), (2 * x + 2, 2 * y + 2), (2 * x + 1, 2 * y + 1)
    return {N: (tl, tr, c), E: (tr, br, c), S: (bl, br, c), W: (tl, bl, c)}[t]


def is_rectangle(region):
    """region: set of (y, x, t) small triangles (each of area 1 in doubled coordinates)."""
    pts = [p for (y, x, t) in region for p in tri_vertices(y, x, t)]
    xs = [p[0] for p in pts]
    ys = [p[1] for p in pts]
    if (max(xs) - min(xs)) * (max(ys) - min(ys)) == len(region):
        return True
    us = [p[0] + p[1] for p in pts]
    vs = [p[0] - p[1] for p in pts]
    return (max(us) - min(us)) * (max(vs) - min(vs)) == 2 * len(region)


def regions_ok(h, w, wall, vals, upto):
    """vals: flat answer values, meaningful for cells with index <= upto (black cells are never white).  Every white area
    among those cells that cannot reach a cell with index > upto must be a rectangle."""
    white = set()
    for i in range(min(upto + 1, h * w)):
        if not wall[i]:
            for t in WHITE[vals[i]]:
                white.add((i // w, i % w, t))
    seen = set()
    for start in white:
        if start in seen:
            continue
        seen.add(start)
        region = {start}
        stack = [start]
        is_open = False
        while stack:
            y, x, t = stack.pop()
            nbs = [(y, x, (t + 1) % 4), (y, x, (t + 3) % 4)]
            if t == N:
                nbs.append((y - 1, x, S))
            elif t == S:
                nbs.append((y + 1, x, N))
            elif t == E:
                nbs.append((y, x + 1, W))
            else:
                nbs.append((y, x - 1, E))
            for nb in nbs:
                yy, xx, tt = nb
                if not (0 <= yy < h and 0 <= xx < w):
                    continue
                j = yy * w + xx
                if j > upto:
                    if not wall[j]:
                        is_open = True
                    continue
                if nb in white and nb not in seen:
                    seen.add(nb)
                    region.add(nb)
                    stack.append(nb)
        if not is_open and not is_rectangle(region):
            return False
    return True


def legs_ok(h, w, wall, vals, i):
    """Condition (b) for cell i against the board edge, black cells and the already filled cells above / to the left."""
    y, x = i // w, i % w
    v = vals[i]
    wh = WHITE[v]
    up = i - w if y > 0 else None
    lf = i - 1 if x > 0 else None
    if v != 0:
        if N in wh and (up is None or wall[up] or S not in WHITE[vals[up]]):
            return False
        if W in wh and (lf is None or wall[lf] or E not in WHITE[vals[lf]]):
            return False
        if S in wh and (y + 1 >= h or wall[i + w]):
            return False
        if E in wh and (x + 1 >= w or wall[i + 1]):
            return False
    # legs of the half cells above / to the left that point at this cell
    if up is not None and not wall[up] and vals[up] != 0 and S in WHITE[vals[up]] and N not in wh:
        return False
    if lf is not None and not wall[lf] and vals[lf] != 0 and E in WHITE[vals[lf]] and W not in wh:
        return False
    return True


def vertex_ok(h, w, wall, vals, vy, vx):
    """Condition (c) at the lattice point (vy, vx), all cells around it being filled: the eight 45-degree wedges around the
    point, clockwise from the upward ray; every maximal run of white wedges is 90, 180 or 360 degrees wide."""
    ring = []
    for (cy, cx, t1, t2) in ((vy - 1, vx, W, S), (vy, vx, N, W), (vy, vx - 1, E, N), (vy - 1, vx - 1, S, E)):
        if 0 <= cy < h and 0 <= cx < w and not wall[cy * w + cx]:
            wh = WHITE[vals[cy * w + cx]]
            ring.append(t1 in wh)
            ring.append(t2 in wh)
        else:
            ring += [False, False]
    if all(ring):
        return True
    k = ring.index(False)
    ring = ring[k:] + ring[:k]  # starts with a non-white wedge
    run = 0
    for b in ring + [False]:
        if b:
            run += 1
        else:
            if run not in (0, 2, 4):
                return False
            run = 0
    return True


def vertices_ok(h, w, wall, vals, i):
    """Condition (c) at every lattice point whose surrounding cells are all filled once cell i is."""
    y, x = i // w, i % w
    pts = [(y, x)]
    if x == w - 1:
        pts.append((y, x + 1))
    if y == h - 1:
        pts.append((y + 1, x))
        if x == w - 1:
            pts.append((y + 1, x + 1))
    return all(vertex_ok(h, w, wall, vals, vy, vx) for vy, vx in pts)


def fillings(h, w, wall, prune=True):
    """All answer grids (flat tuples) for the black-cell mask `wall` whose white areas are all rectangles."""
    key = (h, w, tuple(wall), prune)
    if key in _FILL:
        return _FILL[key]
    n = h * w
    out = []
    vals = [0] * n

    def rec(i):
        if i == n:
            if regions_ok(h, w, wall, vals, n - 1):
                out.append(tuple(vals))
            return
        if wall[i]:
            vals[i] = 0
            if not prune or (vertices_ok(h, w, wall, vals, i) and regions_ok(h, w, wall, vals, i)):
                rec(i + 1)
            return
        for v in range(5):
            vals[i] = v
            if prune and not (legs_ok(h, w, wall, vals, i) and vertices_ok(h, w, wall, vals, i) and regions_ok(h, w, wall, vals, i)):
                continue
            rec(i + 1)
        vals[i] = 0

    rec(0)
    _FILL[key] = out
    return out


_CFILL = {}


def clued_fillings(h, w, prob):
    """All answer grids (flat tuples) whose white areas are all rectangles and that obey the numbers of `prob`."""
    key = (h, w, tuple(tuple(r) for r in prob))
    if key in _CFILL:
        return _CFILL[key]
    n = h * w
    wall = tuple(prob[y][x] is not None for y in range(h) for x in range(w))
    number = [prob[y][x] if prob[y][x] is not None and prob[y][x] >= 0 else None for y in range(h) for x in range(w)]
    nbs = []
    for i in range(n):
        y, x = i // w, i % w
        nbs.append([j for j, ok in ((i - w, y > 0), (i - 1, x > 0), (i + 1, x + 1 < w), (i + w, y + 1 < h)) if ok])
    # numbered black cells to look at after cell i has been filled: the cell itself and its neighbours
    watch = [[j for j in [i] + nbs[i] if number[j] is not None] for i in range(n)]
    out = []
    vals = [0] * n

    def numbers_ok(i):
        for j in watch[i]:
            cnt = 0
            todo = 0
            for k in nbs[j]:
                if k > i:
                    if not wall[k]:
                        todo += 1
                elif vals[k] != 0:
                    cnt += 1
            if cnt > number[j] or cnt + todo < number[j]:
                return False
        return True

    def rec(i):
        if i == n:
            if regions_ok(h, w, wall, vals, n - 1):
                out.append(tuple(vals))
            return
        if wall[i]:
            vals[i] = 0
            if vertices_ok(h, w, wall, vals, i) and numbers_ok(i):
                rec(i + 1)
            return
        for v in range(5):
            vals[i] = v
            if legs_ok(h, w, wall, vals, i) and vertices_ok(h, w, wall, vals, i) and numbers_ok(i):
                rec(i + 1)
        vals[i] = 0

    rec(0)
    _CFILL[key] = out
    return out


def lattice_walls(h, w, a, b, m, k):
    return tuple((a * x + b * y) % m == k for y in range(h) for x in range(w))


_LATTICES = [(2, 3, 9, k) for k in (6, 4, 0, 8, 2)] + [(1, 3, 8, k) for k in (2, 6, 0)] + [(1, 2, 6, k) for k in (2, 4, 0)] + [(1, 3, 7, k) for k in (0, 2, 6)] + [(1, 2, 5, k) for k in (0, 2, 4)]
LARGE_QUICK = [(5, 5), (6, 6), (3, 8), (8, 3), (2, 10), (10, 2), (1, 12), (12, 1)]
LARGE_THOROUGH = [(4, 6), (6, 4), (4, 7), (7, 4), (2, 12), (12, 2), (3, 10), (10, 3), (5, 6), (6, 5), (7, 7)]


def _picks(n, count):
    if n <= count:
        return list(range(n))
    return sorted(set(round(i * (n - 1) / (count - 1)) for i in range(count)))


def _count_grid(h, w, wall, vals, cell_value):
    """Problem grid: white cells None, black cell j -> cell_value(j, number of triangles around j)."""
    g = []
    for y in range(h):
        row = []
        for x in range(w):
            i = y * w + x
            if not wall[i]:
                row.append(None)
                continue
            cnt = 0
            for dy, dx in ((0, 1), (1, 0), (0, -1), (-1, 0)):
                yy, xx = y + dy, x + dx
                if 0 <= yy < h and 0 <= xx < w and vals[yy * w + xx] != 0:
                    cnt += 1
            row.append(cell_value(i, cnt))
        g.append(row)
    return g


def _dense_variants(h, w, wall, vals, rich):
    cells = [i for i in range(h * w) if wall[i]]
    m = len(cells)
    pos = {i: j for j, i in enumerate(cells)}
    out = [_count_grid(h, w, wall, vals, lambda i, c: c)]
    for k, off in ([(2, 0), (2, 1), (3, 0), (3, 1)] if rich else [(2, 1)]):
        out.append(_count_grid(h, w, wall, vals, lambda i, c: -1 if pos[i] % k == off else c))
    spots = [(0, 1), (m - 1, -1), (m // 2, 1)]
    if rich:
        spots += [(0, -1), (m - 1, 1), (m // 2, -1), (1 % m, 1), (m - 2, -1)]
    for p, d in spots:
        p %= m
        out.append(_count_grid(h, w, wall, vals, lambda i, c: (c + (d if c + d >= 0 else 1)) if pos[i] == p else c))
    # half of the numbers blanked and one of the others changed
    for p, d in ([(1, 1), (m - 1 - (m % 2), -1)] if rich else [(1, 1)]):
        p %= m
        out.append(_count_grid(h, w, wall, vals, lambda i, c: -1 if pos[i] % 2 == 0 and pos[i] != p else ((c + (d if c + d >= 0 else 1)) if pos[i] == p else c)))
    return out


def large_instances(h, w, rich):
    seen = set()
    for g in _large_grids(h, w, rich):
        key = repr(g)
        if key not in seen:
            seen.add(key)
            yield {"height": h, "width": w, "problem": g}


def _large_grids(h, w, rich):
    n = h * w
    white = [[None] * w for _ in range(h)]
    if n <= 36:
        yield white
    # one black cell in the far corner / on the last row / in the last column, every number it can carry and one more
    spots = [(h - 1, w - 1, v) for v in ((-1, 0, 1, 2, 3) if rich else (0, 2))]
    spots += [(h - 1, w // 2, v) for v in ((0, 1, 2, 3, 4) if rich else (3 if h > 1 else 2,))]
    if rich:
        spots += [(h // 2, w - 1, v) for v in (0, 1, 2, 3)] + [(h // 2, w // 2, v) for v in (0, 4)] + [(0, 0, 2), (0, w - 1, 2), (h - 1, 0, 2)]
    if n <= 36:
        for y, x, v in spots:
            g = [[None] * w for _ in range(h)]
            g[y][x] = v
            yield g
    # black cells on a lattice; numbers from fillings
    found = 0
    for lat in _LATTICES:
        wall = lattice_walls(h, w, *lat)
        if not any(wall) or all(wall):
            continue
        blank = [[-1 if wall[y * w + x] else None for x in range(w)] for y in range(h)]
        sols = clued_fillings(h, w, blank)
        if len(sols) < (1 if min(h, w) <= 2 else 2):
            continue
        found += 1
        yield blank
        idx = _picks(len(sols), 4 if rich else 3)
        if not rich:
            idx = [len(sols) // 2]
        for i in idx:
            for g in _dense_variants(h, w, wall, sols[i], rich):
                yield g
        if found >= (3 if rich else 1):
            break


def selftest():
    """pruned search == unpruned search, for every black-cell mask of the boards up to six cells;
    clued_fillings() == fillings() + number filter on every single / double clue layout up to 3x4 and a sample on 4x4"""
    rule = Shakashaka()
    cases = 0
    for h, w in [(1, 2), (2, 1), (1, 3), (3, 1), (2, 2), (2, 3), (3, 2), (3, 3), (1, 4), (4, 1), (2, 4), (4, 2), (3, 4), (4, 3), (4, 4)]:
        for k, p in enumerate(rule.instances((h, w), 12000)):
            if h * w >= 12 and k % (3 if h * w == 12 else 11):
                continue
            a = sorted(rule._readings_small(p))
            b = sorted(clued_fillings(h, w, p["problem"]))
            assert a == b, (p, len(a), len(b))
            cases += 1
    for h, w in [(4, 5), (5, 5), (2, 10)]:
        assert sorted(clued_fillings(h, w, [[None] * w for _ in range(h)])) == sorted(fillings(h, w, (False,) * (h * w)))
    wall = lattice_walls(5, 5, 1, 3, 8, 0)
    assert sorted(clued_fillings(5, 5, [[-1 if wall[y * 5 + x] else None for x in range(5)] for y in range(5)])) == sorted(fillings(5, 5, wall))
    for h, w in [(1, 1), (1, 2), (2, 1), (1, 3), (3, 1), (2, 2), (2, 3), (3, 2)]:
        for wall in itertools.product([False, True], repeat=h * w):
            a = fillings(h, w, wall, True)
            b = fillings(h, w, wall, False)
            assert sorted(a) == sorted(b), (h, w, wall)
    # the 2x2 diamond and the lone cell
    assert (1, 4, 2, 3) in fillings(2, 2, (False,) * 4) and (3, 2, 4, 1) not in fillings(2, 2, (False,) * 4)
    assert fillings(1, 1, (False,)) == [(0,)]
    return True


class Shakashaka(base.Rule):
    name = "shakashaka"

    def shapes(self, tier):
        s = [(1, 1), (1, 2), (2, 1), (1, 3), (3, 1), (2, 2), (2, 3), (3, 2), (3, 3)]
        if tier != "quick":
            s += [(1, 4), (4, 1), (2, 4), (4, 2), (3, 4), (4, 3), (4, 4)]
        s += [("large", h, w) for h, w in LARGE_QUICK]
        if tier != "quick":
            s += [("large", h, w) for h, w in LARGE_THOROUGH]
        return s

    def instances(self, shape, cap):
        if shape[0] == "large":
            for p in large_instances(shape[1], shape[2], cap > 1000):
                yield p
            return
        h, w = shape
        lays, k = base.layouts(h * w, None, [-1, 0, 1, 2, 3, 4], cap)
        for cells in lays:
            yield {"height": h, "width": w, "problem": base.grid(cells, h, w)}

    def call(self, p):
        from cspuz.puzzle import shakashaka

        is_sat, answer = shakashaka.solve_shakashaka(p["height"], p["width"], p["problem"])
        return is_sat, base.sols_of(answer)

    def readings(self, p):
        if p["height"] * p["width"] > 16:
            return [clued_fillings(p["height"], p["width"], p["problem"])]
        return [self._readings_small(p)]

    def _readings_small(self, p):
        h, w, prob = p["height"], p["width"], p["problem"]
        wall = tuple(prob[y][x] is not None for y in range(h) for x in range(w))
        out = []
        for vals in fillings(h, w, wall):
            ok = True
            for y in range(h):
                for x in range(w):
                    c = prob[y][x]
                    if c is not None and c >= 0:
                        cnt = 0
                        for dy, dx in ((0, 1), (1, 0), (0, -1), (-1, 0)):
                            yy, xx = y + dy, x + dx
                            if 0 <= yy < h and 0 <= xx < w and vals[yy * w + xx] != 0:
                                cnt += 1
                        if cnt != c:
                            ok = False
                            break
                if not ok:
                    break
            if ok:
                out.append(vals)
        return out

    def example(self):
        prob = [[None] * 10 for _ in range(10)]
        for (y, x), v in {(1, 2): 3, (2, 7): 2, (2, 9): 0, (3, 0): 1, (3, 3): 3, (4, 6): 3, (5, 0): 2, (5, 3): 2, (6, 8): 2, (9, 3): 2, (9, 7): 0}.items():
            prob[y][x] = v
        return {"height": 10, "width": 10, "problem": prob}, "cspuz/puzzle/shakashaka.py _main(): twitter.com/semiexp/status/1223794016593956864 (too large to enumerate)"


RULE = Shakashaka()
