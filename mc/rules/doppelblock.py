"""Doppelblock: blacken exactly two cells in every row and every column of the n x n board and write a number from
1..n-2 in every other cell so that each row and each column holds each of 1..n-2 exactly once; a clue beside a row /
above a column = sum of the numbers strictly between the two black cells of that line.

Problem dict: {"n": n, "clue_row": [...], "clue_column": [...]}; clue >= 0 is a clue, -1 is no clue.
Answer keys: the n x n grid, row-major, 0 = black cell, v >= 1 = number v.
Well-formed: n >= 2 (a line of one cell cannot hold two blacks, so n = 1 is not a board of this puzzle; n = 2 is the
degenerate all-black board whose only possible clue is 0), clues in -1..(n-2)(n-1)/2.

Shape descriptors: n (all clue layouts by the cap rule over grids(n), n <= 5) and ("large", n, level) with level 0 =
quick / 1 = thorough for n = 5, 6, 7 (sums up to 6, 10, 15): the clue-free board (n = 5 only, 66240 answers), single
clues 0 and the maximum on the far lines (n = 5), and clue sets derived from answers G - of the first 3000 answers
found with a scrambled candidate order the one with the largest total of sums and the one with the fewest sums 0, and
the same choice on the board whose first and far row and column carry the maximum sum; for n = 5 in the thorough tier
also evenly spaced ones of the complete list -: all 2n sums of G, the sums minus every k-th clue, rows only / columns
only / far lines only (n = 5), all but the far lines, and one clue changed by +1 / -1 (first, last, middle, ends of
both lists), as is and with some other clues blanked.  Sum 0 (adjacent black cells) is so weak a clue that even the full
set of a typical 6 x 6 board has a dozen answers; that is why G is picked for large sums.
Oracle for the large family: search() - backtracking over the rules (one admissible filling per row and per column,
agreeing in every cell; complete boards re-checked with between()) returning ALL answers; selftest() compares it with
the grids() filter on n <= 5.
"""

import itertools

from . import base

_GRIDS = {}
_BY_SUM = {}


def between(line):
    """Sum of the entries strictly between the two zeros of a line."""
    pos = [i for i, v in enumerate(line) if v == 0]
    assert len(pos) == 2
    return sum(line[pos[0] + 1 : pos[1]])


def grids(n):
    """All boards obeying the placement rule, as (row-major tuple, sums) with sums = row sums then column sums."""
    if n in _GRIDS:
        return _GRIDS[n]
    content = [0, 0] + list(range(1, n - 1))
    lines = sorted(set(itertools.permutations(content)))
    out = []
    rows = []

    # seen[x][v] = how often value v already occurs in column x (pruning only; the full rule is re-checked at the end)
    seen = [[0] * (n - 1) for _ in range(n)]
    room = [2] + [1] * (n - 2)

    def rec():
        if len(rows) == n:
            cols = [[rows[y][x] for y in range(n)] for x in range(n)]
            if any(sorted(c) != content for c in cols):
                return
            sums = [between(r) for r in rows] + [between(c) for c in cols]
            out.append((tuple(v for r in rows for v in r), tuple(sums)))
            return
        todo = lines
        if len(rows) == n - 1:
            # every column lacks exactly one entry, so the last row is forced (speed only)
            last = tuple([v for v in range(n - 1) for _ in range(room[v] - seen[x][v])][0] for x in range(n))
            todo = [last] if sorted(last) == content else []
        for l in todo:
            if any(seen[x][l[x]] >= room[l[x]] for x in range(n)):
                continue
            for x in range(n):
                seen[x][l[x]] += 1
            rows.append(l)
            rec()
            rows.pop()
            for x in range(n):
                seen[x][l[x]] -= 1

    rec()
    _GRIDS[n] = out
    return out


def grids_with(n, i, c):
    """The boards whose i-th sum (rows first, then columns) equals c (an index over grids(n), speed only)."""
    if n not in _BY_SUM:
        idx = {}
        for item in grids(n):
            for j, v in enumerate(item[1]):
                idx.setdefault((j, v), []).append(item)
        _BY_SUM[n] = idx
    return _BY_SUM[n].get((i, c), [])


_LINES = {}


def _lines(n):
    """(all fillings of one line, their between-sums, has[x][v] = bit set of the fillings with entry v at position x)."""
    if n not in _LINES:
        content = [0, 0] + list(range(1, n - 1))
        lines = sorted(set(itertools.permutations(content)))
        sums = [between(l) for l in lines]
        has = [[0] * (n - 1) for _ in range(n)]
        for j, l in enumerate(lines):
            for x in range(n):
                has[x][l[x]] |= 1 << j
        _LINES[n] = (lines, sums, has)
    return _LINES[n]


def search(n, clue_row, clue_column, descending=False):
    """Generator of ALL boards obeying the rules and the clues (row-major tuples).

    Every row and every column is one of the line fillings (two black cells, every number once) whose between-sum
    equals its clue, and a board is a choice of one filling per row and per column that agree in every cell.  The
    search places rows, always an open row with the fewest fillings left; after a placement every column keeps the
    fillings that show the placed entry at that row, and every open row loses the fillings with an entry that no
    remaining filling of the crossing column shows there.  A row or column without fillings ends the branch.  Complete
    boards are checked once more against the rules (content of every line, sums).  `descending` only changes the
    order in which fillings are tried: True = reversed, an integer K = sorted by (index * K) mod (number of
    fillings), which makes the first boards found look like typical ones instead of the lexicographically smallest."""
    lines, sums, has = _lines(n)
    content = [0, 0] + list(range(1, n - 1))
    everything = (1 << len(lines)) - 1

    def fitting(clue):
        if clue < 0:
            return everything
        m = 0
        for j in range(len(lines)):
            if sums[j] == clue:
                m |= 1 << j
        return m

    rm0 = [fitting(clue_row[y]) for y in range(n)]
    cm0 = [fitting(clue_column[x]) for x in range(n)]
    propagate = any(c >= 0 for c in list(clue_row) + list(clue_column))
    rows = [None] * n

    def indices(m):
        out = []
        while m:
            low = m & -m
            out.append(low.bit_length() - 1)
            m ^= low
        if descending is True:
            out.reverse()
        elif descending:
            out.sort(key=lambda j: (j * descending) % len(lines))
        return out

    def final_ok():
        cols = list(zip(*rows))
        for i in range(n):
            if sorted(rows[i]) != content or sorted(cols[i]) != content:
                return False
            if clue_row[i] >= 0 and between(rows[i]) != clue_row[i]:
                return False
            if clue_column[i] >= 0 and between(cols[i]) != clue_column[i]:
                return False
        return True

    def rec(open_rows, rm, cm):
        if not open_rows:
            if final_ok():
                yield tuple(v for r in rows for v in r)
            return
        if propagate:
            y = min(open_rows, key=lambda q: (bin(rm[q]).count("1"), q))
        else:
            y = open_rows[0]
        rest = [q for q in open_rows if q != y]
        for j in indices(rm[y]):
            l = lines[j]
            cm2 = [cm[x] & has[y][l[x]] for x in range(n)]
            if not all(cm2):
                continue
            rm2 = list(rm)
            ok = True
            for q in rest:
                m = rm2[q]
                for x in range(n):
                    cx = cm2[x]
                    hq = has[q]
                    for v in range(n - 1):
                        if not (cx & hq[v]):
                            m &= ~has[x][v]
                if not m:
                    ok = False
                    break
                rm2[q] = m
            if not ok:
                continue
            rows[y] = l
            for g in rec(rest, rm2, cm2):
                yield g
            rows[y] = None

    return rec(list(range(n)), rm0, cm0)


def sums_of(n, g):
    rows = [g[y * n : (y + 1) * n] for y in range(n)]
    return [between(r) for r in rows] + [between(c) for c in zip(*rows)]


_ALL = {}
_SEEDS = {}


def all_boards(n):
    if n not in _ALL:
        _ALL[n] = list(search(n, [-1] * n, [-1] * n))
    return _ALL[n]


def seed_boards(n, level):
    key = (n, level)
    if key in _SEEDS:
        return _SEEDS[key]
    top = (n - 2) * (n - 1) // 2
    none = [-1] * n
    frame = [top] + none[1:-1] + [top]
    out = []
    if n <= 5:
        allb = all_boards(n)
        if level:
            out += [allb[(len(allb) - 1) * j // 7] for j in range(8)]
    # strongly clued boards: among the first 3000 boards found with a scrambled candidate order the one with the
    # largest total of sums and the one with the fewest sums 0 (sum 0 = adjacent black cells is the weakest clue and
    # boards full of them have 1e5 twins); boards with the maximum sum on the frame
    for k in ([7919] if level == 0 else [7919, 104729, 1299709]):
        first = list(itertools.islice(search(n, none, none, descending=k), 3000))
        out.append(max(first, key=lambda g: (sum(sums_of(n, g)), g)))
        out.append(max(first, key=lambda g: (-sums_of(n, g).count(0), sum(sums_of(n, g)), g)))
        if level and n <= 6:
            out.append(first[0])
    for k in ([7919] if level == 0 else [7919, 104729]):
        first = list(itertools.islice(search(n, frame, frame, descending=k), 3000))
        if first:  # n = 3 has no such board
            out.append(max(first, key=lambda g: (-sums_of(n, g).count(0), sum(sums_of(n, g)), g)))
    res = []
    for g in out:
        if g not in res:
            res.append(g)
    _SEEDS[key] = res
    return res


def large_instances(n, level):
    """Clue lists (2n values: rows, then columns) of the large family."""
    top = (n - 2) * (n - 1) // 2
    seen = set()
    out = []

    def emit(c):
        c = list(c)
        if tuple(c) not in seen:
            seen.add(tuple(c))
            out.append(c)

    if n <= 5:
        emit([-1] * (2 * n))
        for i in (n - 1, 2 * n - 1):
            for v in (top, 0, top - 1):
                c = [-1] * (2 * n)
                c[i] = v
                emit(c)
        c = [-1] * (2 * n)
        c[n - 1] = c[2 * n - 1] = top
        emit(c)
    seeds = seed_boards(n, level)
    if n >= 7:
        level = 0  # order 7: more boards in the thorough tier, but only the dense selection of clue sets
    for gi, g in enumerate(seeds):
        full = sums_of(n, g)
        emit(full)
        if n >= 7 and len(seeds) <= 3 and gi > 0:  # quick tier, order 7: only the full sets of the further boards
            continue
        if n <= 5:
            ks = [2, 3] if level == 0 else [2, 3, 4, 5, 6]
        else:  # order 6 and 7 keep to dense sets: half of the clues leave up to 1e6 answers
            ks = [3, 5] if level == 0 else [3, 4, 5, 6, 7]
        for k in ks:
            for o in ([0] if level == 0 else [0, 1]):
                emit([-1 if i % k == o else v for i, v in enumerate(full)])
        if n <= 5 and (level or gi % 2 == 0):
            emit([v if i < n else -1 for i, v in enumerate(full)])  # rows only
            emit([v if i >= n else -1 for i, v in enumerate(full)])  # columns only
            emit([v if i % n == n - 1 else -1 for i, v in enumerate(full)])  # far lines only
        if level or gi % 2 == 0:
            emit([-1 if i % n == n - 1 else v for i, v in enumerate(full)])  # all but the far lines
        spots = [0, 2 * n - 1, n - 1] if level == 0 else [0, 2 * n - 1, n - 1, n, n // 2, n + n // 2]
        if level == 0 and n >= 6:
            spots = [2 * n - 1, 0] if gi == 0 else [n - 1]
        for pos in spots:
            for d in (1, -1):
                w = full[pos] + d
                if 0 <= w <= top:
                    c = list(full)
                    c[pos] = w
                    if level or d == 1:
                        emit(c)
                    if n <= 5:
                        emit([-1 if (j % 2 != pos % 2) else v for j, v in enumerate(c)])
                    if level or n >= 6:
                        emit([-1 if (j % 3 == (pos + 1) % 3) else v for j, v in enumerate(c)])
    return out


class Doppelblock(base.Rule):
    name = "doppelblock"

    def shapes(self, tier):
        if tier == "quick":
            return [2, 3, 4, ("large", 5, 0), ("large", 6, 0), ("large", 7, 0)]
        return [2, 3, 4, 5, ("large", 5, 1), ("large", 6, 1), ("large", 7, 1)]

    def instances(self, shape, cap):
        if isinstance(shape, (tuple, list)):
            _, n, level = shape
            for c in large_instances(n, level):
                yield {"n": n, "clue_row": c[0:n], "clue_column": c[n : 2 * n], "family": "large"}
            return
        n = shape
        top = (n - 2) * (n - 1) // 2
        lays, k = base.layouts(2 * n, -1, list(range(0, top + 1)), cap)
        for c in lays:
            yield {"n": n, "clue_row": c[0:n], "clue_column": c[n : 2 * n]}

    def call(self, p):
        from cspuz.puzzle import doppelblock

        is_sat, answer = doppelblock.solve_doppelblock(p["n"], p["clue_row"], p["clue_column"])
        return is_sat, base.sols_of(answer)

    def readings(self, p):
        clues = list(p["clue_row"]) + list(p["clue_column"])
        if p.get("family") == "large":
            if p["n"] <= 5 and not any(c >= 0 for c in clues):
                return [all_boards(p["n"])]
            return [list(search(p["n"], p["clue_row"], p["clue_column"]))]
        want = [(i, c) for i, c in enumerate(clues) if c >= 0]
        pool = grids_with(p["n"], want[0][0], want[0][1]) if want else grids(p["n"])
        return [[g for g, sums in pool if all(sums[i] == c for i, c in want)]]

    def example(self):
        p = {"n": 5, "clue_row": [5, -1, 5, -1, -1], "clue_column": [3, -1, -1, 1, -1]}
        return p, "cspuz/puzzle/doppelblock.py _main() (puzsq.jp pid=10025)"


def selftest():
    assert between((0, 1, 2, 0, 3)) == 3 and between((1, 0, 0, 2, 3)) == 0 and between((0, 3, 2, 1, 0)) == 6
    assert [len(grids(n)) for n in (2, 3, 4)] == [1, 6, 216]
    r = Doppelblock()
    for n in (2, 3, 4, 5):
        ref_all = grids(n)
        assert sorted(search(n, [-1] * n, [-1] * n)) == sorted(g for g, s in ref_all), n
        for g, s in ref_all[:: max(1, len(ref_all) // 7)]:
            assert sums_of(n, g) == list(s)
        probs = [(p["clue_row"], p["clue_column"]) for p in r.instances(n, 250 if n == 5 else 2500)]
        if n == 5:
            probs = probs[::4]
        probs += [(c[0:n], c[n:]) for c in large_instances(n, 1 if n < 5 else 0)]
        for cr, cc in probs:
            want = [(i, c) for i, c in enumerate(list(cr) + list(cc)) if c >= 0]
            pool = grids_with(n, want[0][0], want[0][1]) if want else ref_all
            ref = sorted(g for g, sums in pool if all(sums[i] == c for i, c in want))
            assert sorted(search(n, cr, cc)) == ref, (n, cr, cc)
            assert sorted(search(n, cr, cc, descending=True)) == ref, (n, cr, cc)
    ex, _ = r.example()
    assert len(list(search(5, ex["clue_row"], ex["clue_column"]))) == 1


RULE = Doppelblock()
