"""Doppelblock: blacken exactly two cells in every row and every column of the n x n board and write a number from
1..n-2 in every other cell so that each row and each column holds each of 1..n-2 exactly once; a clue beside a row /
above a column = sum of the numbers strictly between the two black cells of that line.

Problem dict: {"n": n, "clue_row": [...], "clue_column": [...]}; clue >= 0 is a clue, -1 is no clue.
Answer keys: the n x n grid, row-major, 0 = black cell, v >= 1 = number v.
Well-formed: n >= 2 (a line of one cell cannot hold two blacks, so n = 1 is not a board of this puzzle; n = 2 is the
degenerate all-black board whose only possible clue is 0), clues in -1..(n-2)(n-1)/2.
"""

import itertools

from . import base

_GRIDS = {}
_BY_SUM = {}


def between(line):
    """Sum of the entries strictly between the two zeros of a line."""
    pos = [i for i, v in enumerate(line) if v == 0]
    assert len(pos) == 2
    return sum(line[pos[0] + 1 : pos[1]])


def grids(n):
    """All boards obeying the placement rule, as (row-major tuple, sums) with sums = row sums then column sums."""
    if n in _GRIDS:
        return _GRIDS[n]
    content = [0, 0] + list(range(1, n - 1))
    lines = sorted(set(itertools.permutations(content)))
    out = []
    rows = []

    # seen[x][v] = how often value v already occurs in column x (pruning only; the full rule is re-checked at the end)
    seen = [[0] * (n - 1) for _ in range(n)]
    room = [2] + [1] * (n - 2)

    def rec():
        if len(rows) == n:
            cols = [[rows[y][x] for y in range(n)] for x in range(n)]
            if any(sorted(c) != content for c in cols):
                return
            sums = [between(r) for r in rows] + [between(c) for c in cols]
            out.append((tuple(v for r in rows for v in r), tuple(sums)))
            return
        todo = lines
        if len(rows) == n - 1:
            # every column lacks exactly one entry, so the last row is forced (speed only)
            last = tuple([v for v in range(n - 1) for _ in range(room[v] - seen[x][v])][0] for x in range(n))
            todo = [last] if sorted(last) == content else []
        for l in todo:
            if any(seen[x][l[x]] >= room[l[x]] for x in range(n)):
                continue
            for x in range(n):
                seen[x][l[x]] += 1
            rows.append(l)
            rec()
            rows.pop()
            for x in range(n):
                seen[x][l[x]] -= 1

    rec()
    _GRIDS[n] = out
    return out


def grids_with(n, i, c):
    """The boards whose i-th sum (rows first, then columns) equals c (an index over grids(n), speed only)."""
    if n not in _BY_SUM:
        idx = {}
        for item in grids(n):
            for j, v in enumerate(item[1]):
                idx.setdefault((j, v), []).append(item)
        _BY_SUM[n] = idx
    return _BY_SUM[n].get((i, c), [])


class Doppelblock(base.Rule):
    name = "doppelblock"

    def shapes(self, tier):
        return [2, 3, 4] if tier == "quick" else [2, 3, 4, 5]

    def instances(self, shape, cap):
        n = shape
        top = (n - 2) * (n - 1) // 2
        lays, k = base.layouts(2 * n, -1, list(range(0, top + 1)), cap)
        for c in lays:
            yield {"n": n, "clue_row": c[0:n], "clue_column": c[n : 2 * n]}

    def call(self, p):
        from cspuz.puzzle import doppelblock

        is_sat, answer = doppelblock.solve_doppelblock(p["n"], p["clue_row"], p["clue_column"])
        return is_sat, base.sols_of(answer)

    def readings(self, p):
        clues = list(p["clue_row"]) + list(p["clue_column"])
        want = [(i, c) for i, c in enumerate(clues) if c >= 0]
        pool = grids_with(p["n"], want[0][0], want[0][1]) if want else grids(p["n"])
        return [[g for g, sums in pool if all(sums[i] == c for i, c in want)]]

    def example(self):
        p = {"n": 5, "clue_row": [5, -1, 5, -1, -1], "clue_column": [3, -1, -1, 1, -1]}
        return p, "cspuz/puzzle/doppelblock.py _main() (puzsq.jp pid=10025)"


RULE = Doppelblock()
