"""Compass (puzz.link "compass"): divide the board into regions, one per compass; every region is orthogonally connected
and contains exactly its own compass; a number on an arm of a compass = how many cells of the compass's region lie
strictly further in that direction than the compass cell (up: rows above the compass row, left: columns left of the compass
column, down: rows below, right: columns to the right - whole half-planes, not only the compass's own row/column).

Instance: {"height", "width", "problem": [[y, x, up, left, down, right], ...]} (arm -1 = blank, >= 0 = number); compass i
of the list owns region i.  Well-formed: compasses on distinct cells inside the board, at least one compass.
Answer keys (fixed order): division[y][x] row-major, value = index (in the problem list) of the compass owning the cell.
"""

import itertools

from . import base

_DIV = {}


def divisions(h, w, roots):
    """All maps cell -> region index such that region i is connected and contains roots[i] (and no other root)."""
    key = (h, w, tuple(roots))
    if key in _DIV:
        return _DIV[key]
    n = len(roots)
    cells = [(y, x) for y in range(h) for x in range(w)]
    owner = {tuple(r): i for i, r in enumerate(roots)}
    free = [c for c in cells if c not in owner]
    out = []
    for vals in itertools.product(range(n), repeat=len(free)):
        m = dict(owner)
        for c, v in zip(free, vals):
            m[c] = v
        ok = True
        for i in range(n):
            if not base.cells_connected([c for c in cells if m[c] == i]):
                ok = False
                break
        if ok:
            out.append(tuple(m[c] for c in cells))
    _DIV[key] = out
    return out


class Compass(base.Rule):
    name = "compass"

    def shapes(self, tier):
        # (h, w, number of compasses)
        small = [(1, 1), (1, 2), (2, 1), (1, 3), (3, 1), (2, 2), (2, 3), (3, 2), (3, 3)]
        out = []
        for h, w in small:
            for n in (1, 2):
                if n <= h * w and not (tier == "quick" and (h, w, n) == (3, 3, 2)):  # 900 solves of ~40 ms: thorough only
                    out.append((h, w, n))
        if tier != "quick":
            for h, w in [(1, 4), (4, 1), (2, 4), (4, 2), (3, 4), (4, 3)]:
                out.append((h, w, 1))
                out.append((h, w, 2))
            for h, w in [(1, 3), (3, 1), (2, 2), (2, 3), (3, 2), (3, 3)]:
                out.append((h, w, 3))
        return out

    def _alphabet(self, shape, cap):
        return [0, 1, 2] if cap <= 1000 else [0, 1, 2, 3]

    def instances(self, shape, cap):
        h, w, n = shape
        cells = [(y, x) for y in range(h) for x in range(w)]
        places = list(itertools.combinations(cells, n))
        orders = []
        for pl in places:
            orders.append(list(pl))
            if cap > 1000 and n == 2 and h * w <= 9:
                orders.append(list(reversed(pl)))  # the order in the list is independent of the order on the board
        if cap > 1000:
            cap = cap // 4  # a solve costs 10-80 ms here; keeps the thorough ladder near 60 000 solves
        per = max(1, cap // len(orders))
        lays, k = base.layouts(4 * n, -1, self._alphabet(shape, cap), per)
        for pos in orders:
            for arms in lays:
                yield {
                    "height": h,
                    "width": w,
                    "problem": [[pos[i][0], pos[i][1]] + list(arms[4 * i : 4 * i + 4]) for i in range(n)],
                }

    def call(self, p):
        from cspuz.puzzle import compass

        is_sat, division = compass.solve_compass(p["height"], p["width"], [tuple(c) for c in p["problem"]])
        return is_sat, base.sols_of(division)

    def readings(self, p):
        h, w = p["height"], p["width"]
        prob = p["problem"]
        roots = [(c[0], c[1]) for c in prob]
        out = []
        for d in divisions(h, w, roots):
            ok = True
            for i, (y, x, up, lf, dw, rg) in enumerate(prob):
                cu = cl = cd = cr = 0
                for yy in range(h):
                    for xx in range(w):
                        if d[yy * w + xx] == i:
                            cu += yy < y
                            cd += yy > y
                            cl += xx < x
                            cr += xx > x
                if (up >= 0 and cu != up) or (lf >= 0 and cl != lf) or (dw >= 0 and cd != dw) or (rg >= 0 and cr != rg):
                    ok = False
                    break
            if ok:
                out.append(d)
        return [out]

    def example(self):
        prob = [[1, 2, -1, 1, -1, -1], [2, 1, 2, -1, 5, 1], [2, 3, 5, -1, 3, -1], [3, 2, 1, -1, -1, 1]]
        return {"height": 5, "width": 5, "problem": prob}, "cspuz/puzzle/compass.py _main(): puzz.link compass/5/5/m..1.i25.1g53..i1..1m"


RULE = Compass()
