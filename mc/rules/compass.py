"""Compass (puzz.link "compass"): divide the board into regions, one per compass; every region is orthogonally connected
and contains exactly its own compass; a number on an arm of a compass = how many cells of the compass's region lie
strictly further in that direction than the compass cell (up: rows above the compass row, left: columns left of the compass
column, down: rows below, right: columns to the right - whole half-planes, not only the compass's own row/column).

Instance: {"height", "width", "problem": [[y, x, up, left, down, right], ...]} (arm -1 = blank, >= 0 = number); compass i
of the list owns region i.  Well-formed: compasses on distinct cells inside the board, at least one compass.
Answer keys (fixed order): division[y][x] row-major, value = index (in the problem list) of the compass owning the cell.

Large family (shape ("large", h, w)): boards 4x4 .. 6x6 and long thin boards with three to six compasses.  There the
product enumeration of divisions() is out of reach; clued_divisions() grows the regions one after the other as connected
cell sets (bit masks) and uses the clues of the compass being grown to cut the growth (a count can only rise while a
region grows, and can never exceed what is still reachable).  selftest() compares it with divisions() + filter.
"""

import itertools

from . import base

_DIV = {}


def divisions(h, w, roots):
    """All maps cell -> region index such that region i is connected and contains roots[i] (and no other root)."""
    key = (h, w, tuple(roots))
    if key in _DIV:
        return _DIV[key]
    n = len(roots)
    cells = [(y, x) for y in range(h) for x in range(w)]
    owner = {tuple(r): i for i, r in enumerate(roots)}
    free = [c for c in cells if c not in owner]
    out = []
    for vals in itertools.product(range(n), repeat=len(free)):
        m = dict(owner)
        for c, v in zip(free, vals):
            m[c] = v
        ok = True
        for i in range(n):
            if not base.cells_connected([c for c in cells if m[c] == i]):
                ok = False
                break
        if ok:
            out.append(tuple(m[c] for c in cells))
    _DIV[key] = out
    return out


# ---- large boards: region-by-region search on bit masks -------------------------------------------
_CDIV = {}


def _bits(m):
    return bin(m).count("1")


def clued_divisions(h, w, prob):
    """All maps cell -> compass index (row-major tuples) such that region i is orthogonally connected, contains compass i
    and no other compass, and has exactly the numbers of cells above / left of / below / right of its compass that the
    arms of compass i ask for (-1: anything).  Region 0 ranges over all connected cell sets around its compass, then
    region 1 over those of the rest, ...; the last region takes what is left."""
    key = (h, w, tuple(tuple(c) for c in prob))
    if key in _CDIV:
        return _CDIV[key]
    n = len(prob)
    ncell = h * w
    full = (1 << ncell) - 1
    notfirst = 0
    notlast = 0
    for y in range(h):
        for x in range(w):
            if x > 0:
                notfirst |= 1 << (y * w + x)
            if x < w - 1:
                notlast |= 1 << (y * w + x)

    def around(m):
        return (m << w) & full | (m >> w) | ((m & notlast) << 1) | ((m & notfirst) >> 1)

    def flood(m, allowed):
        while True:
            nxt = (m | around(m)) & allowed
            if nxt == m:
                return m
            m = nxt

    rootbit = [1 << (c[0] * w + c[1]) for c in prob]
    allroots = 0
    for b in rootbit:
        allroots |= b
    planes = []  # per compass: [(mask of the half plane, wanted count)] for the arms that carry a number
    for (y, x, up, lf, dw, rg) in prob:
        pl = []
        for want, cond in ((up, lambda yy, xx: yy < y), (lf, lambda yy, xx: xx < x), (dw, lambda yy, xx: yy > y), (rg, lambda yy, xx: xx > x)):
            if want >= 0:
                m = 0
                for yy in range(h):
                    for xx in range(w):
                        if cond(yy, xx):
                            m |= 1 << (yy * w + xx)
                pl.append((m, want))
        planes.append(pl)

    out = []
    regions = [0] * n

    def emit():
        lab = [None] * ncell
        for i in range(n):
            m = regions[i]
            while m:
                b = m & -m
                m ^= b
                lab[b.bit_length() - 1] = i
        out.append(tuple(lab))

    def exact(i, m):
        return all(_bits(m & pm) == want for pm, want in planes[i])

    # the compasses with the most numbers are grown first (any order lists the same divisions)
    order = sorted(range(n), key=lambda i: (-len(planes[i]), sum(want for _, want in planes[i]), i))

    def region(k, rest):
        """rest: mask of the cells not owned by the regions order[0..k-1] (holds the compasses order[k..])."""
        i = order[k]
        if k == n - 1:
            if flood(rootbit[i], rest) == rest and exact(i, rest):
                regions[i] = rest
                emit()
            return
        later = [order[j] for j in range(k + 1, n)]
        latermask = 0
        for j in later:
            latermask |= rootbit[j]
        free = rest & ~latermask

        def viable(left):
            # every cell that is left must still reach a later compass, and every later compass must still reach
            # enough cells for each of its numbers
            seen = 0
            for j in later:
                if not seen & rootbit[j]:
                    seen |= flood(rootbit[j], left)
            if seen != left:
                return False
            for j in later:
                if planes[j]:
                    reach = flood(rootbit[j], left & ~latermask | rootbit[j])
                    for pm, want in planes[j]:
                        if _bits(reach & pm) < want:
                            return False
            return True

        def grow(cur, banned):
            pl = planes[i]
            if pl:
                reach = flood(cur, free & ~banned)
                for pm, want in pl:
                    if _bits(cur & pm) > want or _bits(reach & pm) < want:
                        return
            if exact(i, cur) and viable(rest & ~cur):
                regions[i] = cur
                region(k + 1, rest & ~cur)
            front = around(cur) & free & ~cur & ~banned
            b = banned
            while front:
                c = front & -front
                front ^= c
                grow(cur | c, b)
                b |= c

        grow(rootbit[i], 0)

    region(0, full)
    out.sort()
    _CDIV[key] = out
    return out


def full_clues(h, w, roots, d):
    """The complete clue set that the division d (row-major labels) implies for compasses on `roots`."""
    prob = []
    for i, (y, x) in enumerate(roots):
        cu = cl = cd = cr = 0
        for yy in range(h):
            for xx in range(w):
                if d[yy * w + xx] == i:
                    cu += yy < y
                    cd += yy > y
                    cl += xx < x
                    cr += xx > x
        prob.append([y, x, cu, cl, cd, cr])
    return prob


def snake_division(h, w, n, by_columns=False):
    """A hand-made division for boards too large to list all of them: the boustrophedon walk over the board cut into n
    runs of nearly equal length; returns (roots, labels), the compass of a run sitting on its middle cell."""
    order = []
    if not by_columns:
        for y in range(h):
            row = [(y, x) for x in range(w)]
            order += row[::-1] if y % 2 else row
    else:
        for x in range(w):
            col = [(y, x) for y in range(h)]
            order += col[::-1] if x % 2 else col
    lab = [None] * (h * w)
    roots = []
    for i in range(n):
        lo, hi = i * h * w // n, (i + 1) * h * w // n
        for (y, x) in order[lo:hi]:
            lab[y * w + x] = i
        roots.append(order[(lo + hi) // 2])
    return roots, tuple(lab)


LARGE_QUICK = [(4, 4), (3, 5), (5, 3), (5, 5), (1, 12), (12, 1), (2, 8), (8, 2)]
LARGE_THOROUGH = [(4, 5), (5, 4), (3, 6), (6, 3), (2, 10), (10, 2), (1, 15), (15, 1), (4, 6), (6, 4), (6, 6)]
# boards whose clue-free divisions (three compasses) can be listed completely: source of the dense instances
_LISTABLE = {(4, 4), (3, 5), (5, 3), (1, 12), (12, 1), (2, 8), (8, 2), (4, 5), (5, 4), (3, 6), (6, 3), (2, 10), (10, 2), (1, 15), (15, 1)}


def _picks(n, count):
    """count indices spread evenly over range(n), first and last included."""
    if n <= count:
        return list(range(n))
    return sorted(set(round(i * (n - 1) / (count - 1)) for i in range(count)))


def _dense_variants(full, rich, huge=False):
    """Problems derived from a complete clue set: itself, with every k-th arm blanked, with one arm changed by one."""
    n = len(full)
    arms = [a for c in full for a in c[2:]]

    def build(a):
        return [[full[i][0], full[i][1]] + list(a[4 * i : 4 * i + 4]) for i in range(n)]

    out = [build(arms)]
    for k, off in ([(2, 0), (2, 1), (3, 0), (3, 2), (4, 1)] if rich else [(2, 1), (3, 0)]):
        if huge and k == 2:
            continue  # half of the numbers gone on a 6x6 board: too many divisions to list
        out.append(build([-1 if j % k == off else a for j, a in enumerate(arms)]))
    m = len(arms)
    spots = [(0, 1), (m - 1, -1), (m // 2, 1), (1, -1), (m - 2, 1)]
    if rich:
        spots += [(p, -d) for p, d in spots] + [(m // 4, 1), (m // 4, -1), (3 * m // 4, 1), (3 * m // 4, -1)]
    seen = set()
    for pos, delta in spots:
        if arms[pos] + delta < 0:
            delta = 1  # 0 - 1 would be the blank arm, not a changed number
        if (pos, delta) in seen:
            continue
        seen.add((pos, delta))
        a = list(arms)
        a[pos] += delta
        out.append(build(a))
    return out


def large_instances(h, w, rich):
    def inst(prob):
        return {"height": h, "width": w, "problem": [list(c) for c in prob]}

    far = (h - 1, w - 1)
    # one compass in the far corner: clue-free, its complete clue set (whole board; two-digit numbers), one arm off by one
    up, lf = (h - 1) * w, h * (w - 1)
    yield inst([[far[0], far[1], -1, -1, -1, -1]])
    yield inst([[far[0], far[1], up, lf, 0, 0]])
    yield inst([[far[0], far[1], up - 1 if up else 1, -1, -1, -1]])
    yield inst([[far[0], far[1], -1, lf + 1, -1, -1]])
    yield inst([[0, 0, -1, -1, up, lf]])
    # two compasses in opposite corners: clue-free where listable, and large numbers on the arms pointing at each other
    if h * w <= 25:
        yield inst([[0, 0, -1, -1, -1, -1], [far[0], far[1], -1, -1, -1, -1]])
    top = (up if h > 1 else lf) - 1  # the most cells the first compass can own beyond its own row (column)
    vals = [top, top + 1] + ([10] if 10 < top < 25 else []) + ([top - 1] if rich else []) + ([11] if rich and 11 < top < 25 else [])
    for v in vals:
        if h > 1:
            yield inst([[0, 0, -1, -1, v, -1], [far[0], far[1], -1, -1, -1, -1]])
            yield inst([[far[0], far[1], v, -1, -1, -1], [0, 0, -1, -1, -1, -1]])
        else:
            yield inst([[0, 0, -1, -1, -1, v], [far[0], far[1], -1, -1, -1, -1]])
            yield inst([[far[0], far[1], -1, v, -1, -1], [0, 0, -1, -1, -1, -1]])
    # dense instances
    grids = []
    if (h, w) in _LISTABLE:
        roots = [far, ((h - 1) // 2, (w - 1) // 2), (h - 1, 0) if h > 1 and w > 1 else (0, 0)]
        if (h, w) == (4, 4):
            roots.append((0, w - 1))  # four compasses: 7153 clue-free divisions
        free = [[y, x, -1, -1, -1, -1] for y, x in roots]
        yield inst(free)
        divs = clued_divisions(h, w, free)
        ngrids = 5 if (h, w) == (4, 4) else (3 if h > 1 and w > 1 else 2)
        if not rich:
            ngrids = 2 if (h, w) == (4, 4) else 1
        idx = _picks(len(divs), ngrids + 2)[1:-1] if not rich else _picks(len(divs), ngrids)
        for i in idx:
            grids.append((roots, divs[i]))
    else:
        n = 4 if h * w <= 25 else 5
        grids.append(snake_division(h, w, n))
        if rich or h != w:
            grids.append(snake_division(h, w, n, by_columns=True))
        if rich:
            grids.append(snake_division(h, w, n + 1))
    for roots, d in grids:
        for prob in _dense_variants(full_clues(h, w, roots, d), rich, h * w > 25):
            yield inst(prob)


def selftest():
    """clued_divisions == divisions + clue filter on the small boards, clue-free and for every single / double clue with
    values 0..3 on the arms of the first two compasses."""
    rule = Compass()
    cases = 0
    for h, w in [(1, 3), (3, 1), (2, 2), (2, 3), (3, 2), (3, 3), (2, 4), (4, 2), (3, 4)]:
        cells = [(y, x) for y in range(h) for x in range(w)]
        for n in (1, 2, 3):
            if h * w > 9 and n != 2:
                continue
            for k, pl in enumerate(itertools.combinations(cells, n)):
                if h * w > 6 and k % 3:
                    continue
                pl = list(pl) if k % 2 == 0 else list(reversed(pl))
                lays, _ = base.layouts(4 * min(n, 2), -1, [0, 1, 2, 3], 150)
                for arms in lays:
                    arms = list(arms) + [-1] * (4 * n - len(arms))
                    prob = [[pl[i][0], pl[i][1]] + arms[4 * i : 4 * i + 4] for i in range(n)]
                    a = sorted(rule._readings_small({"height": h, "width": w, "problem": prob}))
                    b = clued_divisions(h, w, prob)
                    assert a == b, (h, w, prob, len(a), len(b))
                    cases += 1
    # the full clue set of a division is obeyed by that division
    for h, w, n in [(4, 4, 3), (5, 5, 4), (3, 5, 3)]:
        roots, d = snake_division(h, w, n)
        assert d in clued_divisions(h, w, full_clues(h, w, roots, d))
    return cases


class Compass(base.Rule):
    name = "compass"

    def shapes(self, tier):
        # (h, w, number of compasses)
        small = [(1, 1), (1, 2), (2, 1), (1, 3), (3, 1), (2, 2), (2, 3), (3, 2), (3, 3)]
        out = []
        for h, w in small:
            for n in (1, 2):
                if n <= h * w and not (tier == "quick" and (h, w, n) == (3, 3, 2)):  # 900 solves of ~40 ms: thorough only
                    out.append((h, w, n))
        if tier != "quick":
            for h, w in [(1, 4), (4, 1), (2, 4), (4, 2), (3, 4), (4, 3)]:
                out.append((h, w, 1))
                out.append((h, w, 2))
            for h, w in [(1, 3), (3, 1), (2, 2), (2, 3), (3, 2), (3, 3)]:
                out.append((h, w, 3))
        out += [("large", h, w) for h, w in LARGE_QUICK]
        if tier != "quick":
            out += [("large", h, w) for h, w in LARGE_THOROUGH]
        return out

    def _alphabet(self, shape, cap):
        return [0, 1, 2] if cap <= 1000 else [0, 1, 2, 3]

    def instances(self, shape, cap):
        if shape[0] == "large":
            for p in large_instances(shape[1], shape[2], cap > 1000):
                yield p
            return
        h, w, n = shape
        cells = [(y, x) for y in range(h) for x in range(w)]
        places = list(itertools.combinations(cells, n))
        orders = []
        for pl in places:
            orders.append(list(pl))
            if cap > 1000 and n == 2 and h * w <= 9:
                orders.append(list(reversed(pl)))  # the order in the list is independent of the order on the board
        if cap > 1000:
            cap = cap // 4  # a solve costs 10-80 ms here; keeps the thorough ladder near 60 000 solves
        per = max(1, cap // len(orders))
        lays, k = base.layouts(4 * n, -1, self._alphabet(shape, cap), per)
        for pos in orders:
            for arms in lays:
                yield {
                    "height": h,
                    "width": w,
                    "problem": [[pos[i][0], pos[i][1]] + list(arms[4 * i : 4 * i + 4]) for i in range(n)],
                }

    def call(self, p):
        from cspuz.puzzle import compass

        is_sat, division = compass.solve_compass(p["height"], p["width"], [tuple(c) for c in p["problem"]])
        return is_sat, base.sols_of(division)

    def readings(self, p):
        h, w, prob = p["height"], p["width"], p["problem"]
        if len(prob) ** (h * w - len(prob)) > 5000:
            return [clued_divisions(h, w, prob)]
        return [self._readings_small(p)]

    def _readings_small(self, p):
        h, w = p["height"], p["width"]
        prob = p["problem"]
        roots = [(c[0], c[1]) for c in prob]
        out = []
        for d in divisions(h, w, roots):
            ok = True
            for i, (y, x, up, lf, dw, rg) in enumerate(prob):
                cu = cl = cd = cr = 0
                for yy in range(h):
                    for xx in range(w):
                        if d[yy * w + xx] == i:
                            cu += yy < y
                            cd += yy > y
                            cl += xx < x
                            cr += xx > x
                if (up >= 0 and cu != up) or (lf >= 0 and cl != lf) or (dw >= 0 and cd != dw) or (rg >= 0 and cr != rg):
                    ok = False
                    break
            if ok:
                out.append(d)
        return out

    def example(self):
        prob = [[1, 2, -1, 1, -1, -1], [2, 1, 2, -1, 5, 1], [2, 3, 5, -1, 3, -1], [3, 2, 1, -1, -1, 1]]
        return {"height": 5, "width": 5, "problem": prob}, "cspuz/puzzle/compass.py _main(): puzz.link compass/5/5/m..1.i25.1g53..i1..1m"


RULE = Compass()
