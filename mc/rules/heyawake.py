"""Heyawake (https://www.nikoli.co.jp/en/puzzles/heyawake/): shade cells so that no two black cells share an edge, the
white cells are orthogonally connected (the empty set counts as connected), a numbered room contains exactly that many
black cells, and no straight (horizontal or vertical) run of white cells stretches over three or more rooms.

Answer keys: is_black, row-major (h*w bools).

Two problem forms, both accepted by solve_heyawake(height, width, *problem):
  {"form": "rect", "height", "width", "rectangles": [[y0, x0, y1, x1, n], ...]}    (half-open cell ranges, n = -1: no clue)
  {"form": "room", "height", "width", "rooms": [[[y, x], ...], ...], "clues": [n, ...]}
Shapes are (form, h, w, kmin) with form "rect" / "room": ALL tilings of the board by rectangles (listed in the order of
their top-left cells) / ALL partitions of the board into orthogonally connected rooms (mc.graphref.connected_partitions,
rooms ordered by their smallest cell).  Cap rule per shape, over (structure, clue layout) pairs: every structure with all
clue layouts having <= k clued rooms over -1 | 0 1 2, where k is the largest number keeping the total <= cap, but never
less than kmin (kmin = 0: at least every structure without clues; kmin = 1: at least every single clue).

Rule reading decided here (NOT in the DESIGN.md envelope; it only concerns the room form with non-rectangular rooms):
a straight white run that leaves room A, crosses room B and re-enters room A crosses two room borders but meets only two
distinct rooms.  Nikoli's statement is written for rectangular rooms, where "three rooms" and "two borders" coincide;
non-rectangular rooms exist only on puzz.link (pzv.jp, the site the module's example URL points to), whose answer check
counts borders: a white run may cross at most one room border.  That is the single reading enforced ("borders").
READINGS may be extended to ("borders", "rooms") to also admit the literal "at most two distinct rooms" reading;
readings() returns one list per listed reading, merged when the solution sets coincide (always for rectangular rooms).

Two enumerators: candidates() + filter walks all 2^(h*w) colourings (boards up to 16 cells); search() colours the cells one
by one and gives up a branch as soon as two black cells touch, the white cells have two components of which one can no
longer grow, a white run ending in the new cell crosses two borders, or a numbered room has too many black cells or cannot
reach its number any more (the cells still to come hold at most half of every horizontal stretch, rounded up) - consequences
of the rules above only; selftest() compares both on every board up to 16 cells.  readings() uses search() beyond 16 cells.

Shape ("large", h, w, s): the board with room structure s - "single" (one room; two-digit clues from 6x5 on), "b22" / "b23" /
"b32" / "b33" (blocks of that size, cut at the board edge), "rows" / "cols" (one room per line), all in the rectangle form;
"stairs" (diagonal bands of two cells per row, not rectangular) in the room form; "example" (the published 6x6 rooms) -
without clues, and dense instances derived from answers G of the clue-free board (first, last, evenly spaced; for a single
room of more than 25 cells: of the largest clue that has answers): every room clued with its number of black cells, all
minus every k-th clue, one clue +1 / -1 (first, last, middle room), the last room only.
"""

import itertools

from . import base

READINGS = ("borders",)  # "borders": a white run crosses at most one room border (puzz.link's answer check);
#                          "rooms": a white run meets at most two distinct rooms (literal wording, not enforced)

_CAND = {}
_STRUCT = {}
_FREE = {}
SMALL = 16  # boards up to this many cells are enumerated by candidates()


def candidates(h, w):
    """Clue- and room-independent part: is_black colourings without adjacent blacks and with connected whites, each with
    its maximal straight white runs (lists of cells, length >= 3 only: shorter runs cannot meet three rooms / two borders)."""
    if (h, w) in _CAND:
        return _CAND[(h, w)]
    cells = [(y, x) for y in range(h) for x in range(w)]
    out = []
    for col in base.colorings(h * w):
        black = set(c for c, v in zip(cells, col) if v)
        if any((y + 1, x) in black or (y, x + 1) in black for y, x in black):
            continue
        if not base.cells_connected([c for c in cells if c not in black]):
            continue
        runs = []
        for y in range(h):
            run = []
            for x in range(w + 1):
                if x < w and (y, x) not in black:
                    run.append((y, x))
                else:
                    if len(run) >= 3:
                        runs.append(run)
                    run = []
        for x in range(w):
            run = []
            for y in range(h + 1):
                if y < h and (y, x) not in black:
                    run.append((y, x))
                else:
                    if len(run) >= 3:
                        runs.append(run)
                    run = []
        out.append((col, runs))
    _CAND[(h, w)] = out
    return out


def rectangle_tilings(h, w):
    """All tilings of the h x w board by rectangles (y0, x0, y1, x1), each listed by top-left cell in row-major order."""
    out = []
    covered = [[False] * w for _ in range(h)]

    def rec(acc):
        pos = None
        for y in range(h):
            for x in range(w):
                if not covered[y][x]:
                    pos = (y, x)
                    break
            if pos:
                break
        if pos is None:
            out.append(list(acc))
            return
        y0, x0 = pos
        for y1 in range(y0 + 1, h + 1):
            for x1 in range(x0 + 1, w + 1):
                if any(covered[y][x] for y in range(y0, y1) for x in range(x0, x1)):
                    continue
                for y in range(y0, y1):
                    for x in range(x0, x1):
                        covered[y][x] = True
                acc.append((y0, x0, y1, x1))
                rec(acc)
                acc.pop()
                for y in range(y0, y1):
                    for x in range(x0, x1):
                        covered[y][x] = False

    rec([])
    return out


def structures(form, h, w):
    key = (form, h, w)
    if key in _STRUCT:
        return _STRUCT[key]
    if form == "rect":
        res = rectangle_tilings(h, w)
    else:
        from mc import graphref  # plain Python, no cspuz

        res = [[[[v // w, v % w] for v in block] for block in part] for part in graphref.connected_partitions(h * w, graphref.grid_edges(h, w))]
    _STRUCT[key] = res
    return res


class _Enough(Exception):
    pass


def _search_tall(h, w, room, clue, reading, limit):
    """All is_black bit masks (bit y*w+x) of the h x w board; room[k] = room of cell k, clue[r] = number of room r or -1."""
    n = h * w
    full = (1 << n) - 1
    notl = full & ~sum(1 << (y * w) for y in range(h))
    notr = full & ~sum(1 << (y * w + w - 1) for y in range(h))
    opn = []  # cells that still have an unassigned neighbour once cells 0..i are assigned
    for i in range(n):
        m = 0
        for k in range(max(0, i - w + 1), i + 1):
            if k + w < n:
                m |= 1 << k
        if i % w < w - 1:
            m |= 1 << i
        opn.append(m)
    nrooms = len(clue)
    rmask = [0] * nrooms
    for k in range(n):
        rmask[room[k]] |= 1 << k
    # room_cap[r][i]: no more than so many of the cells of room r after cell i can be black together (no two side by side
    # in a row): half of every maximal horizontal stretch of such cells, rounded up
    room_cap = {}
    for r in range(nrooms):
        if clue[r] < 0:
            continue
        caps = []
        for i in range(n):
            total = 0
            stretch = 0
            for k in range(i + 1, n + 1):
                if k < n and room[k] == r and (stretch == 0 or k % w != 0):
                    stretch += 1
                else:
                    total += (stretch + 1) // 2
                    stretch = 1 if k < n and room[k] == r else 0
            caps.append(total)
        room_cap[r] = caps

    def flood(seed, mask):
        while True:
            nxt = (seed | ((seed << 1) & notl) | ((seed >> 1) & notr) | (seed << w) | (seed >> w)) & mask
            if nxt == seed:
                return seed
            seed = nxt

    def may_connect(cells, still_open):
        if cells == 0:
            return True
        if flood(cells & -cells, cells) == cells:
            return True
        rest = cells
        while rest:
            comp = flood(rest & -rest, rest)
            if not comp & still_open:
                return False
            rest &= ~comp
        return True

    def run_ok(black, i, step, count):
        """The white run that ends in cell i, walked backwards (`step` cells apart, `count` more cells at most)."""
        ids = [room[i]]
        k = i
        for _ in range(count):
            k -= step
            if black >> k & 1:
                break
            ids.append(room[k])
        if reading == "borders":
            return sum(1 for a, b in zip(ids, ids[1:]) if a != b) < 2
        return len(set(ids)) < 3

    out = []

    def rec(i, black):
        if i == n:
            out.append(black)
            if limit is not None and len(out) >= limit:
                raise _Enough()
            return
        done = (1 << (i + 1)) - 1
        r = room[i]
        for v in (0, 1):
            if v and ((i >= w and black >> (i - w) & 1) or (i % w and black >> (i - 1) & 1)):
                continue
            nb = black | (v << i)
            c = clue[r]
            if c >= 0:
                cnt = bin(nb & rmask[r]).count("1")
                if cnt > c or cnt + room_cap[r][i] < c:
                    continue
            if v:
                if not may_connect(done & ~nb, opn[i] if i < n - 1 else 0):
                    continue
            else:
                if not run_ok(nb, i, 1, i % w) or not run_ok(nb, i, w, i // w):
                    continue
                if i == n - 1 and not may_connect(done & ~nb, 0):
                    continue
            rec(i + 1, nb)

    try:
        rec(0, 0)
    except _Enough:
        pass
    return out


def search(h, w, rooms, clues, reading="borders", limit=None):
    """All is_black tuples (row-major) obeying the rules, by pruned search; rooms = lists of (y, x), clues[r] = n or -1."""
    room_of = [None] * (h * w)
    for r, cells in enumerate(rooms):
        for y, x in cells:
            room_of[y * w + x] = r
    # internal board: at least as tall as wide, the clued rooms rather near its first rows; (Y, X) inside is at(Y, X) outside
    ih, iw = (h, w) if w <= h else (w, h)
    at = (lambda Y, X: (Y, X)) if w <= h else (lambda Y, X: (X, Y))
    rows = [sum(1 for X in range(iw) if clues[room_of[at(Y, X)[0] * w + at(Y, X)[1]]] >= 0) for Y in range(ih)]
    if sum(c * (2 * Y - (ih - 1)) for Y, c in enumerate(rows)) > 0:
        at = (lambda f: (lambda Y, X: f(ih - 1 - Y, X)))(at)
    real = [at(Y, X)[0] * w + at(Y, X)[1] for Y in range(ih) for X in range(iw)]
    pos = [0] * (h * w)
    for k, r in enumerate(real):
        pos[r] = k
    found = _search_tall(ih, iw, [room_of[r] for r in real], list(clues), reading, limit)
    return [tuple(bool(m >> pos[r] & 1) for r in range(h * w)) for m in found]


def large_structure(h, w, s):
    """(form, rooms as lists of [y, x], rectangles or None) of the named room structure on the h x w board."""
    if s == "stairs":
        bands = {}
        for y in range(h):
            for x in range(w):
                bands.setdefault((y + x) // 2, []).append([y, x])
        return "room", [bands[k] for k in sorted(bands)], None
    if s == "example":
        rects = [r[:4] for r in RULE.example()[0]["rectangles"]]
    else:
        bh, bw = {"single": (h, w), "rows": (1, w), "cols": (h, 1)}.get(s) or (int(s[1]), int(s[2]))
        rects = [[y0, x0, min(y0 + bh, h), min(x0 + bw, w)] for y0 in range(0, h, bh) for x0 in range(0, w, bw)]
    return "rect", [[[y, x] for y in range(y0, y1) for x in range(x0, x1)] for y0, x0, y1, x1 in rects], rects


def free(h, w, s):
    """Answers of the clue-free board with structure s; for a single room of more than 25 cells (hundreds of thousands of
    answers) those of the largest clue that has any.  Returns (answers, that clue or None)."""
    if (h, w, s) not in _FREE:
        form, rooms, rects = large_structure(h, w, s)
        tr = [[tuple(c) for c in room] for room in rooms]
        if s == "single" and h * w > 25:
            n = (h * w + 1) // 2
            while True:
                sols = search(h, w, tr, [n])
                if sols:
                    break
                n -= 1
            _FREE[(h, w, s)] = (sols, n)
        else:
            _FREE[(h, w, s)] = (search(h, w, tr, [-1] * len(rooms)), None)
    return _FREE[(h, w, s)]


def pick(seq, k):
    """k evenly spaced elements of seq, first and last included (all of seq when it has at most k elements)."""
    if len(seq) <= k:
        return list(seq)
    return [seq[(len(seq) - 1) * j // (k - 1)] for j in range(k)]


class Heyawake(base.Rule):
    name = "heyawake"

    def shapes(self, tier):
        small = [(1, 1), (1, 2), (2, 1), (1, 3), (3, 1), (2, 2), (1, 4), (4, 1), (2, 3), (3, 2)]
        large = {
            (5, 5): ["single", "stairs"], (6, 5): ["single", "b23"], (5, 6): ["single", "b32"],
            (6, 6): ["single", "b22", "example", "stairs"], (2, 10): ["single", "b23"], (10, 2): ["single", "b32"],
            (1, 12): ["single"], (12, 1): ["single"],
        }
        if tier == "quick":
            return [("rect", h, w, 0) for h, w in small] + [("room", h, w, 0) for h, w in small] + [("large", h, w, s) for (h, w), ss in large.items() for s in ss]
        more = {
            (5, 5): ["b22", "b23", "b32", "rows"], (6, 5): ["b22", "b32", "stairs", "cols"], (5, 6): ["b22", "b23", "stairs", "rows"],
            (6, 6): ["b23", "b32", "rows"],
            (2, 10): ["b22", "stairs", "rows"], (10, 2): ["b22", "stairs", "cols"], (1, 12): ["cols"], (12, 1): ["rows"],
            (3, 8): ["single", "b22", "b23", "stairs"], (8, 3): ["single", "b22", "b32", "stairs"],
            (4, 8): ["single", "b22", "b32", "stairs"], (8, 4): ["single", "b22", "b23", "stairs"], (7, 7): ["b22", "stairs"],
        }
        big = [(1, 5), (5, 1), (2, 4), (4, 2), (3, 3)]
        s = [(f, h, w, 1) for f in ("rect", "room") for h, w in small + big]
        s += [("rect", 1, 6, 1), ("rect", 6, 1, 1), ("rect", 3, 4, 0), ("rect", 4, 3, 0)]
        return s + [("large", h, w, x) for d in (large, more) for (h, w), ss in d.items() for x in ss]

    def plan(self, shape, cap):
        """(structures, k) of the cap rule."""
        form, h, w, kmin = shape
        structs = structures(form, h, w)
        maxr = max(len(st) for st in structs)
        total = 0
        k_used = -1
        for k in range(0, maxr + 1):
            cnt = 0
            for st in structs:
                num = 1
                for i in range(k):
                    num = num * (len(st) - i) // (i + 1)
                cnt += num * 3 ** k
            if total + cnt > cap and k > kmin:
                break
            total += cnt
            k_used = k
        return structs, k_used

    def instances(self, shape, cap):
        if shape[0] == "large":
            for p in self.large_instances(shape[1], shape[2], shape[3], cap <= 1000):
                yield p
            return
        form, h, w, kmin = shape
        structs, kmax = self.plan(shape, cap)
        for st in structs:
            n = len(st)
            for k in range(0, min(kmax, n) + 1):
                for pos in itertools.combinations(range(n), k):
                    for vals in itertools.product([0, 1, 2], repeat=k):
                        clues = [-1] * n
                        for q, v in zip(pos, vals):
                            clues[q] = v
                        if form == "rect":
                            yield {"form": "rect", "height": h, "width": w, "rectangles": [list(r) + [c] for r, c in zip(st, clues)]}
                        else:
                            yield {"form": "room", "height": h, "width": w, "rooms": st, "clues": clues}

    def large_instances(self, h, w, s, quick):
        form, rooms, rects = large_structure(h, w, s)
        nr = len(rooms)

        def prob(clues):
            if form == "rect":
                return {"form": "rect", "height": h, "width": w, "rectangles": [list(r) + [c] for r, c in zip(rects, clues)]}
            return {"form": "room", "height": h, "width": w, "rooms": rooms, "clues": list(clues)}

        sols, only = free(h, w, s)
        out = []
        if only is None:
            out.append([-1] * nr)
        gs = pick(sols, 2 if quick else 4)
        for gi, g in enumerate(gs):
            num = [sum(1 for y, x in room if g[y * w + x]) for room in rooms]
            var = {"full": list(num)}
            if nr > 1:
                var["minus2"] = [c if t % 2 == 0 else -1 for t, c in enumerate(num)]
                var["minus3"] = [c if t % 3 != 2 else -1 for t, c in enumerate(num)]
                var["lastonly"] = [c if t == nr - 1 else -1 for t, c in enumerate(num)]
            for name, t in (("first", 0), ("last", nr - 1), ("mid", nr // 2)):
                for d in (1, -1):
                    if num[t] + d >= 0 and not (only is not None and d < 0 and quick):  # a single room of 36 with 11: 4 s
                        v = list(num)
                        v[t] += d
                        var["%s%+d" % (name, d)] = v
            if quick:
                names = (["full", "last+1"], ["minus2", "mid-1"])[gi] if nr > 1 else ["full", "first+1", "first-1"]
            else:
                names = list(var) if gi == 0 else ["full", "minus2", "last-1", "first+1"]
            for k in names:
                if k in var and var[k] not in out:
                    out.append(var[k])
        return [prob(c) for c in out]

    def call(self, p):
        from cspuz.puzzle import heyawake

        if p["form"] == "rect":
            is_sat, is_black = heyawake.solve_heyawake(p["height"], p["width"], [tuple(r) for r in p["rectangles"]])
        else:
            rooms = [[tuple(c) for c in room] for room in p["rooms"]]
            is_sat, is_black = heyawake.solve_heyawake(p["height"], p["width"], rooms, list(p["clues"]))
        return is_sat, base.sols_of(is_black)

    def rooms_of(self, p):
        if p["form"] == "rect":
            rooms = [[(y, x) for y in range(y0, y1) for x in range(x0, x1)] for y0, x0, y1, x1, n in p["rectangles"]]
            clues = [r[4] for r in p["rectangles"]]
        else:
            rooms = [[tuple(c) for c in room] for room in p["rooms"]]
            clues = list(p["clues"])
        return rooms, clues

    def readings(self, p):
        h, w = p["height"], p["width"]
        if h * w <= SMALL:
            return self.filtered(p)
        rooms, clues = self.rooms_of(p)
        out = []
        for r in READINGS:
            sols = search(h, w, rooms, clues, r)
            if sols not in out:
                out.append(sols)
        return out

    def filtered(self, p, kinds=None):
        kinds = kinds or READINGS
        h, w = p["height"], p["width"]
        rooms, clues = self.rooms_of(p)
        room_id = {}
        for i, room in enumerate(rooms):
            for c in room:
                assert c not in room_id
                room_id[c] = i
        assert len(room_id) == h * w
        res = {r: [] for r in kinds}
        for col, runs in candidates(h, w):
            if any(n >= 0 and sum(1 for y, x in room if col[y * w + x]) != n for room, n in zip(rooms, clues)):
                continue
            ok_borders = ok_rooms = True
            for run in runs:
                ids = [room_id[c] for c in run]
                if sum(1 for a, b in zip(ids, ids[1:]) if a != b) >= 2:
                    ok_borders = False
                if len(set(ids)) >= 3:
                    ok_rooms = False
            if ok_borders and "borders" in res:
                res["borders"].append(col)
            if ok_rooms and "rooms" in res:
                res["rooms"].append(col)
        out = []
        for r in kinds:
            if res[r] not in out:
                out.append(res[r])
        return out

    def example(self):
        rects = [
            (0, 0, 1, 2, -1), (0, 2, 2, 4, 2), (0, 4, 1, 6, -1), (1, 0, 2, 2, -1), (1, 4, 3, 6, -1), (2, 0, 4, 3, 3), (2, 3, 4, 4, -1),
            (3, 4, 4, 6, -1), (4, 0, 6, 2, -1), (4, 2, 6, 4, -1), (4, 4, 6, 6, -1),
        ]
        return {"form": "rect", "height": 6, "width": 6, "rectangles": [list(r) for r in rects]}, "cspuz/puzzle/heyawake.py _main() (pzv.jp/p.html?heyawake/6/6/aa66aapv0fu0g2i3k)"


def selftest():
    """search() against the filter of all colourings, for both readings of the run rule, on every board up to 16 cells:
    every rectangle tiling (boards up to 8 cells) / every 7th (larger boards) and every 5th / 97th room partition (boards up
    to 9 cells), at most 80 evenly spaced structures per board, without clues and with the dense clue sets of one answer (all rooms, every second room, last room +1)."""
    r = Heyawake()
    checked = 0
    for h, w in [(h, w) for h in range(1, 17) for w in range(1, 17) if h * w <= SMALL]:
        n = h * w
        probs = []
        tilings = rectangle_tilings(h, w)
        for st in tilings[:: 1 if n <= 8 else 7]:
            probs.append(("rect", st))
        if n <= 9:
            parts = structures("room", h, w)
            for st in parts[:: 5 if n <= 8 else 97]:
                probs.append(("room", st))
        for s in ("single", "b22", "b23", "b32", "stairs", "rows", "cols"):
            form, rooms, rects = large_structure(h, w, s)
            probs.append((form, rects if form == "rect" else rooms))
        for form, st in pick(probs, 80):
            def prob(clues):
                if form == "rect":
                    return {"form": "rect", "height": h, "width": w, "rectangles": [list(x) + [c] for x, c in zip(st, clues)]}
                return {"form": "room", "height": h, "width": w, "rooms": st, "clues": list(clues)}

            p0 = prob([-1] * len(st))
            rooms, _ = r.rooms_of(p0)
            layouts = [[-1] * len(st)]
            base_sols = r.filtered(p0, ("borders",))[0]
            for g in pick(base_sols, 2):
                num = [sum(1 for y, x in room if g[y * w + x]) for room in rooms]
                layouts += [num, [c if t % 2 == 0 else -1 for t, c in enumerate(num)], num[:-1] + [num[-1] + 1]]
            for clues in layouts:
                p = prob(clues)
                for kind in ("borders", "rooms"):
                    want = r.filtered(p, (kind,))[0]
                    assert sorted(search(h, w, rooms, clues, kind)) == sorted(want), (p, kind)
                    checked += 1
    return checked


RULE = Heyawake()
