"""Heyawake (https://www.nikoli.co.jp/en/puzzles/heyawake/): shade cells so that no two black cells share an edge, the
white cells are orthogonally connected (the empty set counts as connected), a numbered room contains exactly that many
black cells, and no straight (horizontal or vertical) run of white cells stretches over three or more rooms.

Answer keys: is_black, row-major (h*w bools).

Two problem forms, both accepted by solve_heyawake(height, width, *problem):
  {"form": "rect", "height", "width", "rectangles": [[y0, x0, y1, x1, n], ...]}    (half-open cell ranges, n = -1: no clue)
  {"form": "room", "height", "width", "rooms": [[[y, x], ...], ...], "clues": [n, ...]}
Shapes are (form, h, w, kmin) with form "rect" / "room": ALL tilings of the board by rectangles (listed in the order of
their top-left cells) / ALL partitions of the board into orthogonally connected rooms (mc.graphref.connected_partitions,
rooms ordered by their smallest cell).  Cap rule per shape, over (structure, clue layout) pairs: every structure with all
clue layouts having <= k clued rooms over -1 | 0 1 2, where k is the largest number keeping the total <= cap, but never
less than kmin (kmin = 0: at least every structure without clues; kmin = 1: at least every single clue).

Rule reading decided here (NOT in the DESIGN.md envelope; it only concerns the room form with non-rectangular rooms):
a straight white run that leaves room A, crosses room B and re-enters room A crosses two room borders but meets only two
distinct rooms.  Nikoli's statement is written for rectangular rooms, where "three rooms" and "two borders" coincide;
non-rectangular rooms exist only on puzz.link (pzv.jp, the site the module's example URL points to), whose answer check
counts borders: a white run may cross at most one room border.  That is the single reading enforced ("borders").
READINGS may be extended to ("borders", "rooms") to also admit the literal "at most two distinct rooms" reading;
readings() returns one list per listed reading, merged when the solution sets coincide (always for rectangular rooms).
"""

import itertools

from . import base

READINGS = ("borders",)  # "borders": a white run crosses at most one room border (puzz.link's answer check);
#                          "rooms": a white run meets at most two distinct rooms (literal wording, not enforced)

_CAND = {}
_STRUCT = {}


def candidates(h, w):
    """Clue- and room-independent part: is_black colourings without adjacent blacks and with connected whites, each with
    its maximal straight white runs (lists of cells, length >= 3 only: shorter runs cannot meet three rooms / two borders)."""
    if (h, w) in _CAND:
        return _CAND[(h, w)]
    cells = [(y, x) for y in range(h) for x in range(w)]
    out = []
    for col in base.colorings(h * w):
        black = set(c for c, v in zip(cells, col) if v)
        if any((y + 1, x) in black or (y, x + 1) in black for y, x in black):
            continue
        if not base.cells_connected([c for c in cells if c not in black]):
            continue
        runs = []
        for y in range(h):
            run = []
            for x in range(w + 1):
                if x < w and (y, x) not in black:
                    run.append((y, x))
                else:
                    if len(run) >= 3:
                        runs.append(run)
                    run = []
        for x in range(w):
            run = []
            for y in range(h + 1):
                if y < h and (y, x) not in black:
                    run.append((y, x))
                else:
                    if len(run) >= 3:
                        runs.append(run)
                    run = []
        out.append((col, runs))
    _CAND[(h, w)] = out
    return out


def rectangle_tilings(h, w):
    """All tilings of the h x w board by rectangles (y0, x0, y1, x1), each listed by top-left cell in row-major order."""
    out = []
    covered = [[False] * w for _ in range(h)]

    def rec(acc):
        pos = None
        for y in range(h):
            for x in range(w):
                if not covered[y][x]:
                    pos = (y, x)
                    break
            if pos:
                break
        if pos is None:
            out.append(list(acc))
            return
        y0, x0 = pos
        for y1 in range(y0 + 1, h + 1):
            for x1 in range(x0 + 1, w + 1):
                if any(covered[y][x] for y in range(y0, y1) for x in range(x0, x1)):
                    continue
                for y in range(y0, y1):
                    for x in range(x0, x1):
                        covered[y][x] = True
                acc.append((y0, x0, y1, x1))
                rec(acc)
                acc.pop()
                for y in range(y0, y1):
                    for x in range(x0, x1):
                        covered[y][x] = False

    rec([])
    return out


def structures(form, h, w):
    key = (form, h, w)
    if key in _STRUCT:
        return _STRUCT[key]
    if form == "rect":
        res = rectangle_tilings(h, w)
    else:
        from mc import graphref  # plain Python, no cspuz

        res = [[[[v // w, v % w] for v in block] for block in part] for part in graphref.connected_partitions(h * w, graphref.grid_edges(h, w))]
    _STRUCT[key] = res
    return res


class Heyawake(base.Rule):
    name = "heyawake"

    def shapes(self, tier):
        small = [(1, 1), (1, 2), (2, 1), (1, 3), (3, 1), (2, 2), (1, 4), (4, 1), (2, 3), (3, 2)]
        if tier == "quick":
            return [("rect", h, w, 0) for h, w in small] + [("room", h, w, 0) for h, w in small]
        big = [(1, 5), (5, 1), (2, 4), (4, 2), (3, 3)]
        s = [(f, h, w, 1) for f in ("rect", "room") for h, w in small + big]
        return s + [("rect", 1, 6, 1), ("rect", 6, 1, 1), ("rect", 3, 4, 0), ("rect", 4, 3, 0)]

    def plan(self, shape, cap):
        """(structures, k) of the cap rule."""
        form, h, w, kmin = shape
        structs = structures(form, h, w)
        maxr = max(len(st) for st in structs)
        total = 0
        k_used = -1
        for k in range(0, maxr + 1):
            cnt = 0
            for st in structs:
                num = 1
                for i in range(k):
                    num = num * (len(st) - i) // (i + 1)
                cnt += num * 3 ** k
            if total + cnt > cap and k > kmin:
                break
            total += cnt
            k_used = k
        return structs, k_used

    def instances(self, shape, cap):
        form, h, w, kmin = shape
        structs, kmax = self.plan(shape, cap)
        for st in structs:
            n = len(st)
            for k in range(0, min(kmax, n) + 1):
                for pos in itertools.combinations(range(n), k):
                    for vals in itertools.product([0, 1, 2], repeat=k):
                        clues = [-1] * n
                        for q, v in zip(pos, vals):
                            clues[q] = v
                        if form == "rect":
                            yield {"form": "rect", "height": h, "width": w, "rectangles": [list(r) + [c] for r, c in zip(st, clues)]}
                        else:
                            yield {"form": "room", "height": h, "width": w, "rooms": st, "clues": clues}

    def call(self, p):
        from cspuz.puzzle import heyawake

        if p["form"] == "rect":
            is_sat, is_black = heyawake.solve_heyawake(p["height"], p["width"], [tuple(r) for r in p["rectangles"]])
        else:
            rooms = [[tuple(c) for c in room] for room in p["rooms"]]
            is_sat, is_black = heyawake.solve_heyawake(p["height"], p["width"], rooms, list(p["clues"]))
        return is_sat, base.sols_of(is_black)

    def rooms_of(self, p):
        if p["form"] == "rect":
            rooms = [[(y, x) for y in range(y0, y1) for x in range(x0, x1)] for y0, x0, y1, x1, n in p["rectangles"]]
            clues = [r[4] for r in p["rectangles"]]
        else:
            rooms = [[tuple(c) for c in room] for room in p["rooms"]]
            clues = list(p["clues"])
        return rooms, clues

    def readings(self, p):
        h, w = p["height"], p["width"]
        rooms, clues = self.rooms_of(p)
        room_id = {}
        for i, room in enumerate(rooms):
            for c in room:
                assert c not in room_id
                room_id[c] = i
        assert len(room_id) == h * w
        res = {r: [] for r in READINGS}
        for col, runs in candidates(h, w):
            if any(n >= 0 and sum(1 for y, x in room if col[y * w + x]) != n for room, n in zip(rooms, clues)):
                continue
            ok_borders = ok_rooms = True
            for run in runs:
                ids = [room_id[c] for c in run]
                if sum(1 for a, b in zip(ids, ids[1:]) if a != b) >= 2:
                    ok_borders = False
                if len(set(ids)) >= 3:
                    ok_rooms = False
            if ok_borders and "borders" in res:
                res["borders"].append(col)
            if ok_rooms and "rooms" in res:
                res["rooms"].append(col)
        out = []
        for r in READINGS:
            if res[r] not in out:
                out.append(res[r])
        return out

    def example(self):
        rects = [
            (0, 0, 1, 2, -1), (0, 2, 2, 4, 2), (0, 4, 1, 6, -1), (1, 0, 2, 2, -1), (1, 4, 3, 6, -1), (2, 0, 4, 3, 3), (2, 3, 4, 4, -1),
            (3, 4, 4, 6, -1), (4, 0, 6, 2, -1), (4, 2, 6, 4, -1), (4, 4, 6, 6, -1),
        ]
        return {"form": "rect", "height": 6, "width": 6, "rectangles": [list(r) for r in rects]}, "cspuz/puzzle/heyawake.py _main() (pzv.jp/p.html?heyawake/6/6/aa66aapv0fu0g2i3k)"


RULE = Heyawake()
