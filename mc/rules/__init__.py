"""R-rules: independent rule checkers for the bundled puzzles (C11)."""
