"""Nurikabe (https://www.nikoli.co.jp/en/puzzles/nurikabe/): shade cells so that every white component ("island")
contains exactly one clue cell and has the clued number of cells (`-1`: island of unknown size, any size >= unknown_low,
or >= 1 when unknown_low is None); clue cells are white; the black cells form one connected region; no 2x2 block is
entirely black.

Answer keys: is_white, row-major (h*w bools).

Problem dict: {"height", "width", "problem": grid of 0 (blank) | -1 | n >= 1, "unknown_low": None | int}.

Ambiguity envelope (ii) of DESIGN.md: the black region ("the stream") may or may not be required to be non-empty.
readings() returns two lists: [black region may be empty, black region must contain at least one cell].

Two enumerators: candidates() + islands_ok() filters all 2^(h*w) colourings (boards up to 16 cells); search() assigns the
cells one by one and gives up a branch as soon as a clue cell would be black, a 2x2 block is black, the black cells have two
components of which one can no longer grow, or an island (white component of the assigned cells) holds two clues, outgrows
its clue, can no longer grow while it has no clue / the wrong size, or has no clue and no clue left to reach, or the number
of white cells can no longer equal the sum of the island sizes - consequences of the rules above only; selftest() compares both on every board up to 16 cells.  readings() uses search() beyond 16 cells.

Shape ("large", h, w): the clue-free board, and dense instances derived from rule-obeying grids G (seeds(): evenly spaced
ones, the one with the largest island - the all-white grid, a clue of h*w - and the one with most islands): G's complete
clue set = every island's size (at the seed cell of the island / at its last cell), all or some as unknown sizes (`-1`, with
unknown_low None / 2 / the smallest island size, two digits where an island allows it), all minus every k-th clue, one clue
+1 / -1 (first, last, middle).
"""

from . import base

_CAND = {}
SMALL = 16  # boards up to this many cells are enumerated by candidates()


def candidates(h, w):
    """Clue-independent part: all colourings (is_white tuple) whose black cells are connected (empty = connected) and
    contain no 2x2 block, each with the list of its white components."""
    if (h, w) in _CAND:
        return _CAND[(h, w)]
    cells = [(y, x) for y in range(h) for x in range(w)]
    out = []
    for col in base.colorings(h * w):
        black = [c for c, v in zip(cells, col) if not v]
        if not base.cells_connected(black):
            continue
        if base.has_2x2(black, h, w):
            continue
        white = [c for c, v in zip(cells, col) if v]
        comps = [sorted(c) for c in base.components(white)]
        out.append((col, comps, len(black)))
    _CAND[(h, w)] = out
    return out


def islands_ok(w, prob, low, col, comps):
    """Clue-dependent part: clue cells are white; every white component holds exactly one clue and has the clued size."""
    if low is None:
        low = 1
    for y, row in enumerate(prob):
        for x, c in enumerate(row):
            if c != 0 and not col[y * w + x]:
                return False
    for comp in comps:
        cl = [prob[y][x] for y, x in comp if prob[y][x] != 0]
        if len(cl) != 1:
            return False
        n = cl[0]
        if n >= 1:
            if len(comp) != n:
                return False
        elif len(comp) < low:
            return False
    return True


def accepts(p, col):
    """Full rule check of one grid (is_white tuple) - used to bind the oracle to large published examples."""
    h, w = p["height"], p["width"]
    cells = [(y, x) for y in range(h) for x in range(w)]
    black = [c for c, v in zip(cells, col) if not v]
    if not base.cells_connected(black) or base.has_2x2(black, h, w):
        return False
    comps = [sorted(c) for c in base.components([c for c, v in zip(cells, col) if v])]
    return islands_ok(w, p["problem"], p.get("unknown_low"), col, comps)


class _Enough(Exception):
    pass


def _search_tall(h, w, clue, low, limit, descending):
    """All is_white bit masks (bit y*w+x) of the h x w board with clue = {cell: n or -1}; in lexicographic order of the
    cells (black < white; descending: the reverse), at most `limit` of them."""
    n = h * w
    full = (1 << n) - 1
    notl = full & ~sum(1 << (y * w) for y in range(h))
    notr = full & ~sum(1 << (y * w + w - 1) for y in range(h))
    opn = []  # cells that still have an unassigned neighbour once cells 0..i are assigned
    for i in range(n):
        m = 0
        for k in range(max(0, i - w + 1), i + 1):
            if k + w < n:
                m |= 1 << k
        if i % w < w - 1:
            m |= 1 << i
        opn.append(m)
    sq = [None] * n
    for y in range(1, h):
        for x in range(1, w):
            i = y * w + x
            sq[i] = (1 << i) | (1 << (i - 1)) | (1 << (i - w)) | (1 << (i - w - 1))
    cluemask = sum(1 << k for k in clue)
    # every white cell lies in an island with exactly one clue: bounds on the number of white cells
    least = sum(c if c >= 1 else low for c in clue.values())
    most = sum(clue.values()) if all(c >= 1 for c in clue.values()) else n

    def flood(seed, mask):
        while True:
            nxt = (seed | ((seed << 1) & notl) | ((seed >> 1) & notr) | (seed << w) | (seed >> w)) & mask
            if nxt == seed:
                return seed
            seed = nxt

    def may_connect(cells, still_open):
        if cells == 0:
            return True
        if flood(cells & -cells, cells) == cells:
            return True
        rest = cells
        while rest:
            comp = flood(rest & -rest, rest)
            if not comp & still_open:
                return False
            rest &= ~comp
        return True

    def islands_may_fit(white, still_open, clues_ahead):
        """Islands of the assigned cells: at most one clue each, not larger than the clue; an island that cannot grow any
        more is final (one clue, the clued size); an island without a clue needs a clue it can still reach."""
        rest = white
        orphans = False
        open_clued = False
        while rest:
            comp = flood(rest & -rest, rest)
            rest &= ~comp
            cl = comp & cluemask
            size = bin(comp).count("1")
            grows = bool(comp & still_open)
            if cl == 0:
                if not grows:
                    return False
                orphans = True
                continue
            if cl & (cl - 1):
                return False
            want = clue[cl.bit_length() - 1]
            if grows:
                open_clued = True
                if want >= 1 and size > want:
                    return False
            elif (size != want) if want >= 1 else (size < low):
                return False
        if orphans and not clues_ahead and not open_clued:
            return False
        return True

    out = []
    values = (1, 0) if descending else (0, 1)

    def rec(i, white):
        if i == n:
            out.append(white)
            if limit is not None and len(out) >= limit:
                raise _Enough()
            return
        done = (1 << (i + 1)) - 1
        still_open = opn[i] if i < n - 1 else 0
        for v in values:
            if not v and cluemask >> i & 1:
                continue
            nw = white | (v << i)
            q = sq[i]
            if q is not None and not nw & q:
                continue
            whites = bin(nw).count("1")
            if whites > most or whites + (n - 1 - i) < least:
                continue
            if not may_connect(done & ~nw, still_open):
                continue
            if not islands_may_fit(nw, still_open, bool(cluemask & ~done)):
                continue
            rec(i + 1, nw)

    try:
        rec(0, 0)
    except _Enough:
        pass
    return out


def search(h, w, prob, low=None, limit=None, descending=False):
    """All is_white tuples (row-major) obeying the rules (black region may be empty), by pruned search."""
    cells = [c for row in prob for c in row]
    for y in range(h):
        for x in range(w):
            if prob[y][x] != 0 and ((x + 1 < w and prob[y][x + 1] != 0) or (y + 1 < h and prob[y + 1][x] != 0)):
                return []  # two clue cells side by side are white cells of one island
    # internal board: at least as tall as wide, clues rather near its first rows; (Y, X) inside is at(Y, X) outside
    ih, iw = (h, w) if w <= h else (w, h)
    at = (lambda Y, X: (Y, X)) if w <= h else (lambda Y, X: (X, Y))
    rows = [sum(1 for X in range(iw) if cells[at(Y, X)[0] * w + at(Y, X)[1]] != 0) for Y in range(ih)]
    if sum(c * (2 * Y - (ih - 1)) for Y, c in enumerate(rows)) > 0:
        at = (lambda f: (lambda Y, X: f(ih - 1 - Y, X)))(at)
    real = [at(Y, X)[0] * w + at(Y, X)[1] for Y in range(ih) for X in range(iw)]
    pos = [0] * (h * w)
    for k, r in enumerate(real):
        pos[r] = k
    clue = {k: cells[r] for k, r in enumerate(real) if cells[r] != 0}
    found = _search_tall(ih, iw, clue, 1 if low is None else low, limit, descending)
    return [tuple(bool(m >> pos[r] & 1) for r in range(h * w)) for m in found]


def seeds(h, w):
    """(grid, seed cells) pairs, the source of the dense instances: for every one, two, four of eight landmark cells
    (corners, middles of the sides, centre) and every 3, 5, 6 out of the first six, the first and the last grid (search
    order) whose islands hold exactly one of those cells each."""
    import itertools

    n = h * w
    marks = sorted(set([0, w - 1, n - w, n - 1, w // 2, n - w + w // 2, (h // 2) * w + w - 1, (h // 2) * w + w // 2]))
    out = []
    for k in (1, 2, 3, 4, 5, 6):
        for pos in itertools.combinations(marks if k in (1, 2, 4) else marks[:6], k):
            prob = base.grid([-1 if c in pos else 0 for c in range(n)], h, w)
            for desc in (False, True):
                if k == 1 and (not desc or pos[0] not in (0, n - 1)):
                    continue  # one island only: just the all-white grid (the solver needs a minute for one island of 18 on 6x6)
                for g in search(h, w, prob, limit=1, descending=desc):
                    if (g, pos) not in out:
                        out.append((g, pos))
    return out


def pick(seq, k):
    """k evenly spaced elements of seq, first and last included (all of seq when it has at most k elements)."""
    if len(seq) <= k:
        return list(seq)
    return [seq[(len(seq) - 1) * j // (k - 1)] for j in range(k)]


class Nurikabe(base.Rule):
    name = "nurikabe"

    def shapes(self, tier):
        s = [(1, 1), (1, 2), (2, 1), (1, 3), (3, 1), (2, 2), (2, 3), (3, 2), (3, 3)]
        large = [("large", 5, 5), ("large", 6, 5), ("large", 5, 6), ("large", 6, 6), ("large", 2, 10), ("large", 10, 2), ("large", 1, 12), ("large", 12, 1)]
        if tier != "quick":
            s += [(1, 4), (4, 1), (1, 5), (5, 1), (2, 4), (4, 2), (3, 4), (4, 3)]
            large += [("large", 3, 8), ("large", 8, 3), ("large", 4, 8), ("large", 8, 4), ("large", 1, 15), ("large", 15, 1), ("large", 2, 13), ("large", 13, 2)]
        return s + large

    def instances(self, shape, cap):
        """All layouts with <= k clues (cap rule) over 0 | -1 1 2 3 4 with unknown_low=None; every layout that contains
        a `-1` clue is generated again with unknown_low=2.  Shape ("large", h, w): see the module doc (cap <= 1000 selects
        the short quick-tier list)."""
        if shape[0] == "large":
            for cells, low in self.large_layouts(shape[1], shape[2], cap <= 1000):
                yield {"height": shape[1], "width": shape[2], "problem": base.grid(cells, shape[1], shape[2]), "unknown_low": low}
            return
        h, w = shape
        lays, k = base.layouts(h * w, 0, [-1, 1, 2, 3, 4], cap)
        lows = [2]
        for cells in lays:
            yield {"height": h, "width": w, "problem": base.grid(cells, h, w), "unknown_low": None}
            if -1 in cells:
                for low in lows:
                    yield {"height": h, "width": w, "problem": base.grid(cells, h, w), "unknown_low": low}

    def large_layouts(self, h, w, quick):
        n = h * w
        cells_of = [(k // w, k % w) for k in range(n)]
        out = [([0] * n, None)]
        sd = seeds(h, w)
        isl = []  # per seed grid: its islands as {seed cell: sorted cells}
        for g, pos in sd:
            comps = base.components([c for c, v in zip(cells_of, g) if v])
            isl.append({q: sorted(y * w + x for y, x in comp) for comp in comps for q in pos if cells_of[q] in comp})
        gs = pick(list(range(len(sd))), 2 if quick else 4)
        gs.append(max(range(len(sd)), key=lambda j: (max(len(c) for c in isl[j].values()), -j)))  # largest island
        gs.append(max(range(len(sd)), key=lambda j: (len(isl[j]), -j)))  # most islands
        for gi, j in enumerate(gs):
            size = {q: len(c) for q, c in isl[j].items()}
            qs = sorted(size)
            small, big = min(size.values()), max(size.values())
            var = {}
            var["full"] = (dict(size), None)
            var["moved"] = ({isl[j][q][-1]: size[q] for q in qs}, None)  # every clue in the last cell of its island
            var["unknown"] = ({q: -1 for q in qs}, None)
            var["unknown2"] = ({q: -1 for q in qs}, 2)
            var["unknownmin"] = ({q: -1 for q in qs}, small)
            var["unknownmin+1"] = ({q: -1 for q in qs}, small + 1)
            var["bigunknown"] = ({q: (-1 if size[q] == big else size[q]) for q in qs}, big)
            var["bigunknown+1"] = ({q: (-1 if size[q] == big else size[q]) for q in qs}, big + 1)
            var["mixed"] = ({q: (size[q] if t % 2 == 0 else -1) for t, q in enumerate(qs)}, None)
            var["minus2"] = ({q: size[q] for t, q in enumerate(qs) if t % 2 == 0}, None)
            var["minus3"] = ({q: size[q] for t, q in enumerate(qs) if t % 3 != 2}, None)
            var["minusfirst"] = ({q: size[q] for q in qs[1:]}, None)
            for name, t in (("first", 0), ("last", len(qs) - 1), ("mid", len(qs) // 2)):
                for d in (1, -1):
                    v = dict(size)
                    v[qs[t]] += d
                    if v[qs[t]] >= 1:
                        var["%s%+d" % (name, d)] = (v, None)
            if quick:  # every kind of variant about once, spread over the grids G
                names = (["full", "last-1"], ["moved", "unknown2", "minus2"], [], ["full", "mixed", "mid+1"])[gi][: 2 if n > 20 else 3]
            else:
                names = list(var)
            if len(qs) == 1:  # the all-white grid: the variants with few answers only
                names = ["moved", "unknownmin", "first-1"][: 2 if n > 20 else 3] if quick else ["full", "moved", "unknownmin", "unknownmin+1", "first-1", "first+1"]
            for k in names:
                if k not in var:
                    continue
                cl, low = var[k]
                unknowns = sum(1 for c in cl.values() if c == -1)
                if n > 20 and len(qs) > 1 and (len(cl) < 3 or (unknowns >= 3 and len(cl) < 6)):
                    continue  # tens of thousands of answers: beyond a few seconds of enumeration
                item = ([cl.get(c, 0) for c in range(n)], low if -1 in cl.values() else None)
                if item not in out:
                    out.append(item)
        return out

    def call(self, p):
        from cspuz.puzzle import nurikabe

        if p.get("unknown_low") is None:
            is_sat, is_white = nurikabe.solve_nurikabe(p["height"], p["width"], p["problem"])
        else:
            is_sat, is_white = nurikabe.solve_nurikabe(p["height"], p["width"], p["problem"], unknown_low=p["unknown_low"])
        return is_sat, base.sols_of(is_white)

    def readings(self, p):
        h, w = p["height"], p["width"]
        if h * w > SMALL:
            may_be_empty = search(h, w, p["problem"], p.get("unknown_low"))
            return [may_be_empty, [col for col in may_be_empty if not all(col)]]
        return self.filtered(p)

    def filtered(self, p):
        h, w = p["height"], p["width"]
        may_be_empty = []
        non_empty = []
        for col, comps, nblack in candidates(h, w):
            if islands_ok(w, p["problem"], p.get("unknown_low"), col, comps):
                may_be_empty.append(col)
                if nblack > 0:
                    non_empty.append(col)
        return [may_be_empty, non_empty]

    def example(self):
        # The module's own main() instance (PUBLISHED below) needs about 20 minutes of solve() with the z3 backend, far too
        # slow for a check that runs the example on every invocation; it was solved once by hand (answer fully decided and
        # accepted by accepts(), see published_example_check()).  The bound example is a small instance with a unique
        # answer under both readings.
        return {"height": 3, "width": 4, "problem": [[1, 0, 2, 0], [0, 0, 0, 0], [4, 0, 0, 0]], "unknown_low": None}, "hand-made 3x4 instance with a unique answer (main()'s 10x10 example takes ~20 min to solve)"


PUBLISHED = {
    "height": 10, "width": 10, "unknown_low": None,
    "problem": [
        [0, 0, 0, 0, 0, 0, 0, 0, 0, 0], [0, 0, 0, 0, 0, 0, 0, 0, 0, 0], [0, 0, 0, 0, 7, 0, 0, 0, 0, 0], [0, 0, 0, 7, 0, 0, 0, 0, 9, 0],
        [0, 0, 0, 0, 0, 0, 0, 7, 0, 0], [0, 0, 0, 0, 0, 0, 0, 0, 0, 0], [0, 0, 7, 0, 0, 0, 7, 0, 0, 0], [0, 0, 0, 0, 0, 7, 0, 0, 0, 0],
        [0, 0, 0, 0, 0, 0, 0, 0, 0, 0], [0, 0, 0, 0, 0, 0, 0, 0, 0, 0],
    ],
}  # cspuz/puzzle/nurikabe.py main(), twitter.com/semiexp/status/1222541993638678530


def published_example_check():
    """Slow (about 20 min): solve main()'s example with the real solver and test the reported grid with accepts()."""
    is_sat, keys = RULE.call(PUBLISHED)
    return is_sat, keys, (None not in keys) and accepts(PUBLISHED, tuple(keys))


def selftest():
    """search() against the filter of all colourings on every board up to 16 cells: clue-free, every layout with one or two
    clues over -1 1 2 3 5 (every third layout on boards of more than 9 cells; unknown_low None, and 2 / 3 with a `-1`), and
    the dense layouts of large_layouts()."""
    import itertools

    r = Nurikabe()
    checked = 0
    for h, w in [(h, w) for h in range(1, 17) for w in range(1, 17) if h * w <= SMALL]:
        n = h * w
        lays = [([0] * n, None)]
        for k in (1, 2):
            for pos in itertools.combinations(range(n), k):
                for vals in itertools.product([-1, 1, 2, 3, 5], repeat=k):
                    cells = [0] * n
                    for q, v in zip(pos, vals):
                        cells[q] = v
                    lays.append((cells, None))
                    if -1 in vals:
                        lays.append((cells, 2 + len(lays) % 2))
        if n > 9:
            lays = lays[::3]
        lays += r.large_layouts(h, w, False)
        for cells, low in lays:
            p = {"height": h, "width": w, "problem": base.grid(cells, h, w), "unknown_low": low}
            assert sorted(search(h, w, p["problem"], low)) == sorted(r.filtered(p)[0]), p
            checked += 1
    return checked


RULE = Nurikabe()
