"""Nurikabe (https://www.nikoli.co.jp/en/puzzles/nurikabe/): shade cells so that every white component ("island")
contains exactly one clue cell and has the clued number of cells (`-1`: island of unknown size, any size >= unknown_low,
or >= 1 when unknown_low is None); clue cells are white; the black cells form one connected region; no 2x2 block is
entirely black.

Answer keys: is_white, row-major (h*w bools).

Problem dict: {"height", "width", "problem": grid of 0 (blank) | -1 | n >= 1, "unknown_low": None | int}.

Ambiguity envelope (ii) of DESIGN.md: the black region ("the stream") may or may not be required to be non-empty.
readings() returns two lists: [black region may be empty, black region must contain at least one cell].
"""

from . import base

_CAND = {}


def candidates(h, w):
    """Clue-independent part: all colourings (is_white tuple) whose black cells are connected (empty = connected) and
    contain no 2x2 block, each with the list of its white components."""
    if (h, w) in _CAND:
        return _CAND[(h, w)]
    cells = [(y, x) for y in range(h) for x in range(w)]
    out = []
    for col in base.colorings(h * w):
        black = [c for c, v in zip(cells, col) if not v]
        if not base.cells_connected(black):
            continue
        if base.has_2x2(black, h, w):
            continue
        white = [c for c, v in zip(cells, col) if v]
        comps = [sorted(c) for c in base.components(white)]
        out.append((col, comps, len(black)))
    _CAND[(h, w)] = out
    return out


def islands_ok(w, prob, low, col, comps):
    """Clue-dependent part: clue cells are white; every white component holds exactly one clue and has the clued size."""
    if low is None:
        low = 1
    for y, row in enumerate(prob):
        for x, c in enumerate(row):
            if c != 0 and not col[y * w + x]:
                return False
    for comp in comps:
        cl = [prob[y][x] for y, x in comp if prob[y][x] != 0]
        if len(cl) != 1:
            return False
        n = cl[0]
        if n >= 1:
            if len(comp) != n:
                return False
        elif len(comp) < low:
            return False
    return True


def accepts(p, col):
    """Full rule check of one grid (is_white tuple) - used to bind the oracle to large published examples."""
    h, w = p["height"], p["width"]
    cells = [(y, x) for y in range(h) for x in range(w)]
    black = [c for c, v in zip(cells, col) if not v]
    if not base.cells_connected(black) or base.has_2x2(black, h, w):
        return False
    comps = [sorted(c) for c in base.components([c for c, v in zip(cells, col) if v])]
    return islands_ok(w, p["problem"], p.get("unknown_low"), col, comps)


class Nurikabe(base.Rule):
    name = "nurikabe"

    def shapes(self, tier):
        s = [(1, 1), (1, 2), (2, 1), (1, 3), (3, 1), (2, 2), (2, 3), (3, 2), (3, 3)]
        if tier != "quick":
            s += [(1, 4), (4, 1), (1, 5), (5, 1), (2, 4), (4, 2), (3, 4), (4, 3)]
        return s

    def instances(self, shape, cap):
        """All layouts with <= k clues (cap rule) over 0 | -1 1 2 3 4 with unknown_low=None; every layout that contains
        a `-1` clue is generated again with unknown_low=2."""
        h, w = shape
        lays, k = base.layouts(h * w, 0, [-1, 1, 2, 3, 4], cap)
        lows = [2]
        for cells in lays:
            yield {"height": h, "width": w, "problem": base.grid(cells, h, w), "unknown_low": None}
            if -1 in cells:
                for low in lows:
                    yield {"height": h, "width": w, "problem": base.grid(cells, h, w), "unknown_low": low}

    def call(self, p):
        from cspuz.puzzle import nurikabe

        if p.get("unknown_low") is None:
            is_sat, is_white = nurikabe.solve_nurikabe(p["height"], p["width"], p["problem"])
        else:
            is_sat, is_white = nurikabe.solve_nurikabe(p["height"], p["width"], p["problem"], unknown_low=p["unknown_low"])
        return is_sat, base.sols_of(is_white)

    def readings(self, p):
        h, w = p["height"], p["width"]
        may_be_empty = []
        non_empty = []
        for col, comps, nblack in candidates(h, w):
            if islands_ok(w, p["problem"], p.get("unknown_low"), col, comps):
                may_be_empty.append(col)
                if nblack > 0:
                    non_empty.append(col)
        return [may_be_empty, non_empty]

    def example(self):
        # The module's own main() instance (PUBLISHED below) needs about 20 minutes of solve() with the z3 backend, far too
        # slow for a check that runs the example on every invocation; it was solved once by hand (answer fully decided and
        # accepted by accepts(), see published_example_check()).  The bound example is a small instance with a unique
        # answer under both readings.
        return {"height": 3, "width": 4, "problem": [[1, 0, 2, 0], [0, 0, 0, 0], [4, 0, 0, 0]], "unknown_low": None}, "hand-made 3x4 instance with a unique answer (main()'s 10x10 example takes ~20 min to solve)"


PUBLISHED = {
    "height": 10, "width": 10, "unknown_low": None,
    "problem": [
        [0, 0, 0, 0, 0, 0, 0, 0, 0, 0], [0, 0, 0, 0, 0, 0, 0, 0, 0, 0], [0, 0, 0, 0, 7, 0, 0, 0, 0, 0], [0, 0, 0, 7, 0, 0, 0, 0, 9, 0],
        [0, 0, 0, 0, 0, 0, 0, 7, 0, 0], [0, 0, 0, 0, 0, 0, 0, 0, 0, 0], [0, 0, 7, 0, 0, 0, 7, 0, 0, 0], [0, 0, 0, 0, 0, 7, 0, 0, 0, 0],
        [0, 0, 0, 0, 0, 0, 0, 0, 0, 0], [0, 0, 0, 0, 0, 0, 0, 0, 0, 0],
    ],
}  # cspuz/puzzle/nurikabe.py main(), twitter.com/semiexp/status/1222541993638678530


def published_example_check():
    """Slow (about 20 min): solve main()'s example with the real solver and test the reported grid with accepts()."""
    is_sat, keys = RULE.call(PUBLISHED)
    return is_sat, keys, (None not in keys) and accepts(PUBLISHED, tuple(keys))


RULE = Nurikabe()
