"""Nurikabe (https://www.nikoli.co.jp/en/puzzles/nurikabe/): shade cells so that every white component ("island")
contains exactly one clue cell and has the clued number of cells (`-1`: island of unknown size, any size >= unknown_low,
or >= 1 when unknown_low is None); clue cells are white; the black cells form one connected region; no 2x2 block is
entirely black.

Answer keys: is_white, row-major (h*w bools).

Problem dict: {"height", "width", "problem": grid of 0 (blank) | -1 | n >= 1, "unknown_low": None | int}.

Ambiguity envelope (ii) of DESIGN.md: the black region ("the stream") may or may not be required to be non-empty.
readings() returns two lists: [black region may be empty, black region must contain at least one cell].
"""

from . import base

_CAND = {}


def candidates(h, w):
    """Clue-independent part: all colourings (is_white tuple) whose black cells are connected (empty = connected) and
    contain no 2x2 block, each with the list of its white components."""
    if (h, w) in _CAND:
        return _CAND[(h, w)]
    cells = [(y, x) for y in range(h) for x in range(w)]
    out = []
    for col in base.colorings(h * w):
        black = [c for c, v in zip(cells, col) if not v]
        if not base.cells_connected(black):
            continue
        if base.has_2x2(black, h, w):
            continue
        white = [c for c, v in zip(cells, col) if v]
        comps = [sorted(c) for c in base.components(white)]
        out.append((col, comps, len(black)))
    _CAND[(h, w)] = out
    return out


class Nurikabe(base.Rule):
    name = "nurikabe"

    def shapes(self, tier):
        s = [(1, 1), (1, 2), (2, 1), (1, 3), (3, 1), (2, 2), (2, 3), (3, 2), (3, 3)]
        if tier != "quick":
            s += [(1, 4), (4, 1), (1, 5), (5, 1), (2, 4), (4, 2), (3, 4), (4, 3)]
        return s

    def instances(self, shape, cap):
        """All layouts with <= k clues (cap rule) over 0 | -1 1 2 3 4 with unknown_low=None; every layout that contains
        a `-1` clue is generated again with unknown_low=2 (and 3 when cap > 1000)."""
        h, w = shape
        lays, k = base.layouts(h * w, 0, [-1, 1, 2, 3, 4], cap)
        lows = [2] if cap <= 1000 else [2, 3]
        for cells in lays:
            yield {"height": h, "width": w, "problem": base.grid(cells, h, w), "unknown_low": None}
            if -1 in cells:
                for low in lows:
                    yield {"height": h, "width": w, "problem": base.grid(cells, h, w), "unknown_low": low}

    def call(self, p):
        from cspuz.puzzle import nurikabe

        if p.get("unknown_low") is None:
            is_sat, is_white = nurikabe.solve_nurikabe(p["height"], p["width"], p["problem"])
        else:
            is_sat, is_white = nurikabe.solve_nurikabe(p["height"], p["width"], p["problem"], unknown_low=p["unknown_low"])
        return is_sat, base.sols_of(is_white)

    def readings(self, p):
        h, w = p["height"], p["width"]
        prob = p["problem"]
        low = p.get("unknown_low")
        if low is None:
            low = 1
        clue_cells = [(y, x) for y in range(h) for x in range(w) if prob[y][x] != 0]
        may_be_empty = []
        non_empty = []
        for col, comps, nblack in candidates(h, w):
            # clue cells belong to their island
            if not all(col[y * w + x] for y, x in clue_cells):
                continue
            ok = True
            for comp in comps:
                cl = [prob[y][x] for y, x in comp if prob[y][x] != 0]
                if len(cl) != 1:
                    ok = False
                    break
                n = cl[0]
                if n >= 1:
                    if len(comp) != n:
                        ok = False
                        break
                elif len(comp) < low:
                    ok = False
                    break
            if ok:
                may_be_empty.append(col)
                if nblack > 0:
                    non_empty.append(col)
        return [may_be_empty, non_empty]

    def example(self):
        prob = [
            [0, 0, 0, 0, 0, 0, 0, 0, 0, 0], [0, 0, 0, 0, 0, 0, 0, 0, 0, 0], [0, 0, 0, 0, 7, 0, 0, 0, 0, 0], [0, 0, 0, 7, 0, 0, 0, 0, 9, 0],
            [0, 0, 0, 0, 0, 0, 0, 7, 0, 0], [0, 0, 0, 0, 0, 0, 0, 0, 0, 0], [0, 0, 7, 0, 0, 0, 7, 0, 0, 0], [0, 0, 0, 0, 0, 7, 0, 0, 0, 0],
            [0, 0, 0, 0, 0, 0, 0, 0, 0, 0], [0, 0, 0, 0, 0, 0, 0, 0, 0, 0],
        ]
        return {"height": 10, "width": 10, "problem": prob, "unknown_low": None}, "cspuz/puzzle/nurikabe.py main() (twitter.com/semiexp/status/1222541993638678530)"


RULE = Nurikabe()
