"""Nurimisaki (https://www.nikoli.co.jp/en/puzzles/nurimisaki/): shade cells so that the white cells are orthogonally
connected and no 2x2 block is of one colour.  A circled cell is a cape: it is white and exactly one of its orthogonal
neighbours is white; no white cell without a circle has exactly one white neighbour.  A number n in a circle is the
length of the straight run of white cells that starts at the cape (cape included) and continues through its only white
neighbour until the next black cell or the edge of the board.

Answer keys: is_white, row-major (h*w bools).
Problem dict: {"height", "width", "problem": grid of -1 (no circle) | 0 (circle) | n >= 2 (numbered circle)}.

Well-formedness (decided from the format alone; DESIGN.md envelope iv): a numbered circle must carry a value that a
straight run starting at its cell can have at all: n >= 2 (a run containing the cape and its white neighbour has at least
two cells; value 1 is self-contradictory) and n <= the number of cells between the circle and the board edge in at least
one of the four directions, the circle included (a larger value is contradicted by the board itself).  Other layouts are
not generated.  The empty white set counts as connected.
"""

from . import base

_CAND = {}
DIRS = ((-1, 0), (1, 0), (0, -1), (0, 1))


def candidates(h, w):
    """Clue-independent part: colourings (is_white) with connected whites and no monochrome 2x2, each with the per-cell
    list of white neighbours."""
    if (h, w) in _CAND:
        return _CAND[(h, w)]
    cells = [(y, x) for y in range(h) for x in range(w)]
    out = []
    for col in base.colorings(h * w):
        white = set(c for c, v in zip(cells, col) if v)
        black = [c for c, v in zip(cells, col) if not v]
        if not base.cells_connected(white):
            continue
        if base.has_2x2(white, h, w) or base.has_2x2(black, h, w):
            continue
        nb = {}
        for y, x in white:
            nb[(y, x)] = [(dy, dx) for dy, dx in DIRS if (y + dy, x + dx) in white]
        out.append((col, white, nb))
    _CAND[(h, w)] = out
    return out


def room_for(h, w, y, x):
    """Longest straight run (cell included) that fits on the board from (y, x) in some direction."""
    return max(y + 1, h - y, x + 1, w - x)


def well_formed(h, w, cells):
    for k, c in enumerate(cells):
        if c == -1 or c == 0:
            continue
        if c < 2 or c > room_for(h, w, k // w, k % w):
            return False
    return True


class Nurimisaki(base.Rule):
    name = "nurimisaki"

    def shapes(self, tier):
        s = [(1, 1), (1, 2), (2, 1), (1, 3), (3, 1), (2, 2), (2, 3), (3, 2), (3, 3)]
        if tier == "quick":
            return s + [(3, 4), (4, 3)]
        return s + [(1, 4), (4, 1), (1, 5), (5, 1), (2, 4), (4, 2), (3, 4), (4, 3), (2, 5), (5, 2), (4, 4)]

    def instances(self, shape, cap):
        """Cap rule over -1 | 0 2 3 (and 4 when cap > 1000); ill-formed layouts (see module doc) are dropped after the cap
        rule has fixed k."""
        h, w = shape
        alphabet = [0, 2, 3] if cap <= 1000 else [0, 2, 3, 4]
        lays, k = base.layouts(h * w, -1, alphabet, cap, admissible=lambda cells: well_formed(h, w, cells))
        for cells in lays:
            yield {"height": h, "width": w, "problem": base.grid(cells, h, w)}

    def call(self, p):
        from cspuz.puzzle import nurimisaki

        is_sat, is_white = nurimisaki.solve_nurimisaki(p["height"], p["width"], p["problem"])
        return is_sat, base.sols_of(is_white)

    def readings(self, p):
        h, w = p["height"], p["width"]
        prob = p["problem"]
        out = []
        for col, white, nb in candidates(h, w):
            ok = True
            for y in range(h):
                for x in range(w):
                    c = prob[y][x]
                    if c == -1:
                        if (y, x) in white and len(nb[(y, x)]) == 1:
                            ok = False
                    else:
                        if (y, x) not in white or len(nb[(y, x)]) != 1:
                            ok = False
                        elif c != 0:
                            dy, dx = nb[(y, x)][0]
                            n = 1
                            cy, cx = y + dy, x + dx
                            while (cy, cx) in white:
                                n += 1
                                cy, cx = cy + dy, cx + dx
                            if n != c:
                                ok = False
                    if not ok:
                        break
                if not ok:
                    break
            if ok:
                out.append(col)
        return [out]

    def example(self):
        prob = [
            [-1, -1, -1, -1, 3, -1, -1, -1, -1, -1], [-1, 3, -1, -1, -1, -1, -1, -1, -1, -1], [-1, -1, -1, -1, -1, -1, -1, -1, 2, -1],
            [-1, -1, -1, -1, -1, -1, -1, -1, -1, -1], [-1, -1, -1, 2, -1, -1, -1, -1, -1, -1], [-1, -1, -1, -1, 0, -1, 2, -1, -1, -1],
            [-1, 2, -1, -1, -1, -1, -1, -1, -1, -1], [-1, -1, -1, -1, -1, -1, -1, -1, -1, 2], [-1, -1, -1, -1, -1, 2, -1, -1, -1, -1],
            [-1, -1, -1, -1, 3, -1, -1, -1, -1, -1],
        ]
        return {"height": 10, "width": 10, "problem": prob}, "cspuz/puzzle/nurimisaki.py _main() (twitter.com/semiexp/status/1168898897424633856)"


RULE = Nurimisaki()
