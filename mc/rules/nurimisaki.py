"""Nurimisaki (https://www.nikoli.co.jp/en/puzzles/nurimisaki/): shade cells so that the white cells are orthogonally
connected and no 2x2 block is of one colour.  A circled cell is a cape: it is white and exactly one of its orthogonal
neighbours is white; no white cell without a circle has exactly one white neighbour.  A number n in a circle is the
length of the straight run of white cells that starts at the cape (cape included) and continues through its only white
neighbour until the next black cell or the edge of the board.

Answer keys: is_white, row-major (h*w bools).
Problem dict: {"height", "width", "problem": grid of -1 (no circle) | 0 (circle) | n >= 2 (numbered circle)}.

Well-formedness (decided from the format alone; DESIGN.md envelope iv): a numbered circle must carry a value that a
straight run starting at its cell can have at all: n >= 2 (a run containing the cape and its white neighbour has at least
two cells; value 1 is self-contradictory) and n <= the number of cells between the circle and the board edge in at least
one of the four directions, the circle included (a larger value is contradicted by the board itself).  Other layouts are
not generated.  The empty white set counts as connected.

Two enumerators: candidates() + filter walks all 2^(h*w) colourings (boards up to 16 cells); search() assigns the cells one
by one and gives up a branch as soon as a circle would be black, a 2x2 block is of one colour, the white cells have two
components of which one can no longer grow, or a cell whose four neighbours are all assigned breaks the cape rule (numbers
are compared when the whole grid is assigned) - consequences of the rules above only; selftest() compares both on every board
up to 16 cells.  readings() uses search() beyond 16 cells.

Shape ("large", h, w): the clue-free board, and dense instances derived from rule-obeying grids G with capes (seeds():
evenly spaced ones, the one with the longest cape run, the one with most capes): G's complete clue set = a numbered circle on
every cape, the same without numbers / numbered alternately, all minus every k-th circle, one number +1 / -1 (first, last,
middle circle; only values the well-formedness rule admits), the circles of the last row / last column only, one more
circle in the far corner.
"""

from . import base

_CAND = {}
_FREE = {}
SMALL = 16  # boards up to this many cells are enumerated by candidates()
DIRS = ((-1, 0), (1, 0), (0, -1), (0, 1))


def candidates(h, w):
    """Clue-independent part: colourings (is_white) with connected whites and no monochrome 2x2, each with the per-cell
    list of white neighbours."""
    if (h, w) in _CAND:
        return _CAND[(h, w)]
    cells = [(y, x) for y in range(h) for x in range(w)]
    out = []
    for col in base.colorings(h * w):
        white = set(c for c, v in zip(cells, col) if v)
        black = [c for c, v in zip(cells, col) if not v]
        if not base.cells_connected(white):
            continue
        if base.has_2x2(white, h, w) or base.has_2x2(black, h, w):
            continue
        nb = {}
        for y, x in white:
            nb[(y, x)] = [(dy, dx) for dy, dx in DIRS if (y + dy, x + dx) in white]
        out.append((col, white, nb))
    _CAND[(h, w)] = out
    return out


def room_for(h, w, y, x):
    """Longest straight run (cell included) that fits on the board from (y, x) in some direction."""
    return max(y + 1, h - y, x + 1, w - x)


def well_formed(h, w, cells):
    for k, c in enumerate(cells):
        if c == -1 or c == 0:
            continue
        if c < 2 or c > room_for(h, w, k // w, k % w):
            return False
    return True


class _Enough(Exception):
    pass


def _search_tall(h, w, circ, num, limit, descending):
    """All is_white bit masks (bit y*w+x) of the h x w board: circ = mask of circled cells, num = {cell: n} for numbered
    circles; in lexicographic order of the cells (black < white; descending: the reverse), at most `limit` of them."""
    n = h * w
    full = (1 << n) - 1
    notl = full & ~sum(1 << (y * w) for y in range(h))
    notr = full & ~sum(1 << (y * w + w - 1) for y in range(h))
    opn = []  # cells that still have an unassigned neighbour once cells 0..i are assigned
    for i in range(n):
        m = 0
        for k in range(max(0, i - w + 1), i + 1):
            if k + w < n:
                m |= 1 << k
        if i % w < w - 1:
            m |= 1 << i
        opn.append(m)
    sq = [None] * n
    for y in range(1, h):
        for x in range(1, w):
            i = y * w + x
            sq[i] = (1 << i) | (1 << (i - 1)) | (1 << (i - w)) | (1 << (i - w - 1))
    nbm = [0] * n
    for y in range(h):
        for x in range(w):
            for dy, dx in DIRS:
                if 0 <= y + dy < h and 0 <= x + dx < w:
                    nbm[y * w + x] |= 1 << ((y + dy) * w + x + dx)
    # cells whose neighbours are all assigned once cells 0..i are
    complete = []
    for i in range(n):
        c = []
        if i >= w:
            c.append(i - w)
        if i >= n - w:
            if i % w > 0:
                c.append(i - 1)
            if i % w == w - 1:
                c.append(i)
        complete.append(c)

    def flood(seed, mask):
        while True:
            nxt = (seed | ((seed << 1) & notl) | ((seed >> 1) & notr) | (seed << w) | (seed >> w)) & mask
            if nxt == seed:
                return seed
            seed = nxt

    def may_connect(cells, still_open):
        if cells == 0:
            return True
        if flood(cells & -cells, cells) == cells:
            return True
        rest = cells
        while rest:
            comp = flood(rest & -rest, rest)
            if not comp & still_open:
                return False
            rest &= ~comp
        return True

    def numbers_ok(white):
        for k, want in num.items():
            d = white & nbm[k]  # exactly one bit (cape rule already checked)
            step = d.bit_length() - 1 - k
            y, x = divmod(k, w)
            dy, dx = (step // w, 0) if step in (w, -w) else (0, step)
            run = 1
            y, x = y + dy, x + dx
            while 0 <= y < h and 0 <= x < w and white >> (y * w + x) & 1:
                run += 1
                y, x = y + dy, x + dx
            if run != want:
                return False
        return True

    def run_may_fit(white, k, i):
        """The run of the complete cape k, as far as cells 0..i tell: False when it is already too long or ends too early."""
        d = white & nbm[k]
        step = d.bit_length() - 1 - k
        y, x = divmod(k, w)
        dy, dx = (step // w, 0) if step in (w, -w) else (0, step)
        run = 1
        y, x = y + dy, x + dx
        while 0 <= y < h and 0 <= x < w:
            c = y * w + x
            if c > i:
                return run <= num[k]
            if not white >> c & 1:
                break
            run += 1
            y, x = y + dy, x + dx
        return run == num[k]

    out = []
    values = (1, 0) if descending else (0, 1)

    def rec(i, white):
        if i == n:
            if numbers_ok(white):
                out.append(white)
                if limit is not None and len(out) >= limit:
                    raise _Enough()
            return
        for v in values:
            if not v and circ >> i & 1:
                continue
            nw = white | (v << i)
            q = sq[i]
            if q is not None:
                t = nw & q
                if t == q or t == 0:
                    continue
            bad = False
            for k in complete[i]:
                if nw >> k & 1:
                    one = bin(nw & nbm[k]).count("1") == 1
                    if one != bool(circ >> k & 1) or (one and k in num and not run_may_fit(nw, k, i)):
                        bad = True
                        break
            if bad:
                continue
            if not may_connect(nw, opn[i] if i < n - 1 else 0):
                continue
            rec(i + 1, nw)

    try:
        rec(0, 0)
    except _Enough:
        pass
    return out


def search(h, w, prob=None, limit=None, descending=False):
    """All is_white tuples (row-major) obeying the rules with the circles of prob (None: no circle), by pruned search
    (limit: only the first so many of the search order; descending: of the reverse order)."""
    cells = [-1] * (h * w) if prob is None else [c for row in prob for c in row]
    # internal board: at least as tall as wide, circles rather near its first rows; (Y, X) inside is at(Y, X) outside
    ih, iw = (h, w) if w <= h else (w, h)
    at = (lambda Y, X: (Y, X)) if w <= h else (lambda Y, X: (X, Y))
    rows = [sum(1 for X in range(iw) if cells[at(Y, X)[0] * w + at(Y, X)[1]] != -1) for Y in range(ih)]
    if sum(c * (2 * Y - (ih - 1)) for Y, c in enumerate(rows)) > 0:
        at = (lambda f: (lambda Y, X: f(ih - 1 - Y, X)))(at)
    real = [at(Y, X)[0] * w + at(Y, X)[1] for Y in range(ih) for X in range(iw)]
    pos = [0] * (h * w)
    for k, r in enumerate(real):
        pos[r] = k
    circ = sum(1 << k for k, r in enumerate(real) if cells[r] != -1)
    num = {k: cells[r] for k, r in enumerate(real) if cells[r] > 0}
    return [tuple(bool(m >> pos[r] & 1) for r in range(h * w)) for m in _search_tall(ih, iw, circ, num, limit, descending)]


def free(h, w):
    if (h, w) not in _FREE:
        _FREE[(h, w)] = search(h, w)
    return _FREE[(h, w)]


def seeds(h, w):
    """Grids with capes, the source of the dense instances: for every pair out of eight landmark cells (corners, middles of
    the sides, centre), every four of them, and every 3, 5, 6 out of the first six, the first and the last grid (search
    order) whose capes are exactly those cells."""
    import itertools

    n = h * w
    marks = sorted(set([0, w - 1, n - w, n - 1, w // 2, n - w + w // 2, (h // 2) * w + w - 1, (h // 2) * w + w // 2]))
    out = []
    for k in (2, 3, 4, 5, 6):
        for pos in itertools.combinations(marks if k in (2, 4) else marks[:6], k):
            prob = base.grid([0 if c in pos else -1 for c in range(n)], h, w)
            for desc in (False, True):
                for g in search(h, w, prob, limit=1, descending=desc):
                    if g not in out:
                        out.append(g)
    return out


def implied_clues(h, w, g):
    """The complete clue set of the is_white grid g: {cell index: run length} for every cape."""
    out = {}
    for y in range(h):
        for x in range(w):
            if not g[y * w + x]:
                continue
            nb = [(dy, dx) for dy, dx in DIRS if 0 <= y + dy < h and 0 <= x + dx < w and g[(y + dy) * w + x + dx]]
            if len(nb) != 1:
                continue
            dy, dx = nb[0]
            run = 1
            cy, cx = y + dy, x + dx
            while 0 <= cy < h and 0 <= cx < w and g[cy * w + cx]:
                run += 1
                cy, cx = cy + dy, cx + dx
            out[y * w + x] = run
    return out


def pick(seq, k):
    """k evenly spaced elements of seq, first and last included (all of seq when it has at most k elements)."""
    if len(seq) <= k:
        return list(seq)
    return [seq[(len(seq) - 1) * j // (k - 1)] for j in range(k)]


class Nurimisaki(base.Rule):
    name = "nurimisaki"

    def shapes(self, tier):
        s = [(1, 1), (1, 2), (2, 1), (1, 3), (3, 1), (2, 2), (2, 3), (3, 2), (3, 3)]
        large = [("large", 5, 5), ("large", 6, 5), ("large", 5, 6), ("large", 6, 6), ("large", 2, 10), ("large", 10, 2), ("large", 1, 12), ("large", 12, 1)]
        if tier == "quick":
            return s + [(3, 4), (4, 3)] + large
        large += [("large", 3, 8), ("large", 8, 3), ("large", 4, 8), ("large", 8, 4), ("large", 1, 15), ("large", 15, 1)]
        large += [("large", 6, 7), ("large", 7, 6)]  # the largest boards: up to 7 s per instance
        return s + [(1, 4), (4, 1), (1, 5), (5, 1), (2, 4), (4, 2), (3, 4), (4, 3), (2, 5), (5, 2), (4, 4)] + large

    def instances(self, shape, cap):
        """Cap rule over -1 | 0 2 3 (and 4 when cap > 1000); ill-formed layouts (see module doc) are dropped after the cap
        rule has fixed k.  Shape ("large", h, w): see the module doc (cap <= 1000 selects the short quick-tier list)."""
        if shape[0] == "large":
            for cells in self.large_layouts(shape[1], shape[2], cap <= 1000):
                assert well_formed(shape[1], shape[2], cells)
                yield {"height": shape[1], "width": shape[2], "problem": base.grid(cells, shape[1], shape[2])}
            return
        h, w = shape
        alphabet = [0, 2, 3] if cap <= 1000 else [0, 2, 3, 4]
        lays, k = base.layouts(h * w, -1, alphabet, cap, admissible=lambda cells: well_formed(h, w, cells))
        for cells in lays:
            yield {"height": h, "width": w, "problem": base.grid(cells, h, w)}

    def large_layouts(self, h, w, quick):
        n = h * w
        out = [[-1] * n]
        sd = seeds(h, w)
        if not sd:
            return out
        clue = [implied_clues(h, w, g) for g in sd]
        gs = pick(list(range(len(sd))), 2 if quick else 3)
        gs.append(max(range(len(sd)), key=lambda j: (max(clue[j].values()), -j)))  # longest run
        gs.append(max(range(len(sd)), key=lambda j: (len(clue[j]), -j)))  # most capes
        for gi, j in enumerate(gs):
            cl = clue[j]
            cs = sorted(cl)
            var = {}
            var["full"] = dict(cl)
            var["plain"] = {c: 0 for c in cs}
            var["mixed"] = {c: (cl[c] if t % 2 == 0 else 0) for t, c in enumerate(cs)}
            var["minus2"] = {c: cl[c] for t, c in enumerate(cs) if t % 2 == 0}
            var["minus3"] = {c: cl[c] for t, c in enumerate(cs) if t % 3 != 2}
            var["minusfirst"] = {c: cl[c] for c in cs[1:]}
            for name, t in (("first", 0), ("last", len(cs) - 1), ("mid", len(cs) // 2)):
                for d in (1, -1):
                    v = dict(cl)
                    v[cs[t]] += d
                    var["%s%+d" % (name, d)] = v
            var["lastrow"] = {c: cl[c] for c in cs if c >= n - w}
            var["lastcol"] = {c: cl[c] for c in cs if c % w == w - 1}
            var["corner"] = dict(cl)
            var["corner"].setdefault(n - 1, 0)
            if quick:  # every kind of variant about once, spread over the grids G
                names = (["full", "last-1", "lastrow"], ["minus2", "mid-1", "lastcol"], ["full", "first-1", "plain"], ["full", "minus3", "mixed"])[gi][: 3 if n > 20 else 2]
            else:
                names = list(var)
            for k in names:
                cells = [var[k].get(c, -1) for c in range(n)]
                if cells not in out and well_formed(h, w, cells):
                    out.append(cells)
        return out

    def call(self, p):
        from cspuz.puzzle import nurimisaki

        is_sat, is_white = nurimisaki.solve_nurimisaki(p["height"], p["width"], p["problem"])
        return is_sat, base.sols_of(is_white)

    def readings(self, p):
        h, w = p["height"], p["width"]
        if h * w > SMALL:
            return [search(h, w, p["problem"]) if any(c != -1 for row in p["problem"] for c in row) else free(h, w)]
        return [self.filtered(p)]

    def filtered(self, p):
        h, w = p["height"], p["width"]
        prob = p["problem"]
        out = []
        for col, white, nb in candidates(h, w):
            ok = True
            for y in range(h):
                for x in range(w):
                    c = prob[y][x]
                    if c == -1:
                        if (y, x) in white and len(nb[(y, x)]) == 1:
                            ok = False
                    else:
                        if (y, x) not in white or len(nb[(y, x)]) != 1:
                            ok = False
                        elif c != 0:
                            dy, dx = nb[(y, x)][0]
                            n = 1
                            cy, cx = y + dy, x + dx
                            while (cy, cx) in white:
                                n += 1
                                cy, cx = cy + dy, cx + dx
                            if n != c:
                                ok = False
                    if not ok:
                        break
                if not ok:
                    break
            if ok:
                out.append(col)
        return out

    def example(self):
        prob = [
            [-1, -1, -1, -1, 3, -1, -1, -1, -1, -1], [-1, 3, -1, -1, -1, -1, -1, -1, -1, -1], [-1, -1, -1, -1, -1, -1, -1, -1, 2, -1],
            [-1, -1, -1, -1, -1, -1, -1, -1, -1, -1], [-1, -1, -1, 2, -1, -1, -1, -1, -1, -1], [-1, -1, -1, -1, 0, -1, 2, -1, -1, -1],
            [-1, 2, -1, -1, -1, -1, -1, -1, -1, -1], [-1, -1, -1, -1, -1, -1, -1, -1, -1, 2], [-1, -1, -1, -1, -1, 2, -1, -1, -1, -1],
            [-1, -1, -1, -1, 3, -1, -1, -1, -1, -1],
        ]
        return {"height": 10, "width": 10, "problem": prob}, "cspuz/puzzle/nurimisaki.py _main() (twitter.com/semiexp/status/1168898897424633856)"


def selftest():
    """search() against the filter of all colourings on every board up to 16 cells: clue-free, every layout with one or two
    circles over 0 2 3 (every third layout on boards of more than 9 cells), and dense layouts derived from seeds()."""
    import itertools

    r = Nurimisaki()
    checked = 0
    for h, w in [(h, w) for h in range(1, 17) for w in range(1, 17) if h * w <= SMALL]:
        n = h * w
        lays = [[-1] * n]
        for k in (1, 2):
            for pos in itertools.combinations(range(n), k):
                for vals in itertools.product([0, 2, 3, 4], repeat=k):
                    cells = [-1] * n
                    for q, v in zip(pos, vals):
                        cells[q] = v
                    lays.append(cells)
        if n > 9:
            lays = lays[::3]
        lays += r.large_layouts(h, w, False)
        for cells in lays:
            if not well_formed(h, w, cells):
                continue
            p = {"height": h, "width": w, "problem": base.grid(cells, h, w)}
            assert sorted(search(h, w, p["problem"])) == sorted(r.filtered(p)), p
            checked += 1
    return checked


RULE = Nurimisaki()
