"""Fillomino (https://www.nikoli.co.jp/en/puzzles/fillomino/), with the "checkered" variant of cspuz.

Rules: divide the board into orthogonally connected polyominoes and write in every cell the size of its polyomino;
(1) a given number (problem[y][x] >= 1; 0 = blank) is kept; (2) two polyominoes of the same size never share an edge
(equivalently: the polyominoes are exactly the connected components of equal numbers and each component of number n has
n cells).  checkered=True adds: (3) the polyominoes can be painted with two colours so that polyominoes sharing an edge
always get different colours (the polyomino adjacency graph is 2-colourable).

problem = {"height", "width", "problem": grid of ints, "checkered": bool}
key order: size[y][x] row-major (y outer, x inner), int.

Cap rule: base.layouts over the cells with default 0 and alphabet 1..4 (all layouts with <= k givens, k maximal with at
most `cap` layouts); every layout is judged with checkered=False and with checkered=True.  Givens larger than the board
are kept in the alphabet (well-formed by format, simply unsolvable).

"large" family, descriptor ("large", h, w, level) with level 0 = quick / 1 = thorough: boards 4x4 .. 6x6, 4x6 / 6x4 and
long boards 1x12 .. 2x10 in both orientations with a fixed selection of instances (problem dicts carry "family":
"large"): the clue-free board where it has few enough answers, single givens of two digits (10, 12, on a line also
the board size) in the far corner, and instances derived from answers G - the first answer of an "anchor" board
(distinct givens adding up to the board size in the corners and the centre), the first answers of the board with a 10
resp. 11 in the far corner, the 51st answer of the clue-free board in search order turned by 180 degrees, and its 5001st answer (the
11 and the 5001st only in the thorough tier) -: every cell
given, every k-th given blanked, the givens of the far end blanked (last cells, last row, last column), one two-cell polyomino blanked, one given per polyomino (its first resp. last cell), only the last row and last column
given, and one given changed by +1 / -1 (first, last, middle cell, a corner, an edge) on the full set and on the thinned
set; each once plain and, for a part, checkered.
Oracle: search() - backtracking over the rules (polyomino of a picked cell = any connected set of free cells obeying
the givens and the no-equal-neighbours rule) returning ALL answers; selftest() compares it with the candidates()
filter (all partitions by brute force) on every board up to 3x4.
NOT in the family: a polyomino that covers a whole two-dimensional board of more than 9 cells.  The oracle answers at
once, but solve_fillomino needs 16 s on 2x6, 57 s on 3x4 and does not finish within 15 minutes on 4x4 with the single
given 16 (the answer it finally gives on 3x4 is right, so this is a cost observation, not a rule violation).
"""

from . import base
from .. import graphref

_PARTS = {}
_CANDS = {}


def _own_partitions(h, w, min_size):
    """Partitions of the h x w board into connected rooms of >= min_size cells (block of the smallest free cell first,
    grown as a connected subset).  Agrees with graphref.connected_partitions (selftest)."""
    out = []

    def nbrs(c):
        y, x = c
        for dy, dx in ((0, 1), (1, 0), (0, -1), (-1, 0)):
            if 0 <= y + dy < h and 0 <= x + dx < w:
                yield (y + dy, x + dx)

    def subsets(seed, free):
        res = []

        def grow(cur, frontier, banned):
            res.append(frozenset(cur))
            for i, c in enumerate(frontier):
                b2 = banned | set(frontier[:i])
                cur2 = cur | {c}
                f2 = list(frontier[i + 1 :])
                for d in nbrs(c):
                    if d in free and d not in cur2 and d not in b2 and d not in f2:
                        f2.append(d)
                grow(cur2, f2, b2)

        grow({seed}, [d for d in nbrs(seed) if d in free], set())
        return res

    def rec(free, acc):
        if not free:
            out.append(list(acc))
            return
        seed = min(free)
        for s in subsets(seed, free):
            rest = free - s
            if len(s) < min_size or 0 < len(rest) < min_size:
                continue
            rec(rest, acc + [s])

    rec(frozenset((y, x) for y in range(h) for x in range(w)), [])
    return out


def room_partitions(h, w, min_size=1):
    """Canonically ordered list of partitions; a partition is a list of rooms sorted by smallest cell, a room a sorted
    list of [y, x]."""
    key = (h, w, min_size)
    if key not in _PARTS:
        if h * w <= 9:
            raw = [
                [[(i // w, i % w) for i in b] for b in p]
                for p in graphref.connected_partitions(h * w, graphref.grid_edges(h, w))
                if all(len(b) >= min_size for b in p)
            ]
        else:
            raw = _own_partitions(h, w, min_size)
        canon = sorted(set(tuple(sorted(tuple(sorted(b)) for b in p)) for p in raw), key=lambda p: (len(p), p))
        _PARTS[key] = [[[list(c) for c in b] for b in p] for p in canon]
    return _PARTS[key]


def two_colourable(n, adj):
    colour = {}
    for s in range(n):
        if s in colour:
            continue
        colour[s] = 0
        stack = [s]
        while stack:
            a = stack.pop()
            for b in adj[a]:
                if b not in colour:
                    colour[b] = 1 - colour[a]
                    stack.append(b)
                elif colour[b] == colour[a]:
                    return False
    return True


def candidates(h, w):
    """Clue-independent answers: (size grid as a flat tuple, can be checkered) for every division into polyominoes in
    which equal-sized polyominoes do not touch."""
    if (h, w) in _CANDS:
        return _CANDS[(h, w)]
    out = []
    for part in room_partitions(h, w):
        poly = {}
        for i, b in enumerate(part):
            for y, x in b:
                poly[(y, x)] = i
        adj = [set() for _ in part]
        ok = True
        for (y, x), i in poly.items():
            for c2 in ((y, x + 1), (y + 1, x)):
                j = poly.get(c2)
                if j is not None and j != i:
                    if len(part[i]) == len(part[j]):
                        ok = False
                    adj[i].add(j)
                    adj[j].add(i)
        if not ok:
            continue
        sizes = tuple(len(part[poly[(y, x)]]) for y in range(h) for x in range(w))
        out.append((sizes, two_colourable(len(part), adj)))
    assert len(set(s for s, _ in out)) == len(out)
    _CANDS[(h, w)] = out
    return out


def search(h, w, problem, checkered=False):
    """Generator of ALL answers (flat size tuples) of a board with givens, written from the rules.

    One cell that has no polyomino yet is picked - the one with the largest given, or without givens the first one in
    row-major order - and its polyomino is chosen among all connected sets of cells without polyomino that contain it;
    a set is admissible if every given inside equals its number of cells and no cell beside it belongs to an already
    chosen polyomino of that size or carries that size as a given (that cell's own polyomino would be a second one of
    the same size next to it).  Every partition into polyominoes arises exactly once, because in a partition the
    polyomino of the picked cell is one definite set.  Growing a set stops when it exceeds a given inside
    it, when it touches a chosen polyomino of the size it is bound to, or when the cells it could still take are fewer
    than a given inside it demands.  checkered: the finished partition must be 2-colourable."""
    n = h * w
    given = [problem[y][x] if problem[y][x] >= 1 else 0 for y in range(h) for x in range(w)]
    nb = [[] for _ in range(n)]
    for y in range(h):
        for x in range(w):
            c = y * w + x
            if x + 1 < w:
                nb[c].append(c + 1)
                nb[c + 1].append(c)
            if y + 1 < h:
                nb[c].append(c + w)
                nb[c + w].append(c)
    size = [0] * n  # size of the chosen polyomino per cell, 0 = none yet
    pid = [-1] * n
    polys = []

    def enough(cur, banned, target):
        """Can cur still grow to target cells (through cells without polyomino, not banned, blank or given = target)?"""
        seen = set(cur)
        stack = list(cur)
        while stack and len(seen) < target:
            c = stack.pop()
            for d in nb[c]:
                if d not in seen and not size[d] and d not in banned and given[d] in (0, target):
                    seen.add(d)
                    stack.append(d)
        return len(seen) >= target

    def admissible(cur):
        k = len(cur)
        inside = set(cur)
        for c in cur:
            if given[c] and given[c] != k:
                return False
            for d in nb[c]:
                if d not in inside and (size[d] == k or (not size[d] and given[d] == k)):
                    return False
        return True

    def grow(cur, frontier, banned, target, touch):
        k = len(cur)
        if (target is None or k == target) and admissible(cur):
            yield cur
        if target is not None and (k >= target or not enough(cur, banned, target)):
            return
        for i, c in enumerate(frontier):
            t2 = target
            if given[c]:
                if target is not None and given[c] != target:
                    continue
                t2 = given[c]
            if k + 1 > (t2 if t2 is not None else n):
                continue
            touch2 = touch | set(size[d] for d in nb[c] if size[d])
            if t2 is not None and t2 in touch2:
                continue
            b2 = banned | set(frontier[:i])
            cur2 = cur + [c]
            f2 = list(frontier[i + 1 :])
            for d in nb[c]:
                if not size[d] and d not in cur2 and d not in b2 and d not in f2:
                    f2.append(d)
            for s in grow(cur2, f2, b2, t2, touch2):
                yield s

    def colourable():
        adj = [set() for _ in polys]
        for c in range(n):
            for d in nb[c]:
                if pid[c] != pid[d]:
                    adj[pid[c]].add(pid[d])
        return two_colourable(len(polys), adj)

    def rec():
        c = None
        for q in range(n):
            if not size[q]:
                if given[q]:
                    if c is None or not given[c] or given[q] > given[c]:
                        c = q
                elif c is None:
                    c = q
        if c is None:
            if not checkered or colourable():
                yield tuple(size)
            return
        target = given[c] or None
        touch = set(size[d] for d in nb[c] if size[d])
        if target is not None and target in touch:
            return
        for s in grow([c], [d for d in nb[c] if not size[d]], set(), target, touch):
            for q in s:
                size[q] = len(s)
                pid[q] = len(polys)
            polys.append(s)
            for g in rec():
                yield g
            polys.pop()
            for q in s:
                size[q] = 0
                pid[q] = -1

    return rec()


_SEEDS = {}


def _first(h, w, prob, index=0):
    import itertools

    return next(itertools.islice(search(h, w, prob), index, None), None)


def seed_answers(h, w, level):
    """Answers the dense instances are derived from (see the module docstring)."""
    key = (h, w, level)
    if key in _SEEDS:
        return _SEEDS[key]
    n = h * w
    out = []
    # anchor board: distinct givens adding up to the board size in the corners and the centre
    spots = []
    for c in ((0, 0), (h - 1, w - 1), (h // 2, w // 2), (0, w - 1), (h - 1, 0)):
        if c not in spots:
            spots.append(c)
    while len(spots) > 1 and n // len(spots) - (len(spots) - 1) // 2 < 1:
        spots.pop()
    k = len(spots)
    vals = [n // k - (k - 1) // 2 + i for i in range(k)]
    vals[-1] += n - sum(vals)
    prob = [[0] * w for _ in range(h)]
    for (y, x), v in zip(spots, vals):
        prob[y][x] = v
    g = _first(h, w, prob)
    if g is not None:
        out.append(g)
    for v in ((10,) if level == 0 else (10, 11)):
        if n >= v + 2:
            prob = [[0] * w for _ in range(h)]
            prob[h - 1][w - 1] = v
            out.append(_first(h, w, prob, 7 if v == 11 else 0))
    empty = [[0] * w for _ in range(h)]
    # the first answers of the clue-free board start with polyominoes of 1 - 3 cells; turned by 180 degrees they end
    # with them, which is where the far-end instances need the no-equal-neighbours rule
    g = _first(h, w, empty, 50)
    if g is not None:
        out.append(tuple(reversed(g)))
    for index in ([] if level == 0 else [5000]):
        g = _first(h, w, empty, index)
        if g is not None:
            out.append(g)
    res = []
    for g in out:
        if g is not None and g not in res:
            res.append(g)
    _SEEDS[key] = res
    return res


def _polyominoes(h, w, g):
    """Connected components of equal numbers of a flat size grid, each as a sorted cell list."""
    comps = []
    todo = set(range(h * w))
    while todo:
        s = min(todo)
        comp = [s]
        todo.discard(s)
        stack = [s]
        while stack:
            c = stack.pop()
            y, x = divmod(c, w)
            for d in ([c - 1] if x else []) + ([c + 1] if x + 1 < w else []) + ([c - w] if y else []) + ([c + w] if y + 1 < h else []):
                if d in todo and g[d] == g[c]:
                    todo.discard(d)
                    comp.append(d)
                    stack.append(d)
        comps.append(sorted(comp))
    return comps


def large_instances(h, w, level):
    """(flat givens, checkered, tag) of the large family of one board.  The selection avoids what solve_fillomino needs
    many seconds for (sparse givens around a polyomino of 9 and more cells) and what has 1e5 and more answers."""
    n = h * w
    line = h == 1 or w == 1
    seen = set()
    out = []

    def emit(cells, checkered, tag):
        key = (tuple(cells), checkered)
        if key not in seen:
            seen.add(key)
            out.append((list(cells), checkered, tag))

    if n <= 14 or line or (level and n <= 16):
        emit([0] * n, False, "empty")
        if level or n <= 12:
            emit([0] * n, True, "empty")
    # single givens of two digits in the far corner (the whole board only on a line, see the module docstring)
    for v in ((10, 12, n - 1, n) if level else (10, n)):
        if 10 <= v <= n and (line or (n <= 16 and v <= 12)):
            c = [0] * n
            c[n - 1] = v
            emit(c, False, "single")
            if level:
                c = [0] * n
                c[0] = v
                emit(c, True, "single")
    for gi, g in enumerate(seed_answers(h, w, level)):
        comps = _polyominoes(h, w, g)
        firsts = set(c[0] for c in comps)
        lasts = set(c[-1] for c in comps)
        sparse_ok = max(len(c) for c in comps) <= (6 if level == 0 else 8) or line
        half = [0 if i % 2 == 1 else v for i, v in enumerate(g)]
        emit(g, False, "full")
        # blank cells clustered at the far end, where only the rules can fill them in: the last 2 / w + 1 / n // 3 cells,
        # the last row, the last column, the last two lines
        tails = [[i >= n - 2 for i in range(n)], [i >= n - n // 3 for i in range(n)]]
        if not line:
            tails += [[i // w == h - 1 for i in range(n)], [i % w == w - 1 for i in range(n)]]
        if level:
            tails += [[i >= n - w - 1 for i in range(n)], [i < 2 for i in range(n)], [i < n // 3 for i in range(n)]]
            if not line:
                tails += [[i // w >= h - 2 for i in range(n)], [i % w >= w - 2 for i in range(n)], [i // w == h - 1 or i % w == w - 1 for i in range(n)]]
        for ti, blank in enumerate(tails):
            if sum(blank) > max(2, n // 3) or (level and gi not in (0, 2)):
                continue
            if level or gi == 2 or (gi == 0 and ti == 0):
                emit([0 if b else v for b, v in zip(blank, g)], level == 1 and ti % 3 == 2, "far-blank")
        # one whole two-cell polyomino blanked: only the no-equal-neighbours rule forbids to fill it with 1 1
        dominoes = [c for c in comps if len(c) == 2]
        if level == 0:
            dominoes = dominoes[-1:] + [c for c in dominoes[:-1] if (c[1] - c[0] == 1) != (dominoes[-1][1] - dominoes[-1][0] == 1)][-1:]
        for c in dominoes if (level or gi != 1) else []:
            emit([0 if i in c else v for i, v in enumerate(g)], False, "domino")
        if level == 0:
            # quick tier: a handful per answer
            if gi == 0:
                emit(g, True, "full")
                emit(half, False, "thin")
                if sparse_ok:
                    emit([v if i in firsts else 0 for i, v in enumerate(g)], False, "one-per-polyomino")
                pos = 0
            elif gi == 2:
                emit(half, True, "thin")
                continue
            else:
                pos = n - 1
            if line:
                emit([v if i in lasts else 0 for i, v in enumerate(g)], True, "one-per-polyomino")
                emit([v if (i // w == h - 1 or i % w == w - 1) else 0 for i, v in enumerate(g)], False, "far-lines")
            c = list(g)
            c[pos] += 1
            emit(c, False, "changed")
            if gi == 0:
                c = [0 if i % 2 != pos % 2 else v for i, v in enumerate(g)]
                c[pos] = g[pos] - 1 if g[pos] > 1 else g[pos] + 1
                emit(c, False, "changed-thin")
            continue
        emit(g, True, "full")
        for k, o in ((2, 0), (2, 1), (3, 0), (5, 1)):
            emit([0 if i % k == o else v for i, v in enumerate(g)], gi % 2 == 1, "thin")
        if sparse_ok:
            # one given per polyomino (first resp. last cell)
            emit([v if i in firsts else 0 for i, v in enumerate(g)], False, "one-per-polyomino")
            emit([v if i in lasts else 0 for i, v in enumerate(g)], True, "one-per-polyomino")
        if n <= 16 or line:
            emit([v if (i // w == h - 1 or i % w == w - 1) else 0 for i, v in enumerate(g)], False, "far-lines")
        for pos in [0, n - 1, (n // 2) & ~1, w - 1, n - w][: 5 if gi == 0 else 1]:
            for d in (1, -1):
                if g[pos] + d >= 1:
                    c = list(g)
                    c[pos] += d
                    if d == 1:
                        emit(c, False, "changed")
                    if half[pos]:
                        c = list(half)
                        c[pos] += d
                        emit(c, False, "changed-thin")
    return out


class Fillomino(base.Rule):
    name = "fillomino"

    def shapes(self, tier):
        s = [(1, 1), (1, 2), (2, 1), (1, 3), (3, 1), (2, 2), (1, 4), (4, 1), (2, 3), (3, 2), (3, 3)]
        if tier != "quick":
            s += [(1, 5), (5, 1), (2, 4), (4, 2), (3, 4), (4, 3)]
        level = 0 if tier == "quick" else 1
        big = [(4, 4), (5, 5), (4, 6), (6, 4), (1, 12), (12, 1)]
        if level:
            big += [(2, 7), (7, 2), (6, 6), (5, 6), (6, 5), (3, 7), (7, 3), (2, 10), (10, 2), (1, 16), (16, 1)]
        return s + [("large", h, w, level) for h, w in big]

    def instances(self, shape, cap):
        if shape[0] == "large":
            _, h, w, level = shape
            for cells, checkered, tag in large_instances(h, w, level):
                yield {"height": h, "width": w, "problem": base.grid(cells, h, w), "checkered": checkered, "family": "large"}
            return
        h, w = shape
        lays, k = base.layouts(h * w, 0, [1, 2, 3, 4], cap)
        for cells in lays:
            for checkered in (False, True):
                yield {"height": h, "width": w, "problem": base.grid(cells, h, w), "checkered": checkered}

    def call(self, p):
        from cspuz.puzzle import fillomino

        h, w = p["height"], p["width"]
        is_sat, size = fillomino.solve_fillomino(h, w, p["problem"], checkered=p["checkered"])
        return is_sat, [size[y, x].sol for y in range(h) for x in range(w)]

    def readings(self, p):
        h, w = p["height"], p["width"]
        if p.get("family") == "large":
            return [list(search(h, w, p["problem"], p["checkered"]))]
        given = [(y * w + x, p["problem"][y][x]) for y in range(h) for x in range(w) if p["problem"][y][x] >= 1]
        out = []
        for sizes, chk in candidates(h, w):
            if p["checkered"] and not chk:
                continue
            if all(sizes[k] == v for k, v in given):
                out.append(sizes)
        return [out]

    def example(self):
        problem = [
            [0, 0, 0, 5, 4, 0, 0, 0], [0, 0, 0, 4, 1, 3, 0, 0], [1, 0, 0, 0, 0, 0, 0, 4], [6, 0, 4, 0, 0, 0, 0, 7],
            [0, 5, 0, 0, 0, 0, 0, 0], [0, 0, 0, 0, 0, 0, 0, 2], [1, 0, 0, 0, 4, 0, 0, 7], [7, 0, 0, 6, 2, 0, 7, 0],
        ]
        return {"height": 8, "width": 8, "problem": problem, "checkered": False}, "cspuz/puzzle/fillomino.py _main() (too large to enumerate: solvability only)"


def selftest():
    for h, w in ((1, 3), (2, 2), (2, 3), (3, 2), (2, 4), (3, 3)):
        own = set(tuple(sorted(tuple(sorted(b)) for b in q)) for q in _own_partitions(h, w, 1))
        ref = set(tuple(sorted(tuple(sorted(tuple(c) for c in b)) for b in q)) for q in room_partitions(h, w, 1))
        assert own == ref, (h, w)
    # 1x2: only the domino (two monominoes would touch); 2x2: the square, 1+3 (4 ways); 2+2 and 1+1+2 touch
    assert [s for s, _ in candidates(1, 2)] == [(2, 2)]
    assert len(candidates(2, 2)) == 5
    # search() against the brute-force candidates() filter: clue-free, all layouts with <= 2 givens (1..5 and the board
    # size), and the large family built on the small board; plain and checkered
    for h, w in ((1, 1), (1, 2), (1, 4), (4, 1), (2, 2), (2, 3), (3, 2), (3, 3), (2, 4), (4, 2), (3, 4), (4, 3)):
        n = h * w
        cands = candidates(h, w)
        lays, k = base.layouts(n, 0, [1, 2, 3, 4, 5, n], 700)
        probs = [(cells, chk) for cells in lays for chk in (False, True)]
        probs += [(cells, chk) for cells, chk, tag in large_instances(h, w, 1)]
        for cells, chk in probs:
            given = [(i, v) for i, v in enumerate(cells) if v >= 1]
            ref = sorted(s for s, c in cands if (c or not chk) and all(s[i] == v for i, v in given))
            got = sorted(search(h, w, base.grid(cells, h, w), chk))
            assert got == ref, (h, w, cells, chk)
    assert len(list(search(4, 4, [[0] * 4 for _ in range(4)]))) == 259728
    # (search() also finds exactly one answer for the published 8x8 example, in about two minutes: not run here)


RULE = Fillomino()
