"""Fillomino (https://www.nikoli.co.jp/en/puzzles/fillomino/), with the "checkered" variant of cspuz.

Rules: divide the board into orthogonally connected polyominoes and write in every cell the size of its polyomino;
(1) a given number (problem[y][x] >= 1; 0 = blank) is kept; (2) two polyominoes of the same size never share an edge
(equivalently: the polyominoes are exactly the connected components of equal numbers and each component of number n has
n cells).  checkered=True adds: (3) the polyominoes can be painted with two colours so that polyominoes sharing an edge
always get different colours (the polyomino adjacency graph is 2-colourable).

problem = {"height", "width", "problem": grid of ints, "checkered": bool}
key order: size[y][x] row-major (y outer, x inner), int.

Cap rule: base.layouts over the cells with default 0 and alphabet 1..4 (all layouts with <= k givens, k maximal with at
most `cap` layouts); every layout is judged with checkered=False and with checkered=True.  Givens larger than the board
are kept in the alphabet (well-formed by format, simply unsolvable).
"""

from . import base
from .. import graphref

_PARTS = {}
_CANDS = {}


def _own_partitions(h, w, min_size):
    """Partitions of the h x w board into connected rooms of >= min_size cells (block of the smallest free cell first,
    grown as a connected subset).  Agrees with graphref.connected_partitions (selftest)."""
    out = []

    def nbrs(c):
        y, x = c
        for dy, dx in ((0, 1), (1, 0), (0, -1), (-1, 0)):
            if 0 <= y + dy < h and 0 <= x + dx < w:
                yield (y + dy, x + dx)

    def subsets(seed, free):
        res = []

        def grow(cur, frontier, banned):
            res.append(frozenset(cur))
            for i, c in enumerate(frontier):
                b2 = banned | set(frontier[:i])
                cur2 = cur | {c}
                f2 = list(frontier[i + 1 :])
                for d in nbrs(c):
                    if d in free and d not in cur2 and d not in b2 and d not in f2:
                        f2.append(d)
                grow(cur2, f2, b2)

        grow({seed}, [d for d in nbrs(seed) if d in free], set())
        return res

    def rec(free, acc):
        if not free:
            out.append(list(acc))
            return
        seed = min(free)
        for s in subsets(seed, free):
            rest = free - s
            if len(s) < min_size or 0 < len(rest) < min_size:
                continue
            rec(rest, acc + [s])

    rec(frozenset((y, x) for y in range(h) for x in range(w)), [])
    return out


def room_partitions(h, w, min_size=1):
    """Canonically ordered list of partitions; a partition is a list of rooms sorted by smallest cell, a room a sorted
    list of [y, x]."""
    key = (h, w, min_size)
    if key not in _PARTS:
        if h * w <= 9:
            raw = [
                [[(i // w, i % w) for i in b] for b in p]
                for p in graphref.connected_partitions(h * w, graphref.grid_edges(h, w))
                if all(len(b) >= min_size for b in p)
            ]
        else:
            raw = _own_partitions(h, w, min_size)
        canon = sorted(set(tuple(sorted(tuple(sorted(b)) for b in p)) for p in raw), key=lambda p: (len(p), p))
        _PARTS[key] = [[[list(c) for c in b] for b in p] for p in canon]
    return _PARTS[key]


def two_colourable(n, adj):
    colour = {}
    for s in range(n):
        if s in colour:
            continue
        colour[s] = 0
        stack = [s]
        while stack:
            a = stack.pop()
            for b in adj[a]:
                if b not in colour:
                    colour[b] = 1 - colour[a]
                    stack.append(b)
                elif colour[b] == colour[a]:
                    return False
    return True


def candidates(h, w):
    """Clue-independent answers: (size grid as a flat tuple, can be checkered) for every division into polyominoes in
    which equal-sized polyominoes do not touch."""
    if (h, w) in _CANDS:
        return _CANDS[(h, w)]
    out = []
    for part in room_partitions(h, w):
        poly = {}
        for i, b in enumerate(part):
            for y, x in b:
                poly[(y, x)] = i
        adj = [set() for _ in part]
        ok = True
        for (y, x), i in poly.items():
            for c2 in ((y, x + 1), (y + 1, x)):
                j = poly.get(c2)
                if j is not None and j != i:
                    if len(part[i]) == len(part[j]):
                        ok = False
                    adj[i].add(j)
                    adj[j].add(i)
        if not ok:
            continue
        sizes = tuple(len(part[poly[(y, x)]]) for y in range(h) for x in range(w))
        out.append((sizes, two_colourable(len(part), adj)))
    assert len(set(s for s, _ in out)) == len(out)
    _CANDS[(h, w)] = out
    return out


class Fillomino(base.Rule):
    name = "fillomino"

    def shapes(self, tier):
        s = [(1, 1), (1, 2), (2, 1), (1, 3), (3, 1), (2, 2), (1, 4), (4, 1), (2, 3), (3, 2), (3, 3)]
        if tier != "quick":
            s += [(1, 5), (5, 1), (2, 4), (4, 2), (3, 4), (4, 3)]
        return s

    def instances(self, shape, cap):
        h, w = shape
        lays, k = base.layouts(h * w, 0, [1, 2, 3, 4], cap)
        for cells in lays:
            for checkered in (False, True):
                yield {"height": h, "width": w, "problem": base.grid(cells, h, w), "checkered": checkered}

    def call(self, p):
        from cspuz.puzzle import fillomino

        h, w = p["height"], p["width"]
        is_sat, size = fillomino.solve_fillomino(h, w, p["problem"], checkered=p["checkered"])
        return is_sat, [size[y, x].sol for y in range(h) for x in range(w)]

    def readings(self, p):
        h, w = p["height"], p["width"]
        given = [(y * w + x, p["problem"][y][x]) for y in range(h) for x in range(w) if p["problem"][y][x] >= 1]
        out = []
        for sizes, chk in candidates(h, w):
            if p["checkered"] and not chk:
                continue
            if all(sizes[k] == v for k, v in given):
                out.append(sizes)
        return [out]

    def example(self):
        problem = [
            [0, 0, 0, 5, 4, 0, 0, 0], [0, 0, 0, 4, 1, 3, 0, 0], [1, 0, 0, 0, 0, 0, 0, 4], [6, 0, 4, 0, 0, 0, 0, 7],
            [0, 5, 0, 0, 0, 0, 0, 0], [0, 0, 0, 0, 0, 0, 0, 2], [1, 0, 0, 0, 4, 0, 0, 7], [7, 0, 0, 6, 2, 0, 7, 0],
        ]
        return {"height": 8, "width": 8, "problem": problem, "checkered": False}, "cspuz/puzzle/fillomino.py _main() (too large to enumerate: solvability only)"


def selftest():
    for h, w in ((1, 3), (2, 2), (2, 3), (3, 2), (2, 4), (3, 3)):
        own = set(tuple(sorted(tuple(sorted(b)) for b in q)) for q in _own_partitions(h, w, 1))
        ref = set(tuple(sorted(tuple(sorted(tuple(c) for c in b)) for b in q)) for q in room_partitions(h, w, 1))
        assert own == ref, (h, w)
    # 1x2: only the domino (two monominoes would touch); 2x2: the square, 1+3 (4 ways); 2+2 and 1+1+2 touch
    assert [s for s, _ in candidates(1, 2)] == [(2, 2)]
    assert len(candidates(2, 2)) == 5


RULE = Fillomino()
