"""Putteria (puzz.link "putteria").

Instance: the board is divided into orthogonally connected rooms (a partition of the board).  Rules: (1) write exactly
one number in every room, and the number is the room's size in cells; (2) cells holding numbers are never orthogonally
adjacent; (3) the same number never appears twice in a row or twice in a column.

problem = {"height", "width", "blocks": [[[y, x], ...], ...]}
key order: has_number[y][x] row-major (y outer, x inner), bool.

Cap rule (no clues, an instance is a room partition): all partitions of the board into connected rooms in canonical
order (by number of rooms, then by cells); when there are more than `cap`, every ceil(P/cap)-th one.

("large", h, w, level) shapes: larger boards with a small fixed set of room partitions - structured ones (stripes, bands,
dominoes, 2x2 / 2x3 / 3x3 blocks, a tiling by L-trominoes, nested L shapes (room sizes 4, 5, 7, 9, 11 ...), halves, the
whole board, the irregular partitions published in norinori.py (6x6) and lits.py (10x10) tiled over / cropped to the
board; putteria.py has no instance of its own), partitions grown around the number cells of an answer, "tight" partitions
(bars of cycling lengths laid in a snake over the board, the ones with the fewest answers - often exactly one), such
partitions with one cell moved to a neighbouring room, boards with two one-cell rooms far apart in one line (unsolvable
for that reason alone), on 1xN boards [a][N-2a][a] with two-digit a, and on some boards the partitions of a small block
(2x2, 2x3, 3x2, 3x3) placed in the far corner, the rest of the board being one room.  They are answered by search(), an exact room-by-room search;
selftest() compares it with the brute-force product.
"""

import itertools

from . import base
from .. import graphref

_PARTS = {}
_LARGE = {}
_SOLS = {}
LIMIT = 400000  # search() refuses to return more answers than this (harness error, never a verdict)
INST_CAP = 5000  # a partition with more answers than this is not used as a large instance
NODE_CAP = 200000  # ... nor one whose search tree is larger than this
NORINORI_EXAMPLE = ["001112", "111132", "413333", "415556", "777756", "888776"]
LITS_EXAMPLE = ["0000000222", "0010002222", "1113332222", "5563444288", "5663422228", "5663223338", "5633333338", "6673339aaa", "6773999aab", "77bbbbbbbb"]
QUICK = ("rows", "bands-2-rows", "blocks-2x3", "nested-l-far", "norinori-example", "lits-example", "halves", "staircase")


class TooMany(RuntimeError):
    pass


def _own_partitions(h, w, min_size):
    """Partitions of the h x w board into connected rooms of >= min_size cells (block of the smallest free cell first,
    grown as a connected subset).  Agrees with graphref.connected_partitions (selftest)."""
    out = []

    def nbrs(c):
        y, x = c
        for dy, dx in ((0, 1), (1, 0), (0, -1), (-1, 0)):
            if 0 <= y + dy < h and 0 <= x + dx < w:
                yield (y + dy, x + dx)

    def subsets(seed, free):
        res = []

        def grow(cur, frontier, banned):
            res.append(frozenset(cur))
            for i, c in enumerate(frontier):
                b2 = banned | set(frontier[:i])
                cur2 = cur | {c}
                f2 = list(frontier[i + 1 :])
                for d in nbrs(c):
                    if d in free and d not in cur2 and d not in b2 and d not in f2:
                        f2.append(d)
                grow(cur2, f2, b2)

        grow({seed}, [d for d in nbrs(seed) if d in free], set())
        return res

    def rec(free, acc):
        if not free:
            out.append(list(acc))
            return
        seed = min(free)
        for s in subsets(seed, free):
            rest = free - s
            if len(s) < min_size or 0 < len(rest) < min_size:
                continue
            rec(rest, acc + [s])

    rec(frozenset((y, x) for y in range(h) for x in range(w)), [])
    return out


def room_partitions(h, w, min_size=1):
    """Canonically ordered list of partitions; a partition is a list of rooms sorted by smallest cell, a room a sorted
    list of [y, x]."""
    key = (h, w, min_size)
    if key not in _PARTS:
        if h * w <= 9:
            raw = [
                [[(i // w, i % w) for i in b] for b in p]
                for p in graphref.connected_partitions(h * w, graphref.grid_edges(h, w))
                if all(len(b) >= min_size for b in p)
            ]
        else:
            raw = _own_partitions(h, w, min_size)
        canon = sorted(set(tuple(sorted(tuple(sorted(b)) for b in p)) for p in raw), key=lambda p: (len(p), p))
        _PARTS[key] = [[[list(c) for c in b] for b in p] for p in canon]
    return _PARTS[key]


def capped(items, cap):
    step = max(1, -(-len(items) // cap))
    return items[::step]


def search(h, w, rooms, limit=LIMIT, max_nodes=0):
    """All answers (row-major tuples, True = number cell) for the rooms (lists of (y, x)).

    Room by room (in order of their smallest cell) one cell is chosen for the number; a choice is refused when it is
    edge-adjacent to a number already placed, or when a number of the same value (= a room of the same size) already
    stands in its row or column.  Every rule concerns pairs of numbers, so this enumerates exactly the rule-obeying
    grids."""
    rooms = sorted(sorted((y, x) for y, x in r) for r in rooms)
    nr = len(rooms)
    taken = set()
    row_vals = [set() for _ in range(h)]
    col_vals = [set() for _ in range(w)]
    out = []
    nodes = [0]

    def rec(k):
        if k == nr:
            if len(out) >= limit:
                raise TooMany("putteria oracle: more than %d answers on %dx%d" % (limit, h, w))
            out.append(tuple((y, x) in taken for y in range(h) for x in range(w)))
            return
        n = len(rooms[k])
        for y, x in rooms[k]:
            nodes[0] += 1
            if max_nodes and nodes[0] > max_nodes:
                raise TooMany("putteria oracle: search budget exceeded on %dx%d" % (h, w))
            if n in row_vals[y] or n in col_vals[x]:
                continue
            if (y - 1, x) in taken or (y + 1, x) in taken or (y, x - 1) in taken or (y, x + 1) in taken:
                continue
            taken.add((y, x))
            row_vals[y].add(n)
            col_vals[x].add(n)
            rec(k + 1)
            taken.discard((y, x))
            row_vals[y].discard(n)
            col_vals[x].discard(n)

    rec(0)
    return out


# ---- room partitions of large boards (rooms = sorted lists of (y, x)) -----------------------------------------
def rooms_from_ids(h, w, f):
    """Group the cells by f(y, x); a group that is not orthogonally connected is split into its components."""
    groups = {}
    for y in range(h):
        for x in range(w):
            groups.setdefault(f(y, x), []).append((y, x))
    rooms = []
    for g in groups.values():
        rooms += [sorted(c) for c in base.components(g)]
    return sorted(rooms)


def structured(h, w):
    """Named structured partitions of the h x w board (duplicates removed)."""

    def ltile(y, x):  # 2x3 blocks, each cut into two L-trominoes
        return (y // 2, x // 3, (y % 2, x % 3) in ((0, 0), (1, 0), (1, 1)))

    fs = [
        ("rows", lambda y, x: y), ("columns", lambda y, x: x), ("bands-2-rows", lambda y, x: y // 2), ("bands-2-columns", lambda y, x: x // 2),
        ("blocks-2x2", lambda y, x: (y // 2, x // 2)), ("blocks-2x3", lambda y, x: (y // 2, x // 3)), ("blocks-3x2", lambda y, x: (y // 3, x // 2)),
        ("blocks-3x3", lambda y, x: (y // 3, x // 3)), ("l-trominoes", ltile), ("nested-l", lambda y, x: max(y, x, 1)),
        ("nested-l-far", lambda y, x: max(h - 1 - y, w - 1 - x, 1)),
        ("norinori-example", lambda y, x: (y // 6, x // 6, NORINORI_EXAMPLE[y % 6][x % 6])),
        ("lits-example", lambda y, x: (y // 10, x // 10, LITS_EXAMPLE[y % 10][x % 10])),
        ("lits-example-far", lambda y, x: LITS_EXAMPLE[(y + 10 - h) % 10][(x + 10 - w) % 10] if h <= 10 and w <= 10 else 0),
        ("whole", lambda y, x: 0), ("halves", lambda y, x: (2 * y >= h, 2 * x >= w)),
        ("blocks-2x2-shifted", lambda y, x: ((y + 1) // 2, (x + 1) // 2)), ("dominoes", lambda y, x: (y, x // 2)),
        ("staircase", lambda y, x: (y + x) // 2), ("singles", lambda y, x: (y, x)),
    ]
    out = []
    for name, f in fs:
        rooms = rooms_from_ids(h, w, f)
        if rooms not in [r for _, r in out]:
            out.append((name, rooms))
    return out


def snake_bars(h, w, seq, vertical=False, snake=True):
    """Rooms = bars whose lengths cycle through seq, laid along the rows - continuing backwards in the next row (snake)
    or cut at the row end - or, with vertical, along the columns."""
    if vertical:
        return sorted(sorted((x, y) for y, x in r) for r in snake_bars(w, h, seq, False, snake))
    ids = {}
    k, left, rid = 0, seq[0], 0
    for y in range(h):
        for x in range(w) if (not snake or y % 2 == 0) else range(w - 1, -1, -1):
            if left == 0:
                k += 1
                left = seq[k % len(seq)]
                rid += 1
            ids[(y, x)] = rid
            left -= 1
        if not snake:
            left = 0
    return rooms_from_ids(h, w, lambda y, x: ids[(y, x)])


def tight(h, w, k, sizes=(1, 2, 3, 4, 5), maxlen=3):
    """The k snake_bars partitions with the fewest (but at least one) answers, over all length sequences of at most
    maxlen terms: boards with many small rooms, where nearly every rule instance is needed to exclude something."""
    found = []
    seen = []
    for n in range(1, maxlen + 1):
        for seq in itertools.product(sizes, repeat=n):
            for vertical in (False, True):
                for snake in (True, False):
                    rooms = snake_bars(h, w, seq, vertical, snake)
                    if rooms in seen:
                        continue
                    seen.append(rooms)
                    try:
                        sols = search(h, w, rooms, 40, 20000)
                    except TooMany:
                        continue
                    if sols:
                        found.append((len(sols), len(found), rooms))
    found.sort()
    return [rooms for _, _, rooms in found[:k]]


def pair_rooms(h, w, a, b):
    """Two single-cell rooms a and b; the rest of the board is one room (or its components)."""
    return rooms_from_ids(h, w, lambda y, x: 1 if (y, x) == a else 2 if (y, x) == b else 0)


def voronoi(h, w, seeds):
    """One room per seed (a set of cells): breadth-first growth from all seeds at once, a free cell joins the room that
    reaches it first (seeds in the given order).  Every room is connected and contains its seed."""
    owner = {}
    queue = []
    for k, seed in enumerate(seeds):
        for c in sorted(seed):
            owner[c] = k
            queue.append(c)
    qi = 0
    while qi < len(queue):
        y, x = queue[qi]
        qi += 1
        for c in ((y - 1, x), (y, x - 1), (y, x + 1), (y + 1, x)):
            if 0 <= c[0] < h and 0 <= c[1] < w and c not in owner:
                owner[c] = owner[(y, x)]
                queue.append(c)
    return rooms_from_ids(h, w, lambda y, x: owner[(y, x)])


def spaced(items, k):
    """First, last and evenly spaced elements (k in total, fewer when there are fewer items)."""
    if len(items) <= k:
        return list(items)
    if k == 1:
        return [items[len(items) // 2]]
    return [items[(len(items) - 1) * j // (k - 1)] for j in range(k)]


def moved(h, w, rooms, k):
    """Up to k partitions obtained by moving one cell into a neighbouring room (the donor stays connected and non-empty):
    evenly spaced among all such moves in row-major order.  Both rooms change their number."""
    room_of = {c: i for i, r in enumerate(rooms) for c in r}
    moves = []
    for y in range(h):
        for x in range(w):
            for c in ((y, x + 1), (y + 1, x), (y, x - 1), (y - 1, x)):
                if c in room_of and room_of[c] != room_of[(y, x)]:
                    rest = [d for d in rooms[room_of[(y, x)]] if d != (y, x)]
                    if rest and base.cells_connected(rest):
                        moves.append(((y, x), room_of[c]))
    out = []
    for cell, dst in spaced(moves, k):
        rs = [[d for d in r if d != cell] for r in rooms]
        rs[dst] = sorted(rs[dst] + [cell])
        out.append(sorted(rs))
    return out


def cornered(h, w, bh, bw, part):
    """The partition part (rooms of (y, x)) of a bh x bw board placed in the far (bottom-right) corner of the h x w
    board; the rest of the board is one more room (its components, should it fall apart)."""
    where = {}
    for k, room in enumerate(part):
        for y, x in room:
            where[(y + h - bh, x + w - bw)] = k
    return rooms_from_ids(h, w, lambda y, x: where.get((y, x), -1))


def corner_family(h, w, level):
    """Every (thorough) / some (quick) partitions of a small block, in the far corner of the board."""
    plan = [(2, 3, 5), (3, 2, 5)] if level == 0 else [(2, 2, 12), (2, 3, 30), (3, 2, 30), (3, 3, 60)]
    out = []
    for bh, bw, k in plan:
        if bh < h and bw < w and h * w >= 24:
            for part in spaced(room_partitions(bh, bw), k):
                out.append(cornered(h, w, bh, bw, [[tuple(c) for c in b] for b in part]))
    return out


def large_instances(h, w, level):
    """The fixed instance set of a large board (cached: the driver asks for it once per shard)."""
    key = (h, w, level)
    if key in _LARGE:
        return _LARGE[key]
    out = []

    def add(rooms):
        if rooms in out:
            return None
        try:
            sols = search(h, w, rooms, INST_CAP, NODE_CAP)
        except TooMany:
            return None
        _SOLS[repr([[list(c) for c in r] for r in rooms])] = sols
        out.append(rooms)
        return sols

    pool = []  # answers of the structured partitions: the grids the derived partitions are built from
    named = structured(h, w)
    if level == 0:
        named = [(nm, r) for nm, r in named if nm in QUICK]
    for name, rooms in named:
        sols = add(rooms)
        if sols:
            pool += spaced(sols, 3)
    grids = []
    for g in pool:
        if g not in grids:
            grids.append(g)
    derived = []
    for g in spaced(grids, 1 if level == 0 else 8):
        part = voronoi(h, w, [[(i // w, i % w)] for i in range(h * w) if g[i]])
        if add(part) is not None:
            derived.append(part)
    tights = tight(h, w, 3 if level == 0 else 10, maxlen=3 if level == 0 else 4)
    for rooms in tights:
        add(rooms)
    for rooms in tights + derived[: 1 if level == 0 else 4] + [r for nm, r in named if nm in ("norinori-example", "lits-example", "blocks-2x3", "nested-l-far")][: 1 if level == 0 else 4]:
        for m in moved(h, w, rooms, 1 if level == 0 else 4):
            add(m)
    # two rooms of one cell (both hold a 1) far apart in one row / one column: unsolvable for that reason alone; and in
    # different rows and columns: solvable, both cells decided
    pairs = [((0, 0), (0, w - 1)), ((h - 1, 0), (h - 1, w - 1)), ((0, 0), (h - 1, 0)), ((0, w - 1), (h - 1, w - 1)), ((0, 0), (h - 1, w - 1)), ((h - 1, 0), (0, w - 1))]
    pairs += [((h - 1, w - 3), (h - 1, w - 1)), ((h - 3, w - 1), (h - 1, w - 1)), ((h // 2, 1), (h // 2, w - 2)), ((1, w // 2), (h - 2, w // 2))]
    for a, b in pairs[:: 2 if level == 0 else 1]:
        if a != b and all(0 <= c[0] < h and 0 <= c[1] < w for c in (a, b)):
            add(pair_rooms(h, w, a, b))
    if min(h, w) == 1:
        n = max(h, w)
        for a in (1, 2, 3, 9, 10, 11, 12, n // 2):  # [a][n - 2a][a]: the two outer rooms hold the same number in the only line
            if 2 * a <= n:
                add(rooms_from_ids(h, w, lambda y, x: 0 if max(y, x) < a else 2 if max(y, x) >= n - a else 1))
    if (h, w) in ((6, 6),) or (level > 0 and (h, w) in ((4, 6), (6, 4))):
        for rooms in corner_family(h, w, level):
            add(rooms)
    _LARGE[key] = [{"height": h, "width": w, "blocks": [[list(c) for c in r] for r in rooms]} for rooms in out]
    return _LARGE[key]


class Putteria(base.Rule):
    name = "putteria"

    def shapes(self, tier):
        s = [(1, 1), (1, 2), (2, 1), (1, 3), (3, 1), (2, 2), (1, 4), (4, 1), (2, 3), (3, 2), (3, 3)]
        if tier != "quick":
            s += [(1, 5), (5, 1), (2, 4), (4, 2), (2, 5), (5, 2), (3, 4), (4, 3)]
        big = [(6, 6), (4, 6), (6, 4), (1, 12), (12, 1), (2, 10), (10, 2), (1, 24), (24, 1)]
        if tier != "quick":
            big = [(4, 4), (5, 5)] + big + [(4, 5), (5, 4), (5, 6), (6, 5), (7, 7), (8, 8), (10, 10), (3, 8), (8, 3), (1, 16), (16, 1), (2, 12), (12, 2), (5, 8), (8, 5), (6, 12), (12, 6)]
        return s + [("large", h, w, 0 if tier == "quick" else 1) for h, w in big]

    def instances(self, shape, cap):
        if shape[0] == "large":
            for p in large_instances(shape[1], shape[2], shape[3]):
                yield p
            return
        h, w = shape
        for blocks in capped(room_partitions(h, w), cap):
            yield {"height": h, "width": w, "blocks": blocks}

    def call(self, p):
        from cspuz.puzzle import putteria

        h, w = p["height"], p["width"]
        blocks = [[(y, x) for y, x in b] for b in p["blocks"]]
        is_sat, has_number = putteria.solve_putteria(h, w, blocks)
        return is_sat, [has_number[y, x].sol for y in range(h) for x in range(w)]

    def readings(self, p):
        h, w = p["height"], p["width"]
        rooms = [[(y, x) for y, x in b] for b in p["blocks"]]
        if h * w > 12:
            key = repr(p["blocks"])  # answers computed while the instance set was built (same function)
            return [_SOLS[key] if key in _SOLS else search(h, w, rooms)]
        return [self.product(h, w, rooms)]

    def product(self, h, w, rooms):
        """The small-board oracle: every choice of one cell per room, tested against the rules."""
        out = []
        for pick in itertools.product(*rooms):  # the cell holding the number, one per room
            number = {c: len(rooms[i]) for i, c in enumerate(pick)}
            ok = True
            for (y, x), n in number.items():
                if (y, x + 1) in number or (y + 1, x) in number:
                    ok = False
                    break
                for (y2, x2), n2 in number.items():
                    if (y2, x2) != (y, x) and n2 == n and (y2 == y or x2 == x):
                        ok = False
                        break
                if not ok:
                    break
            if ok:
                out.append(tuple((y, x) in number for y in range(h) for x in range(w)))
        return out

    def example(self):
        return None  # cspuz/puzzle/putteria.py has no bundled instance


def selftest():
    for h, w in ((1, 3), (2, 2), (2, 3), (3, 2), (2, 4), (3, 3)):
        own = set(tuple(sorted(tuple(sorted(b)) for b in q)) for q in _own_partitions(h, w, 1))
        ref = set(tuple(sorted(tuple(sorted(tuple(c) for c in b)) for b in q)) for q in room_partitions(h, w, 1))
        assert own == ref, (h, w)
    # search() against the brute-force product: every partition of the small boards, structured / derived / moved ones
    # of the medium boards (where the product is still feasible)
    for h, w in ((1, 1), (1, 2), (2, 1), (1, 4), (2, 2), (2, 3), (3, 2), (3, 3), (2, 4), (4, 2)):
        for rooms in room_partitions(h, w):
            rs = [[tuple(c) for c in r] for r in rooms]
            assert sorted(search(h, w, rs)) == sorted(RULE.product(h, w, rs)), (h, w, rooms)
    for h, w in ((3, 4), (4, 3), (4, 4), (3, 6), (6, 3), (4, 5), (5, 4), (2, 8), (8, 2), (5, 5), (1, 12)):
        parts = [r for nm, r in structured(h, w) if nm != "singles"]
        for r in parts[:8]:
            parts += moved(h, w, r, 2)
        for rooms in parts:
            assert sorted(c for r in rooms for c in r) == [(y, x) for y in range(h) for x in range(w)]
            assert all(base.cells_connected(r) for r in rooms)
            size = 1
            for r in rooms:
                size *= len(r)
            if size > 300000:
                continue
            got = search(h, w, rooms)
            assert sorted(got) == sorted(RULE.product(h, w, rooms)), (h, w, rooms)


RULE = Putteria()
