"""Putteria (puzz.link "putteria").

Instance: the board is divided into orthogonally connected rooms (a partition of the board).  Rules: (1) write exactly
one number in every room, and the number is the room's size in cells; (2) cells holding numbers are never orthogonally
adjacent; (3) the same number never appears twice in a row or twice in a column.

problem = {"height", "width", "blocks": [[[y, x], ...], ...]}
key order: has_number[y][x] row-major (y outer, x inner), bool.

Cap rule (no clues, an instance is a room partition): all partitions of the board into connected rooms in canonical
order (by number of rooms, then by cells); when there are more than `cap`, every ceil(P/cap)-th one.
"""

import itertools

from . import base
from .. import graphref

_PARTS = {}


def _own_partitions(h, w, min_size):
    """Partitions of the h x w board into connected rooms of >= min_size cells (block of the smallest free cell first,
    grown as a connected subset).  Agrees with graphref.connected_partitions (selftest)."""
    out = []

    def nbrs(c):
        y, x = c
        for dy, dx in ((0, 1), (1, 0), (0, -1), (-1, 0)):
            if 0 <= y + dy < h and 0 <= x + dx < w:
                yield (y + dy, x + dx)

    def subsets(seed, free):
        res = []

        def grow(cur, frontier, banned):
            res.append(frozenset(cur))
            for i, c in enumerate(frontier):
                b2 = banned | set(frontier[:i])
                cur2 = cur | {c}
                f2 = list(frontier[i + 1 :])
                for d in nbrs(c):
                    if d in free and d not in cur2 and d not in b2 and d not in f2:
                        f2.append(d)
                grow(cur2, f2, b2)

        grow({seed}, [d for d in nbrs(seed) if d in free], set())
        return res

    def rec(free, acc):
        if not free:
            out.append(list(acc))
            return
        seed = min(free)
        for s in subsets(seed, free):
            rest = free - s
            if len(s) < min_size or 0 < len(rest) < min_size:
                continue
            rec(rest, acc + [s])

    rec(frozenset((y, x) for y in range(h) for x in range(w)), [])
    return out


def room_partitions(h, w, min_size=1):
    """Canonically ordered list of partitions; a partition is a list of rooms sorted by smallest cell, a room a sorted
    list of [y, x]."""
    key = (h, w, min_size)
    if key not in _PARTS:
        if h * w <= 9:
            raw = [
                [[(i // w, i % w) for i in b] for b in p]
                for p in graphref.connected_partitions(h * w, graphref.grid_edges(h, w))
                if all(len(b) >= min_size for b in p)
            ]
        else:
            raw = _own_partitions(h, w, min_size)
        canon = sorted(set(tuple(sorted(tuple(sorted(b)) for b in p)) for p in raw), key=lambda p: (len(p), p))
        _PARTS[key] = [[[list(c) for c in b] for b in p] for p in canon]
    return _PARTS[key]


def capped(items, cap):
    step = max(1, -(-len(items) // cap))
    return items[::step]


class Putteria(base.Rule):
    name = "putteria"

    def shapes(self, tier):
        s = [(1, 1), (1, 2), (2, 1), (1, 3), (3, 1), (2, 2), (1, 4), (4, 1), (2, 3), (3, 2), (3, 3)]
        if tier != "quick":
            s += [(1, 5), (5, 1), (2, 4), (4, 2), (2, 5), (5, 2), (3, 4), (4, 3)]
        return s

    def instances(self, shape, cap):
        h, w = shape
        for blocks in capped(room_partitions(h, w), cap):
            yield {"height": h, "width": w, "blocks": blocks}

    def call(self, p):
        from cspuz.puzzle import putteria

        h, w = p["height"], p["width"]
        blocks = [[(y, x) for y, x in b] for b in p["blocks"]]
        is_sat, has_number = putteria.solve_putteria(h, w, blocks)
        return is_sat, [has_number[y, x].sol for y in range(h) for x in range(w)]

    def readings(self, p):
        h, w = p["height"], p["width"]
        rooms = [[(y, x) for y, x in b] for b in p["blocks"]]
        out = []
        for pick in itertools.product(*rooms):  # the cell holding the number, one per room
            number = {c: len(rooms[i]) for i, c in enumerate(pick)}
            ok = True
            for (y, x), n in number.items():
                if (y, x + 1) in number or (y + 1, x) in number:
                    ok = False
                    break
                for (y2, x2), n2 in number.items():
                    if (y2, x2) != (y, x) and n2 == n and (y2 == y or x2 == x):
                        ok = False
                        break
                if not ok:
                    break
            if ok:
                out.append(tuple((y, x) in number for y in range(h) for x in range(w)))
        return [out]

    def example(self):
        return None  # cspuz/puzzle/putteria.py has no bundled instance


def selftest():
    for h, w in ((1, 3), (2, 2), (2, 3), (3, 2), (2, 4), (3, 3)):
        own = set(tuple(sorted(tuple(sorted(b)) for b in q)) for q in _own_partitions(h, w, 1))
        ref = set(tuple(sorted(tuple(sorted(tuple(c) for c in b)) for b in q)) for q in room_partitions(h, w, 1))
        assert own == ref, (h, w)


RULE = Putteria()
