"""LITS (https://www.nikoli.co.jp/en/puzzles/lits/, puzz.link "lits").

Instance: the board is divided into rooms (here: every room is orthogonally connected and has >= 4 cells; the rooms
partition the board).  Rules: (1) every room holds exactly one tetromino, i.e. exactly four black cells which are
orthogonally connected; (2) all black cells of the board are orthogonally connected; (3) no 2x2 square is entirely
black; (4) two tetrominoes of the same shape (L, I, T, S - rotations and reflections count as the same shape) never
share an edge.

problem = {"height", "width", "blocks": [[[y, x], ...], ...]}
key order: is_black[y][x] row-major (y outer, x inner), bool.

Cap rule (the puzzle has no clues, an instance is a room partition): all partitions of the board into connected rooms
of >= 4 cells in canonical order (by number of rooms, then by cells); when there are more than `cap`, every
ceil(P/cap)-th one.

("large", h, w, level) shapes: larger boards with a small fixed set of room partitions - structured ones (stripes, bands,
2x2 / 2x3 / 3x3 / 2x4 blocks, a tiling by L-tetrominoes, nested L shapes, halves, the whole board, the 10x10 partition
published in lits.py tiled over / cropped to the board; rooms of fewer than 4 cells are merged into a neighbour),
partitions derived from an answer (every tetromino of a rule-obeying grid gets the cells nearest to it, or the tetrominoes
grow one after the other, so that grid stays an answer), "tight" partitions (bars of cycling lengths laid in a snake over
the board, the ones with the fewest answers - often exactly one), such partitions with one cell moved to a neighbouring
room, and on some boards the partitions of a small block (3x3, 2x4, 4x2, 3x4, 4x3) placed in the far corner, the rest
of the board being one room.
They are answered by search(), an exact room-by-room search; selftest() compares it with the brute-force product.
"""

import itertools

from . import base
from .. import graphref

_PARTS = {}
_LARGE = {}
_SOLS = {}
LIMIT = 400000  # search() refuses to return more answers than this (harness error, never a verdict)
INST_CAP = 5000  # a partition with more answers than this is not used as a large instance
NODE_CAP = 60000  # ... nor one whose search tree is larger than this
EXAMPLE = ["0000000222", "0010002222", "1113332222", "5563444288", "5663422228", "5663223338", "5633333338", "6673339aaa", "6773999aab", "77bbbbbbbb"]
QUICK = ("bands-2-rows", "blocks-2x3", "nested-l-far", "example-tiled", "halves")


class TooMany(RuntimeError):
    pass


def _own_partitions(h, w, min_size):
    """Partitions of the h x w board into connected rooms of >= min_size cells (block of the smallest free cell first,
    grown as a connected subset).  Agrees with graphref.connected_partitions (selftest)."""
    out = []

    def nbrs(c):
        y, x = c
        for dy, dx in ((0, 1), (1, 0), (0, -1), (-1, 0)):
            if 0 <= y + dy < h and 0 <= x + dx < w:
                yield (y + dy, x + dx)

    def subsets(seed, free):
        res = []

        def grow(cur, frontier, banned):
            res.append(frozenset(cur))
            for i, c in enumerate(frontier):
                b2 = banned | set(frontier[:i])
                cur2 = cur | {c}
                f2 = list(frontier[i + 1 :])
                for d in nbrs(c):
                    if d in free and d not in cur2 and d not in b2 and d not in f2:
                        f2.append(d)
                grow(cur2, f2, b2)

        grow({seed}, [d for d in nbrs(seed) if d in free], set())
        return res

    def rec(free, acc):
        if not free:
            out.append(list(acc))
            return
        seed = min(free)
        for s in subsets(seed, free):
            rest = free - s
            if len(s) < min_size or 0 < len(rest) < min_size:
                continue
            rec(rest, acc + [s])

    rec(frozenset((y, x) for y in range(h) for x in range(w)), [])
    return out


def room_partitions(h, w, min_size=1):
    """Canonically ordered list of partitions; a partition is a list of rooms sorted by smallest cell, a room a sorted
    list of [y, x]."""
    key = (h, w, min_size)
    if key not in _PARTS:
        if h * w <= 9:
            raw = [
                [[(i // w, i % w) for i in b] for b in p]
                for p in graphref.connected_partitions(h * w, graphref.grid_edges(h, w))
                if all(len(b) >= min_size for b in p)
            ]
        else:
            raw = _own_partitions(h, w, min_size)
        canon = sorted(set(tuple(sorted(tuple(sorted(b)) for b in p)) for p in raw), key=lambda p: (len(p), p))
        _PARTS[key] = [[[list(c) for c in b] for b in p] for p in canon]
    return _PARTS[key]


def capped(items, cap):
    step = max(1, -(-len(items) // cap))
    return items[::step]


def shape_letter(cells):
    """Tetromino class of four cells up to rotation and reflection."""
    best = None
    for flip in (False, True):
        for rot in range(4):
            pts = []
            for y, x in cells:
                if flip:
                    x = -x
                for _ in range(rot):
                    y, x = x, -y
                pts.append((y, x))
            my = min(p[0] for p in pts)
            mx = min(p[1] for p in pts)
            norm = tuple(sorted((p[0] - my, p[1] - mx) for p in pts))
            if best is None or norm < best:
                best = norm
    return {
        ((0, 0), (0, 1), (0, 2), (0, 3)): "I",
        ((0, 0), (0, 1), (1, 0), (1, 1)): "O",
        ((0, 0), (0, 1), (0, 2), (1, 0)): "L",
        ((0, 0), (0, 1), (0, 2), (1, 1)): "T",
        ((0, 0), (0, 1), (1, 1), (1, 2)): "S",
    }[best]


def tetrominoes(room):
    """All sets of four orthogonally connected cells of the room, grown cell by cell from every cell."""
    room = set(room)
    level = set(frozenset([c]) for c in room)
    for _ in range(3):
        nxt = set()
        for s in level:
            for y, x in s:
                for c in ((y - 1, x), (y, x - 1), (y, x + 1), (y + 1, x)):
                    if c in room and c not in s:
                        nxt.add(s | {c})
        level = nxt
    return sorted(tuple(sorted(s)) for s in level)


def search(h, w, rooms, limit=LIMIT, max_nodes=0, ignore_shapes=False):
    """All answers (row-major tuples, True = black) for the rooms (lists of (y, x)).

    The rooms are visited in breadth-first order of the room adjacency; each gets one of its tetrominoes.  Cut when a
    2x2 black square appears, when two edge-adjacent tetrominoes have the same shape, and when some black component
    can no longer be joined to the rest (it touches no cell of a room that is still empty although other rooms exist
    outside it).  The final grid is tested for connectivity.  Only placements without a rule-obeying completion are
    cut, so the enumeration is complete."""
    rooms = [sorted((y, x) for y, x in r) for r in rooms]
    nr = len(rooms)
    room_of = {c: i for i, r in enumerate(rooms) for c in r}

    def nb(c):
        y, x = c
        return [d for d in ((y - 1, x), (y, x - 1), (y, x + 1), (y + 1, x)) if d in room_of]

    adj = [set() for _ in range(nr)]
    for c in room_of:
        for d in nb(c):
            if room_of[d] != room_of[c]:
                adj[room_of[c]].add(room_of[d])
    order = []
    seen = set()
    for s in range(nr):
        if s in seen:
            continue
        seen.add(s)
        queue = [s]
        while queue:
            r = queue.pop(0)
            order.append(r)
            for t in sorted(adj[r]):
                if t not in seen:
                    seen.add(t)
                    queue.append(t)
    cands = [[(t, shape_letter(t)) for t in tetrominoes(r)] for r in rooms]
    black = {}  # cell -> room whose tetromino covers it
    letter = [None] * nr
    out = []
    nodes = [0]

    def stranded(placed):
        """A black component that touches no cell of an empty room while it is not the whole picture."""
        if placed == nr:
            return not base.cells_connected(black)
        comps = base.components(black)
        for comp in comps:
            if not any(room_of[d] != room_of[c] and letter[room_of[d]] is None for c in comp for d in nb(c)):
                return True  # it cannot grow, and at least one more tetromino is still to come
        return False

    def rec(k):
        if k == nr:
            if len(out) >= limit:
                raise TooMany("lits oracle: more than %d answers on %dx%d" % (limit, h, w))
            out.append(tuple((y, x) in black for y in range(h) for x in range(w)))
            return
        r = order[k]
        for cells, let in cands[r]:
            nodes[0] += 1
            if max_nodes and nodes[0] > max_nodes:
                raise TooMany("lits oracle: search budget exceeded on %dx%d" % (h, w))
            if let == "O":
                continue  # a 2x2 black square
            ok = True
            for c in cells:
                for d in nb(c):
                    if d in black and letter[black[d]] == let and not ignore_shapes:
                        ok = False  # (ignore_shapes is used only to *select* instances on which this rule decides)
            if not ok:
                continue
            for c in cells:
                black[c] = r
            letter[r] = let
            bad = False
            for y, x in cells:
                for y0, x0 in ((y - 1, x - 1), (y - 1, x), (y, x - 1), (y, x)):
                    if (y0, x0) in black and (y0 + 1, x0) in black and (y0, x0 + 1) in black and (y0 + 1, x0 + 1) in black:
                        bad = True
            if not bad and not stranded(k + 1):
                rec(k + 1)
            letter[r] = None
            for c in cells:
                del black[c]

    rec(0)
    return out


# ---- room partitions of large boards (rooms = sorted lists of (y, x)) -----------------------------------------
def rooms_from_ids(h, w, f):
    """Group the cells by f(y, x); a group that is not orthogonally connected is split into its components."""
    groups = {}
    for y in range(h):
        for x in range(w):
            groups.setdefault(f(y, x), []).append((y, x))
    rooms = []
    for g in groups.values():
        rooms += [sorted(c) for c in base.components(g)]
    return sorted(rooms)


def merge_small(rooms, min_size=4):
    """Rooms of fewer than min_size cells are merged (smallest first) into their first edge-adjacent room."""
    rooms = sorted(sorted(r) for r in rooms)
    while len(rooms) > 1:
        small = [r for r in rooms if len(r) < min_size]
        if not small:
            break
        r = min(small, key=lambda q: (len(q), q))
        cells = set(r)
        for other in rooms:
            if other is not r and any((y + dy, x + dx) in cells for y, x in other for dy, dx in ((0, 1), (1, 0), (0, -1), (-1, 0))):
                rooms = sorted([q for q in rooms if q is not r and q is not other] + [sorted(r + other)])
                break
    return rooms


def structured(h, w):
    """Named structured partitions of the h x w board into rooms of >= 4 cells (duplicates removed)."""

    def ltile(y, x):  # 2x4 blocks, each cut into two L-tetrominoes
        return (y // 2, x // 4, (y % 2, x % 4) in ((0, 0), (1, 0), (1, 1), (1, 2)))

    fs = [
        ("rows", lambda y, x: y), ("columns", lambda y, x: x), ("bands-2-rows", lambda y, x: y // 2), ("bands-2-columns", lambda y, x: x // 2),
        ("blocks-2x2", lambda y, x: (y // 2, x // 2)), ("blocks-2x3", lambda y, x: (y // 2, x // 3)), ("blocks-3x2", lambda y, x: (y // 3, x // 2)),
        ("blocks-3x3", lambda y, x: (y // 3, x // 3)), ("blocks-2x4", lambda y, x: (y // 2, x // 4)), ("l-tetrominoes", ltile),
        ("nested-l", lambda y, x: max(y, x, 2)), ("nested-l-far", lambda y, x: max(h - 1 - y, w - 1 - x, 2)),
        ("example-tiled", lambda y, x: (y // 10, x // 10, EXAMPLE[y % 10][x % 10])), ("whole", lambda y, x: 0),
        ("halves", lambda y, x: (2 * y >= h, 2 * x >= w)), ("blocks-3x3-shifted", lambda y, x: ((y + 1) // 3, (x + 2) // 3)),
        ("example-far", lambda y, x: EXAMPLE[(y + 10 - h) % 10][(x + 10 - w) % 10] if h <= 10 and w <= 10 else 0),
    ]
    out = []
    for name, f in fs:
        rooms = merge_small(rooms_from_ids(h, w, f))
        if rooms not in [r for _, r in out]:
            out.append((name, rooms))
    return out


def snake_bars(h, w, seq, vertical=False, snake=True):
    """Rooms = bars whose lengths cycle through seq, laid along the rows - continuing backwards in the next row (snake)
    or cut at the row end - or, with vertical, along the columns."""
    if vertical:
        return sorted(sorted((x, y) for y, x in r) for r in snake_bars(w, h, seq, False, snake))
    ids = {}
    k, left, rid = 0, seq[0], 0
    for y in range(h):
        for x in range(w) if (not snake or y % 2 == 0) else range(w - 1, -1, -1):
            if left == 0:
                k += 1
                left = seq[k % len(seq)]
                rid += 1
            ids[(y, x)] = rid
            left -= 1
        if not snake:
            left = 0
    return merge_small(rooms_from_ids(h, w, lambda y, x: ids[(y, x)]))


def tight(h, w, k, sizes=(4, 5, 6, 7, 8), maxlen=3):
    """The k snake_bars partitions with the fewest (but at least one) answers, over all length sequences of at most
    maxlen terms: boards with many small rooms, where nearly every rule instance is needed to exclude something."""
    found = []
    seen = []
    for n in range(1, maxlen + 1):
        for seq in itertools.product(sizes, repeat=n):
            for vertical in (False, True):
                for snake in (True, False):
                    rooms = snake_bars(h, w, seq, vertical, snake)
                    if rooms in seen:
                        continue
                    seen.append(rooms)
                    try:
                        sols = search(h, w, rooms, 40, 5000)
                    except TooMany:
                        continue
                    if sols:
                        found.append((len(sols), len(found), rooms))
    found.sort()
    return [rooms for _, _, rooms in found[:k]]


def voronoi(h, w, seeds):
    """One room per seed (a set of cells): breadth-first growth from all seeds at once, a free cell joins the room that
    reaches it first (seeds in the given order).  Every room is connected and contains its seed."""
    owner = {}
    queue = []
    for k, seed in enumerate(seeds):
        for c in sorted(seed):
            owner[c] = k
            queue.append(c)
    qi = 0
    while qi < len(queue):
        y, x = queue[qi]
        qi += 1
        for c in ((y - 1, x), (y, x - 1), (y, x + 1), (y + 1, x)):
            if 0 <= c[0] < h and 0 <= c[1] < w and c not in owner:
                owner[c] = owner[(y, x)]
                queue.append(c)
    return rooms_from_ids(h, w, lambda y, x: owner[(y, x)])


def grown(h, w, seeds):
    """One room per seed, grown one after the other: the first seed takes every free cell it can reach, then the second
    one ...  (most rooms stay as small as their seed).  Every room is connected and contains its seed."""
    owner = {}
    for k, seed in enumerate(seeds):
        for c in seed:
            owner[c] = k
    for k, seed in enumerate(seeds):
        queue = sorted(seed)
        qi = 0
        while qi < len(queue):
            y, x = queue[qi]
            qi += 1
            for c in ((y - 1, x), (y, x - 1), (y, x + 1), (y + 1, x)):
                if 0 <= c[0] < h and 0 <= c[1] < w and c not in owner:
                    owner[c] = k
                    queue.append(c)
    return rooms_from_ids(h, w, lambda y, x: owner[(y, x)])


def spaced(items, k):
    """First, last and evenly spaced elements (k in total, fewer when there are fewer items)."""
    if len(items) <= k:
        return list(items)
    if k == 1:
        return [items[len(items) // 2]]
    return [items[(len(items) - 1) * j // (k - 1)] for j in range(k)]


def moved(h, w, rooms, k, min_size=4):
    """Up to k partitions obtained by moving one cell into a neighbouring room (the donor stays connected and keeps
    min_size cells): evenly spaced among all such moves in row-major order."""
    room_of = {c: i for i, r in enumerate(rooms) for c in r}
    moves = []
    for y in range(h):
        for x in range(w):
            for c in ((y, x + 1), (y + 1, x), (y, x - 1), (y - 1, x)):
                if c in room_of and room_of[c] != room_of[(y, x)]:
                    rest = [d for d in rooms[room_of[(y, x)]] if d != (y, x)]
                    if len(rest) >= min_size and base.cells_connected(rest):
                        moves.append(((y, x), room_of[c]))
    out = []
    for cell, dst in spaced(moves, k):
        rs = [[d for d in r if d != cell] for r in rooms]
        rs[dst] = sorted(rs[dst] + [cell])
        out.append(sorted(rs))
    return out


def cornered(h, w, bh, bw, part):
    """The partition part (rooms of (y, x)) of a bh x bw board placed in the far (bottom-right) corner of the h x w
    board; the rest of the board is one more room (its components, should it fall apart)."""
    where = {}
    for k, room in enumerate(part):
        for y, x in room:
            where[(y + h - bh, x + w - bw)] = k
    return merge_small(rooms_from_ids(h, w, lambda y, x: where.get((y, x), -1)))


def corner_family(h, w, level):
    """Every (thorough) / some (quick) partitions (rooms of >= 4 cells) of a small block, in the far corner of the board."""
    plan = [(3, 3, 4)] if level == 0 else [(3, 3, 17), (2, 4, 5), (4, 2, 5), (3, 4, 20), (4, 3, 20)]
    out = []
    for bh, bw, k in plan:
        if bh < h and bw < w and h * w >= 24:
            for part in spaced(room_partitions(bh, bw, 4), k):
                out.append(cornered(h, w, bh, bw, [[tuple(c) for c in b] for b in part]))
    return out


def large_instances(h, w, level):
    """The fixed instance set of a large board (cached: the driver asks for it once per shard)."""
    key = (h, w, level)
    if key in _LARGE:
        return _LARGE[key]
    out = []

    def add(rooms):
        if rooms in out:
            return None
        try:
            sols = search(h, w, rooms, INST_CAP, NODE_CAP)
        except TooMany:
            return None
        _SOLS[repr([[list(c) for c in r] for r in rooms])] = sols
        out.append(rooms)
        return sols

    pool = []  # (answer, rooms it belongs to): the grids the derived partitions are built from
    named = structured(h, w)
    if level == 0:
        named = [(nm, r) for nm, r in named if nm in QUICK]
    if h * w >= 100:
        named = [(nm, r) for nm, r in named if nm == "example-tiled"]  # anything looser is far too slow to enumerate
    for name, rooms in named:
        sols = add(rooms)
        if sols:
            pool += [(g, rooms) for g in spaced(sols, 3)]
    grids = []
    for g, rooms in pool:
        if g not in [q for q, _ in grids]:
            grids.append((g, rooms))
    derived = []
    for g, rooms in spaced(grids, 1 if level == 0 else 6):
        seeds = sorted(sorted(c for c in r if g[c[0] * w + c[1]]) for r in rooms)  # the tetrominoes of the answer
        for part in (voronoi(h, w, seeds), grown(h, w, seeds), grown(h, w, seeds[::-1]))[: 2 if level == 0 else 3]:
            if add(part) is not None:
                derived.append(part)
    tights = [] if h * w >= 100 else tight(h, w, 2 if level == 0 else 8, maxlen=2 if level == 0 else 3)
    for rooms in tights:
        add(rooms)
    for rooms in tights + derived[: 1 if level == 0 else 6] + [r for nm, r in named if nm in ("example-tiled", "blocks-2x3", "halves")][: 0 if level == 0 else 3]:
        for m in moved(h, w, rooms, 1 if level == 0 else 4):
            add(m)
    if (h, w) in ((6, 6),) or (level > 0 and (h, w) in ((4, 6), (6, 4))):
        for rooms in corner_family(h, w, level):
            add(rooms)
    _LARGE[key] = [{"height": h, "width": w, "blocks": [[list(c) for c in r] for r in rooms]} for rooms in out]
    return _LARGE[key]


def fat_instances(h, w, level):
    """Rooms with *interior* cells (a cell whose four neighbours lie in the same room: a plus, a 3x3 block): the only
    rooms in which a T-tetromino can sit on such a cell.  A fat seed at every interior position, the rest of the board
    cut by nearest-seed growth from corner / side seeds, and by one-after-the-other growth."""
    key = ("fat", h, w, level)
    if key in _LARGE:
        return _LARGE[key]
    out = []

    def add(rooms):
        if rooms in out or any(len(r) < 4 for r in rooms):
            return
        try:
            sols = search(h, w, rooms, INST_CAP, NODE_CAP)
        except TooMany:
            return
        _SOLS[repr([[list(c) for c in r] for r in rooms])] = sols
        out.append(rooms)

    corners = [[(0, 0)], [(0, w - 1)], [(h - 1, 0)], [(h - 1, w - 1)]]
    sides = [[(0, w // 2)], [(h - 1, w // 2)]]
    centres = [(y, x) for y in range(1, h - 1) for x in range(1, w - 1)]
    if level == 0:
        centres = centres[:: max(1, len(centres) // 4)]
    for (cy, cx) in centres:
        plus = [(cy, cx), (cy - 1, cx), (cy + 1, cx), (cy, cx - 1), (cy, cx + 1)]
        block = [(cy + dy, cx + dx) for dy in (-1, 0, 1) for dx in (-1, 0, 1)]
        for fat in (plus, block):
            for others in (corners, sides, corners[:2], [corners[0], corners[3]]):
                seeds = [fat] + [o for o in others if o[0] not in fat]
                add(voronoi(h, w, seeds))
                add(grown(h, w, seeds[::-1]))
                if level > 0:
                    add(grown(h, w, seeds))
                    add(voronoi(h, w, seeds[::-1]))
    _LARGE[key] = [{"height": h, "width": w, "blocks": [[list(c) for c in r] for r in rooms]} for rooms in out]
    return _LARGE[key]


TETRO = {
    "I": [(0, 0), (0, 1), (0, 2), (0, 3)],
    "L": [(0, 0), (1, 0), (2, 0), (2, 1)],
    "T": [(0, 0), (0, 1), (0, 2), (1, 1)],
    "S": [(0, 1), (0, 2), (1, 0), (1, 1)],
}


def orientations(cells):
    out = []
    cur = list(cells)
    for flip in (False, True):
        for _ in range(4):
            cur = [(x, -y) for (y, x) in cur]  # rotate
            my, mx = min(c[0] for c in cur), min(c[1] for c in cur)
            norm = sorted((y - my, x - mx) for (y, x) in cur)
            if norm not in out:
                out.append(norm)
        cur = [(y, -x) for (y, x) in cur]
    return out


def forced_pair_instances(h, w, level):
    """Two rooms that are exactly tetromino-shaped (so their shapes are forced) sharing an edge, every ordered pair of
    shapes in every orientation, the rest of the board cut into its connected pieces (each at least four cells):
    the same-shape rule is decided by the two forced rooms alone."""
    key = ("pairs", h, w, level)
    if key in _LARGE:
        return _LARGE[key]
    found = {}
    cells = [(y, x) for y in range(h) for x in range(w)]
    for an, a0 in TETRO.items():
        for ao in orientations(a0):
            for (ay, ax) in cells:
                A = [(ay + y, ax + x) for (y, x) in ao]
                if any(not (0 <= y < h and 0 <= x < w) for (y, x) in A):
                    continue
                for bn, b0 in TETRO.items():
                    for bo in orientations(b0):
                        for (by, bx) in cells:
                            B = [(by + y, bx + x) for (y, x) in bo]
                            if any(not (0 <= y < h and 0 <= x < w) for (y, x) in B) or set(A) & set(B):
                                continue
                            if not any(abs(p[0] - q[0]) + abs(p[1] - q[1]) == 1 for p in A for q in B):
                                continue
                            rest = [c for c in cells if c not in A and c not in B]
                            comps = [sorted(c) for c in base.components(rest)]
                            if not comps or any(len(c) < 4 for c in comps):
                                continue
                            rooms = sorted([sorted(A), sorted(B)] + comps)
                            found.setdefault((an, bn), [])
                            if rooms not in found[(an, bn)]:
                                found[(an, bn)].append(rooms)
    out = []
    per = 2 if level == 0 else 12
    for pair in sorted(found):
        picked = []
        if pair[0] == pair[1]:
            # same forced shape on both sides: prefer layouts on which nothing but the same-shape rule forbids an answer
            for rooms in found[pair]:
                if len(picked) >= per:
                    break
                try:
                    if search(h, w, rooms, INST_CAP, NODE_CAP, ignore_shapes=True) and not search(h, w, rooms, INST_CAP, NODE_CAP):
                        picked.append(rooms)
                except TooMany:
                    continue
        for rooms in picked + spaced(found[pair], per):
            if rooms in out:
                continue
            try:
                sols = search(h, w, rooms, INST_CAP, NODE_CAP)
            except TooMany:
                continue
            _SOLS[repr([[list(c) for c in r] for r in rooms])] = sols
            out.append(rooms)
    _LARGE[key] = [{"height": h, "width": w, "blocks": [[list(c) for c in r] for r in rooms]} for rooms in out]
    return _LARGE[key]


class Lits(base.Rule):
    name = "lits"

    def shapes(self, tier):
        s = [(1, 4), (4, 1), (2, 2), (1, 5), (5, 1), (2, 3), (3, 2), (2, 4), (4, 2), (3, 3), (3, 4), (4, 3)]
        if tier != "quick":
            s += [(1, 8), (8, 1), (1, 9), (9, 1), (2, 5), (5, 2), (2, 6), (6, 2), (3, 5), (5, 3), (4, 4)]
        big = [(6, 6), (4, 6), (6, 4), (1, 12), (12, 1), (2, 10), (10, 2)]
        if tier != "quick":
            big = [(4, 4), (5, 5)] + big + [(10, 10), (4, 5), (5, 4), (5, 6), (6, 5), (7, 7), (8, 8), (3, 8), (8, 3), (1, 16), (16, 1), (2, 12), (12, 2), (5, 8), (8, 5)]
        fat = [(4, 5), (5, 4), (5, 5)] if tier == "quick" else [(4, 4), (4, 5), (5, 4), (5, 5), (5, 6), (6, 5), (6, 6), (4, 7), (7, 4)]
        pairs = [(3, 6), (4, 5)] if tier == "quick" else [(3, 6), (6, 3), (4, 5), (5, 4), (4, 6), (5, 5)]
        return s + [("large", h, w, 0 if tier == "quick" else 1) for h, w in big] + [("fat", h, w, 0 if tier == "quick" else 1) for h, w in fat] + \
            [("pairs", h, w, 0 if tier == "quick" else 1) for h, w in pairs]

    def instances(self, shape, cap):
        if shape[0] == "large":
            for p in large_instances(shape[1], shape[2], shape[3]):
                yield p
            return
        if shape[0] == "pairs":
            for p in forced_pair_instances(shape[1], shape[2], shape[3]):
                yield p
            return
        if shape[0] == "fat":
            for p in fat_instances(shape[1], shape[2], shape[3]):
                yield p
            return
        h, w = shape
        for blocks in capped(room_partitions(h, w, 4), cap):
            yield {"height": h, "width": w, "blocks": blocks}

    def call(self, p):
        from cspuz.puzzle import lits

        h, w = p["height"], p["width"]
        blocks = [[(y, x) for y, x in b] for b in p["blocks"]]
        is_sat, is_black = lits.solve_lits(h, w, blocks)
        return is_sat, [is_black[y, x].sol for y in range(h) for x in range(w)]

    def readings(self, p):
        h, w = p["height"], p["width"]
        rooms = [[(y, x) for y, x in b] for b in p["blocks"]]
        if h * w > 16:
            key = repr(p["blocks"])  # answers computed while the instance set was built (same function)
            return [_SOLS[key] if key in _SOLS else search(h, w, rooms)]
        return [self.product(h, w, rooms)]

    def product(self, h, w, rooms):
        """The small-board oracle: every choice of one connected four-cell set per room, tested against the rules."""
        room_of = {}
        for i, b in enumerate(rooms):
            for c in b:
                room_of[c] = i
        # candidate tetrominoes per room: four cells of the room, orthogonally connected
        cands = []
        for b in rooms:
            cs = []
            for four in itertools.combinations(sorted(b), 4):
                if base.cells_connected(four):
                    cs.append((frozenset(four), shape_letter(four)))
            cands.append(cs)
        cross = []  # adjacent cell pairs lying in different rooms
        for y in range(h):
            for x in range(w):
                for c2 in ((y, x + 1), (y + 1, x)):
                    if c2 in room_of and room_of[c2] != room_of[(y, x)]:
                        cross.append(((y, x), c2))
        out = []
        for choice in itertools.product(*cands):
            black = set()
            for four, _ in choice:
                black |= four
            if base.has_2x2(black, h, w):
                continue
            if not base.cells_connected(black):
                continue
            ok = True
            for a, b in cross:
                if a in black and b in black and choice[room_of[a]][1] == choice[room_of[b]][1]:
                    ok = False
                    break
            if ok:
                out.append(tuple((y, x) in black for y in range(h) for x in range(w)))
        return out

    def example(self):
        b = EXAMPLE
        rooms = {}
        for y in range(10):
            for x in range(10):
                rooms.setdefault(b[y][x], []).append([y, x])
        return {"height": 10, "width": 10, "blocks": list(rooms.values())}, "cspuz/puzzle/lits.py _main() (too large to enumerate: solvability only)"


def selftest():
    for h, w in ((1, 3), (2, 2), (2, 3), (3, 2), (2, 4), (3, 3)):
        for m in (1, 2, 4):
            own = set(tuple(sorted(tuple(sorted(b)) for b in q)) for q in _own_partitions(h, w, m))
            ref = set(tuple(sorted(tuple(sorted(tuple(c) for c in b)) for b in q)) for q in room_partitions(h, w, m))
            assert own == ref, (h, w, m)
    assert shape_letter([(0, 0), (1, 0), (1, 1), (2, 1)]) == "S" and shape_letter([(0, 1), (1, 1), (2, 1), (2, 0)]) == "L"
    assert shape_letter([(0, 1), (1, 0), (1, 1), (1, 2)]) == "T" and shape_letter([(0, 0), (1, 0), (2, 0), (3, 0)]) == "I"
    # search() against the brute-force product: every partition of the small boards, structured / derived / moved ones
    # of the medium boards
    for h, w in ((1, 4), (2, 2), (1, 5), (2, 3), (3, 2), (2, 4), (4, 2), (3, 3), (3, 4), (4, 3), (1, 9), (2, 5), (5, 2)):
        for rooms in room_partitions(h, w, 4):
            rs = [[tuple(c) for c in r] for r in rooms]
            assert sorted(search(h, w, rs)) == sorted(RULE.product(h, w, rs)), (h, w, rooms)
    for h, w in ((4, 4), (3, 6), (6, 3), (4, 5), (5, 4), (2, 8), (8, 2), (5, 5)):
        parts = [r for _, r in structured(h, w)]
        for r in parts[:8]:
            parts += moved(h, w, r, 2)
        for rooms in parts:
            assert sorted(c for r in rooms for c in r) == [(y, x) for y in range(h) for x in range(w)]
            assert all(base.cells_connected(r) and (len(r) >= 4 or len(rooms) == 1) for r in rooms)
            got = search(h, w, rooms)
            assert sorted(got) == sorted(RULE.product(h, w, rooms)), (h, w, rooms)
            for g in got[:2]:  # a partition derived from an answer keeps that answer
                seeds = sorted(sorted(c for c in r if g[c[0] * w + c[1]]) for r in rooms)
                for v in (voronoi(h, w, seeds), grown(h, w, seeds)):
                    assert all(base.cells_connected(r) for r in v) and g in search(h, w, v)
    assert sorted(tetrominoes([(y, x) for y in range(3) for x in range(3)])) == sorted(
        tuple(sorted(f)) for f in itertools.combinations([(y, x) for y in range(3) for x in range(3)], 4) if base.cells_connected(f)
    )


RULE = Lits()
