"""LITS (https://www.nikoli.co.jp/en/puzzles/lits/, puzz.link "lits").

Instance: the board is divided into rooms (here: every room is orthogonally connected and has >= 4 cells; the rooms
partition the board).  Rules: (1) every room holds exactly one tetromino, i.e. exactly four black cells which are
orthogonally connected; (2) all black cells of the board are orthogonally connected; (3) no 2x2 square is entirely
black; (4) two tetrominoes of the same shape (L, I, T, S - rotations and reflections count as the same shape) never
share an edge.

problem = {"height", "width", "blocks": [[[y, x], ...], ...]}
key order: is_black[y][x] row-major (y outer, x inner), bool.

Cap rule (the puzzle has no clues, an instance is a room partition): all partitions of the board into connected rooms
of >= 4 cells in canonical order (by number of rooms, then by cells); when there are more than `cap`, every
ceil(P/cap)-th one.
"""

import itertools

from . import base
from .. import graphref

_PARTS = {}


def _own_partitions(h, w, min_size):
    """Partitions of the h x w board into connected rooms of >= min_size cells (block of the smallest free cell first,
    grown as a connected subset).  Agrees with graphref.connected_partitions (selftest)."""
    out = []

    def nbrs(c):
        y, x = c
        for dy, dx in ((0, 1), (1, 0), (0, -1), (-1, 0)):
            if 0 <= y + dy < h and 0 <= x + dx < w:
                yield (y + dy, x + dx)

    def subsets(seed, free):
        res = []

        def grow(cur, frontier, banned):
            res.append(frozenset(cur))
            for i, c in enumerate(frontier):
                b2 = banned | set(frontier[:i])
                cur2 = cur | {c}
                f2 = list(frontier[i + 1 :])
                for d in nbrs(c):
                    if d in free and d not in cur2 and d not in b2 and d not in f2:
                        f2.append(d)
                grow(cur2, f2, b2)

        grow({seed}, [d for d in nbrs(seed) if d in free], set())
        return res

    def rec(free, acc):
        if not free:
            out.append(list(acc))
            return
        seed = min(free)
        for s in subsets(seed, free):
            rest = free - s
            if len(s) < min_size or 0 < len(rest) < min_size:
                continue
            rec(rest, acc + [s])

    rec(frozenset((y, x) for y in range(h) for x in range(w)), [])
    return out


def room_partitions(h, w, min_size=1):
    """Canonically ordered list of partitions; a partition is a list of rooms sorted by smallest cell, a room a sorted
    list of [y, x]."""
    key = (h, w, min_size)
    if key not in _PARTS:
        if h * w <= 9:
            raw = [
                [[(i // w, i % w) for i in b] for b in p]
                for p in graphref.connected_partitions(h * w, graphref.grid_edges(h, w))
                if all(len(b) >= min_size for b in p)
            ]
        else:
            raw = _own_partitions(h, w, min_size)
        canon = sorted(set(tuple(sorted(tuple(sorted(b)) for b in p)) for p in raw), key=lambda p: (len(p), p))
        _PARTS[key] = [[[list(c) for c in b] for b in p] for p in canon]
    return _PARTS[key]


def capped(items, cap):
    step = max(1, -(-len(items) // cap))
    return items[::step]


def shape_letter(cells):
    """Tetromino class of four cells up to rotation and reflection."""
    best = None
    for flip in (False, True):
        for rot in range(4):
            pts = []
            for y, x in cells:
                if flip:
                    x = -x
                for _ in range(rot):
                    y, x = x, -y
                pts.append((y, x))
            my = min(p[0] for p in pts)
            mx = min(p[1] for p in pts)
            norm = tuple(sorted((p[0] - my, p[1] - mx) for p in pts))
            if best is None or norm < best:
                best = norm
    return {
        ((0, 0), (0, 1), (0, 2), (0, 3)): "I",
        ((0, 0), (0, 1), (1, 0), (1, 1)): "O",
        ((0, 0), (0, 1), (0, 2), (1, 0)): "L",
        ((0, 0), (0, 1), (0, 2), (1, 1)): "T",
        ((0, 0), (0, 1), (1, 1), (1, 2)): "S",
    }[best]


class Lits(base.Rule):
    name = "lits"

    def shapes(self, tier):
        s = [(1, 4), (4, 1), (2, 2), (1, 5), (5, 1), (2, 3), (3, 2), (2, 4), (4, 2), (3, 3), (3, 4), (4, 3)]
        if tier != "quick":
            s += [(1, 8), (8, 1), (1, 9), (9, 1), (2, 5), (5, 2), (2, 6), (6, 2), (3, 5), (5, 3), (4, 4)]
        return s

    def instances(self, shape, cap):
        h, w = shape
        for blocks in capped(room_partitions(h, w, 4), cap):
            yield {"height": h, "width": w, "blocks": blocks}

    def call(self, p):
        from cspuz.puzzle import lits

        h, w = p["height"], p["width"]
        blocks = [[(y, x) for y, x in b] for b in p["blocks"]]
        is_sat, is_black = lits.solve_lits(h, w, blocks)
        return is_sat, [is_black[y, x].sol for y in range(h) for x in range(w)]

    def readings(self, p):
        h, w = p["height"], p["width"]
        rooms = [[(y, x) for y, x in b] for b in p["blocks"]]
        room_of = {}
        for i, b in enumerate(rooms):
            for c in b:
                room_of[c] = i
        # candidate tetrominoes per room: four cells of the room, orthogonally connected
        cands = []
        for b in rooms:
            cs = []
            for four in itertools.combinations(sorted(b), 4):
                if base.cells_connected(four):
                    cs.append((frozenset(four), shape_letter(four)))
            cands.append(cs)
        cross = []  # adjacent cell pairs lying in different rooms
        for y in range(h):
            for x in range(w):
                for c2 in ((y, x + 1), (y + 1, x)):
                    if c2 in room_of and room_of[c2] != room_of[(y, x)]:
                        cross.append(((y, x), c2))
        out = []
        for choice in itertools.product(*cands):
            black = set()
            for four, _ in choice:
                black |= four
            if base.has_2x2(black, h, w):
                continue
            if not base.cells_connected(black):
                continue
            ok = True
            for a, b in cross:
                if a in black and b in black and choice[room_of[a]][1] == choice[room_of[b]][1]:
                    ok = False
                    break
            if ok:
                out.append(tuple((y, x) in black for y in range(h) for x in range(w)))
        return [out]

    def example(self):
        b = ["0000000222", "0010002222", "1113332222", "5563444288", "5663422228", "5663223338", "5633333338", "6673339aaa", "6773999aab", "77bbbbbbbb"]
        rooms = {}
        for y in range(10):
            for x in range(10):
                rooms.setdefault(b[y][x], []).append([y, x])
        return {"height": 10, "width": 10, "blocks": list(rooms.values())}, "cspuz/puzzle/lits.py _main() (too large to enumerate: solvability only)"


def selftest():
    for h, w in ((1, 3), (2, 2), (2, 3), (3, 2), (2, 4), (3, 3)):
        for m in (1, 2, 4):
            own = set(tuple(sorted(tuple(sorted(b)) for b in q)) for q in _own_partitions(h, w, m))
            ref = set(tuple(sorted(tuple(sorted(tuple(c) for c in b)) for b in q)) for q in room_partitions(h, w, m))
            assert own == ref, (h, w, m)
    assert shape_letter([(0, 0), (1, 0), (1, 1), (2, 1)]) == "S" and shape_letter([(0, 1), (1, 1), (2, 1), (2, 0)]) == "L"
    assert shape_letter([(0, 1), (1, 0), (1, 1), (1, 2)]) == "T" and shape_letter([(0, 0), (1, 0), (2, 0), (3, 0)]) == "I"


RULE = Lits()
