"""Norinori.  Problem: blocks = list of rooms, each a list of (y, x) cells; the rooms partition the board into orthogonally
connected regions (JSON form: lists [y, x]; call() turns them into tuples, the form norinori.py's own _main() uses).

Rules (Nikoli "Norinori"): blacken some cells.  Every room contains exactly two black cells.  Every black cell is
orthogonally adjacent to exactly one other black cell (the blacks form dominoes that do not touch each other by an edge;
a domino may straddle a room border).

Answer keys: is_black[y][x], row-major (h*w bools).
Well-formed = the rooms are non-empty, pairwise disjoint, cover the board, and each is orthogonally connected.  A room
of a single cell (and the 1x1 board) is a legal, unsolvable, problem.

There are no clues, so the instance space of a shape is its set of room partitions (mc/graphref.connected_partitions).
Bound rule (analogue of the cap rule): all partitions with <= k rooms, k maximal such that their number stays <= 6*cap
(k >= 1; 6*cap because instances are cheap and there is no clue alphabet) - complete when k reaches the number of cells.
With cap = 250 every shape up to 3x3 (1434 partitions) and 2x4/4x2 (456) is complete.

("large", h, w, level) shapes: larger boards with a small fixed set of room partitions - structured ones (stripes, bands,
2x2 / 2x3 / 3x2 / 3x3 blocks, a tiling by L-trominoes, nested L shapes, the whole board, the 6x6 partition published in
norinori.py tiled over the board), partitions derived from an answer (every domino of a rule-obeying grid gets the cells
nearest to it, or the dominoes grow one after the other, so that grid is an answer), "tight" partitions (bars of cycling
lengths laid in a snake over the board, the ones with the fewest answers - often exactly one) and those partitions with one
cell moved to a neighbouring room; on some boards also the partitions of a small block (2x2, 2x3, 3x2, 3x3)
placed in the far corner, the rest of the board being one room.  They are answered by search(), an exact cell-by-cell search; selftest() compares it with the brute-force filter.
"""

import itertools

from . import base

_CAND = {}
_PARTS = {}
_LARGE = {}
_SOLS = {}
LIMIT = 400000  # search() refuses to return more answers than this (harness error, never a verdict)
INST_CAP = 5000  # a partition with more answers than this is not used as a large instance
NODE_CAP = 100000  # ... nor one whose search tree is larger than this
EXAMPLE = ["001112", "111132", "413333", "415556", "777756", "888776"]


QUICK = ("rows", "columns", "bands-2-rows", "blocks-2x2", "blocks-2x3", "l-trominoes", "nested-l-far", "example-tiled", "halves", "whole")


class TooMany(RuntimeError):
    pass


def search(h, w, rooms, limit=LIMIT, max_nodes=0):
    """All colourings (True = black) obeying the rules for the rooms (lists of cell indices y*w+x), row-major tuples.

    Cells are coloured in row-major order (of the transposed board when it is wider than high).  Cut as soon as a black
    cell has two black neighbours, as soon as a black cell whose neighbours are all coloured has none, as soon as a room
    has three black cells or cannot reach two any more.  Only partial colourings without a rule-obeying completion are
    cut, so the enumeration is complete."""
    if w > h:
        tr = [[(i % w) * h + i // w for i in room] for room in rooms]
        return [tuple(s[x * h + y] for y in range(h) for x in range(w)) for s in search(w, h, tr, limit, max_nodes)]
    n = h * w
    nbrs = []
    for i in range(n):
        y, x = divmod(i, w)
        nbrs.append([yy * w + xx for yy, xx in ((y - 1, x), (y, x - 1), (y, x + 1), (y + 1, x)) if 0 <= yy < h and 0 <= xx < w])
    complete = [[] for _ in range(n)]  # cells whose neighbourhood is fully coloured once cell i is coloured
    for c in range(n):
        complete[max([c] + nbrs[c])].append(c)
    room_of = [None] * n
    for r, room in enumerate(rooms):
        for i in room:
            room_of[i] = r
    todo = [len(room) for room in rooms]
    black = [0] * len(rooms)
    col = [None] * n
    out = []
    nodes = [0]

    def nblack(c):
        return sum(1 for k in nbrs[c] if col[k])

    def rec(i):
        if i == n:
            if len(out) >= limit:
                raise TooMany("norinori oracle: more than %d answers on %dx%d" % (limit, h, w))
            out.append(tuple(col))
            return
        nodes[0] += 1
        if max_nodes and nodes[0] > max_nodes:
            raise TooMany("norinori oracle: search budget exceeded on %dx%d" % (h, w))
        r = room_of[i]
        todo[r] -= 1
        for v in (False, True):
            col[i] = v
            if v:
                black[r] += 1
            ok = black[r] <= 2 and black[r] + todo[r] >= 2
            if ok and v:
                ok = nblack(i) <= 1 and all(nblack(k) <= 1 for k in nbrs[i] if col[k])
            if ok:
                ok = all(nblack(c) == 1 for c in complete[i] if col[c])
            if ok:
                rec(i + 1)
            if v:
                black[r] -= 1
        col[i] = None
        todo[r] += 1

    rec(0)
    return out


# ---- room partitions of large boards (rooms = sorted lists of (y, x)) -----------------------------------------
def rooms_from_ids(h, w, f):
    """Group the cells by f(y, x); a group that is not orthogonally connected is split into its components."""
    groups = {}
    for y in range(h):
        for x in range(w):
            groups.setdefault(f(y, x), []).append((y, x))
    rooms = []
    for g in groups.values():
        rooms += [sorted(c) for c in base.components(g)]
    return sorted(rooms)


def structured(h, w):
    """Named structured partitions of the h x w board (duplicates removed)."""

    def ltile(y, x):  # 2x3 blocks, each cut into two L-trominoes
        return (y // 2, x // 3, (y % 2, x % 3) in ((0, 0), (1, 0), (1, 1)))

    def nested(y, x):  # nested L shapes around the top-left 2x2 square
        return max(y, x, 1)

    def nested_far(y, x):  # nested L shapes around the bottom-right 2x2 square
        return max(h - 1 - y, w - 1 - x, 1)

    def tiled(y, x):
        return (y // 6, x // 6, EXAMPLE[y % 6][x % 6])

    fs = [
        ("rows", lambda y, x: y), ("columns", lambda y, x: x), ("bands-2-rows", lambda y, x: y // 2), ("bands-2-columns", lambda y, x: x // 2),
        ("blocks-2x2", lambda y, x: (y // 2, x // 2)), ("blocks-2x3", lambda y, x: (y // 2, x // 3)), ("blocks-3x2", lambda y, x: (y // 3, x // 2)),
        ("blocks-3x3", lambda y, x: (y // 3, x // 3)), ("l-trominoes", ltile), ("nested-l", nested), ("nested-l-far", nested_far),
        ("example-tiled", tiled), ("whole", lambda y, x: 0), ("halves", lambda y, x: (2 * y >= h, 2 * x >= w)),
        ("blocks-2x2-shifted", lambda y, x: ((y + 1) // 2, (x + 1) // 2)), ("dominoes", lambda y, x: (y, x // 2)),
    ]
    out = []
    for name, f in fs:
        rooms = rooms_from_ids(h, w, f)
        if rooms not in [r for _, r in out]:
            out.append((name, rooms))
    return out


def snake_bars(h, w, seq, vertical=False, snake=True):
    """Rooms = bars whose lengths cycle through seq, laid along the rows - continuing backwards in the next row (snake)
    or cut at the row end - or, with vertical, along the columns."""
    if vertical:
        return sorted(sorted((x, y) for y, x in r) for r in snake_bars(w, h, seq, False, snake))
    ids = {}
    k, left, rid = 0, seq[0], 0
    for y in range(h):
        for x in range(w) if (not snake or y % 2 == 0) else range(w - 1, -1, -1):
            if left == 0:
                k += 1
                left = seq[k % len(seq)]
                rid += 1
            ids[(y, x)] = rid
            left -= 1
        if not snake:
            left = 0
    return rooms_from_ids(h, w, lambda y, x: ids[(y, x)])


def tight(h, w, k, sizes=(2, 3, 4, 5, 6), maxlen=3):
    """The k snake_bars partitions with the fewest (but at least one) answers, over all length sequences of at most
    maxlen terms: boards with many small rooms, where nearly every rule instance is needed to exclude something."""
    found = []
    seen = []
    for n in range(1, maxlen + 1):
        for seq in itertools.product(sizes, repeat=n):
            for vertical in (False, True):
                for snake in (True, False):
                    rooms = snake_bars(h, w, seq, vertical, snake)
                    if rooms in seen:
                        continue
                    seen.append(rooms)
                    try:
                        sols = search(h, w, [[y * w + x for y, x in r] for r in rooms], 40, 20000)
                    except TooMany:
                        continue
                    if sols:
                        found.append((len(sols), len(found), rooms))
    found.sort()
    return [rooms for _, _, rooms in found[:k]]


def voronoi(h, w, seeds):
    """One room per seed (a set of cells): breadth-first growth from all seeds at once, a free cell joins the room that
    reaches it first (seeds in the given order).  Every room is connected and contains its seed."""
    owner = {}
    queue = []
    for k, seed in enumerate(seeds):
        for c in sorted(seed):
            owner[c] = k
            queue.append(c)
    qi = 0
    while qi < len(queue):
        y, x = queue[qi]
        qi += 1
        for c in ((y - 1, x), (y, x - 1), (y, x + 1), (y + 1, x)):
            if 0 <= c[0] < h and 0 <= c[1] < w and c not in owner:
                owner[c] = owner[(y, x)]
                queue.append(c)
    return rooms_from_ids(h, w, lambda y, x: owner[(y, x)])


def grown(h, w, seeds):
    """One room per seed, grown one after the other: the first seed takes every free cell it can reach, then the second
    one ...  (most rooms stay as small as their seed).  Every room is connected and contains its seed."""
    owner = {}
    for k, seed in enumerate(seeds):
        for c in seed:
            owner[c] = k
    for k, seed in enumerate(seeds):
        queue = sorted(seed)
        qi = 0
        while qi < len(queue):
            y, x = queue[qi]
            qi += 1
            for c in ((y - 1, x), (y, x - 1), (y, x + 1), (y + 1, x)):
                if 0 <= c[0] < h and 0 <= c[1] < w and c not in owner:
                    owner[c] = k
                    queue.append(c)
    return rooms_from_ids(h, w, lambda y, x: owner[(y, x)])


def moved(h, w, rooms, k):
    """Up to k partitions obtained by moving one cell into a neighbouring room (the donor stays connected and non-empty):
    evenly spaced among all such moves in row-major order."""
    room_of = {c: i for i, r in enumerate(rooms) for c in r}
    moves = []
    for y in range(h):
        for x in range(w):
            for c in ((y, x + 1), (y + 1, x), (y, x - 1), (y - 1, x)):
                if c in room_of and room_of[c] != room_of[(y, x)]:
                    rest = [d for d in rooms[room_of[(y, x)]] if d != (y, x)]
                    if rest and base.cells_connected(rest):
                        moves.append(((y, x), room_of[c]))
    out = []
    for cell, dst in spaced(moves, k):
        rs = [[d for d in r if d != cell] for r in rooms]
        rs[dst] = sorted(rs[dst] + [cell])
        out.append(sorted(rs))
    return out


def spaced(items, k):
    """First, last and evenly spaced elements (k in total, fewer when there are fewer items)."""
    if len(items) <= k:
        return list(items)
    if k == 1:
        return [items[len(items) // 2]]
    return [items[(len(items) - 1) * j // (k - 1)] for j in range(k)]


def cornered(h, w, bh, bw, part):
    """The partition part (rooms of (y, x)) of a bh x bw board placed in the far (bottom-right) corner of the h x w
    board; the rest of the board is one more room (its components, should it fall apart)."""
    where = {}
    for k, room in enumerate(part):
        for y, x in room:
            where[(y + h - bh, x + w - bw)] = k
    return rooms_from_ids(h, w, lambda y, x: where.get((y, x), -1))


def corner_family(h, w, level):
    """Every (thorough) / some (quick) partitions of a small block, in the far corner of the board."""
    plan = [(2, 3, 5), (3, 2, 5)] if level == 0 else [(2, 2, 12), (2, 3, 30), (3, 2, 30), (3, 3, 60)]
    out = []
    for bh, bw, k in plan:
        if bh < h and bw < w and h * w >= 24:
            for part in spaced(partitions(bh, bw, 12000), k):
                out.append(cornered(h, w, bh, bw, [[(i // bw, i % bw) for i in b] for b in part]))
    return out


def large_instances(h, w, level):
    """The fixed instance set of a large board (cached: the driver asks for it once per shard)."""
    key = (h, w, level)
    if key in _LARGE:
        return _LARGE[key]
    out = []

    def add(rooms):
        if rooms in out:
            return None
        try:
            sols = search(h, w, [[y * w + x for y, x in r] for r in rooms], INST_CAP, NODE_CAP)
        except TooMany:
            return None
        _SOLS[repr([[list(c) for c in r] for r in rooms])] = sols
        out.append(rooms)
        return sols

    pool = []  # answers of the structured partitions: the grids the derived partitions are built from
    named = structured(h, w)
    if level == 0:
        named = [(nm, r) for nm, r in named if nm in QUICK]
    for name, rooms in named:
        sols = add(rooms)
        if sols:
            pool += spaced(sols, 3)
    grids = []
    for g in pool:
        if g not in grids and any(g):
            grids.append(g)
    derived = []
    for g in spaced(grids, 1 if level == 0 else 8):
        seeds = sorted(sorted(c) for c in base.components([(i // w, i % w) for i in range(h * w) if g[i]]))
        for rooms in (voronoi(h, w, seeds), grown(h, w, seeds), grown(h, w, seeds[::-1])):
            if add(rooms) is not None:
                derived.append(rooms)
    tights = tight(h, w, 3 if level == 0 else 8, maxlen=2 if level == 0 else 3)
    for rooms in tights:
        add(rooms)
    for rooms in tights + derived[: 1 if level == 0 else 6] + [r for nm, r in named if nm in ("example-tiled", "blocks-2x3", "nested-l")][: 1 if level == 0 else 3]:
        for m in moved(h, w, rooms, 1 if level == 0 else 4):
            add(m)
    if (h, w) in ((6, 6),) or (level > 0 and (h, w) in ((4, 6), (6, 4))):
        for rooms in corner_family(h, w, level):
            add(rooms)
    _LARGE[key] = [{"height": h, "width": w, "blocks": [[list(c) for c in r] for r in rooms]} for rooms in out]
    return _LARGE[key]


def candidates(h, w):
    """All colourings (True = black) in which every black cell has exactly one black orthogonal neighbour; room
    independent, cached per shape."""
    if (h, w) not in _CAND:
        out = []
        for col in base.colorings(h * w):
            ok = True
            for i in range(h * w):
                if col[i]:
                    y, x = divmod(i, w)
                    nb = 0
                    for dy, dx in ((0, 1), (1, 0), (0, -1), (-1, 0)):
                        yy, xx = y + dy, x + dx
                        if 0 <= yy < h and 0 <= xx < w and col[yy * w + xx]:
                            nb += 1
                    if nb != 1:
                        ok = False
                        break
            if ok:
                out.append(col)
        _CAND[(h, w)] = out
    return _CAND[(h, w)]


def partitions(h, w, cap):
    key = (h, w, cap)
    if key not in _PARTS:
        from mc import graphref

        parts = list(graphref.connected_partitions(h * w, graphref.grid_edges(h, w)))
        limit = 6 * cap
        k_used = 0
        total = 0
        for k in range(1, h * w + 1):
            cnt = sum(1 for p in parts if len(p) == k)
            if total + cnt > limit and k > 1:
                break
            total += cnt
            k_used = k
        sel = [p for p in parts if len(p) <= k_used]
        sel.sort(key=lambda p: (len(p), p))
        _PARTS[key] = sel
    return _PARTS[key]


class Norinori(base.Rule):
    name = "norinori"

    def shapes(self, tier):
        s = [(1, 1), (1, 2), (2, 1), (1, 3), (3, 1), (1, 4), (4, 1), (2, 2), (2, 3), (3, 2), (2, 4), (4, 2), (3, 3)]
        if tier != "quick":
            s += [(1, 5), (5, 1), (1, 6), (6, 1), (2, 5), (5, 2)]
        big = [(5, 5), (6, 6), (4, 6), (6, 4), (1, 12), (12, 1), (2, 10), (10, 2)]
        if tier != "quick":
            big = [(4, 4)] + big + [(4, 5), (5, 4), (5, 6), (6, 5), (7, 7), (8, 8), (3, 8), (8, 3), (1, 16), (16, 1), (2, 12), (12, 2), (5, 8), (8, 5), (6, 12), (12, 6)]
        return s + [("large", h, w, 0 if tier == "quick" else 1) for h, w in big]

    def instances(self, shape, cap):
        if shape[0] == "large":
            for p in large_instances(shape[1], shape[2], shape[3]):
                yield p
            return
        h, w = shape
        for part in partitions(h, w, cap):
            yield {"height": h, "width": w, "blocks": [[[i // w, i % w] for i in block] for block in part]}

    def call(self, p):
        from cspuz.puzzle import norinori

        blocks = [[(y, x) for y, x in block] for block in p["blocks"]]
        is_sat, is_black = norinori.solve_norinori(p["height"], p["width"], blocks)
        return is_sat, base.sols_of(is_black)

    def readings(self, p):
        h, w = p["height"], p["width"]
        rooms = [[y * w + x for y, x in block] for block in p["blocks"]]
        if h * w > 12:
            key = repr(p["blocks"])  # answers computed while the instance set was built (same function)
            return [_SOLS[key] if key in _SOLS else search(h, w, rooms)]
        out = []
        for col in candidates(h, w):
            if all(sum(1 for i in room if col[i]) == 2 for room in rooms):
                out.append(col)
        return [out]

    def example(self):
        b = EXAMPLE
        rooms = {}
        for y in range(6):
            for x in range(6):
                rooms.setdefault(b[y][x], []).append([y, x])
        return {"height": 6, "width": 6, "blocks": list(rooms.values())}, "cspuz/puzzle/norinori.py _main() (puzsq pid=7919, 6x6; checked by solvability only: too large to enumerate)"


def selftest():
    """search() against the brute-force filter: every partition of the small boards, structured ones on 3x4 .. 4x4."""
    for h, w in ((1, 1), (1, 2), (2, 1), (1, 4), (4, 1), (2, 2), (2, 3), (3, 2), (2, 4), (4, 2), (3, 3)):
        for part in partitions(h, w, 250):
            rooms = [list(b) for b in part]
            want = [c for c in candidates(h, w) if all(sum(1 for i in r if c[i]) == 2 for r in rooms)]
            assert sorted(search(h, w, rooms)) == sorted(want), (h, w, part)
    for h, w in ((3, 4), (4, 3), (2, 6), (6, 2), (1, 9), (3, 5), (5, 3), (4, 4)):
        named = structured(h, w)
        parts = [r for _, r in named]
        for r in parts[:6]:
            parts += moved(h, w, r, 3)
        for rooms in parts:
            assert sorted(c for r in rooms for c in r) == [(y, x) for y in range(h) for x in range(w)]
            assert all(base.cells_connected(r) for r in rooms)
            idx = [[y * w + x for y, x in r] for r in rooms]
            want = [c for c in candidates(h, w) if all(sum(1 for i in r if c[i]) == 2 for r in idx)]
            got = search(h, w, idx)
            assert sorted(got) == sorted(want), (h, w, rooms)
            for g in got[:2]:  # a partition derived from an answer keeps that answer
                if any(g):
                    seeds = sorted(sorted(c) for c in base.components([(i // w, i % w) for i in range(h * w) if g[i]]))
                    for v in (voronoi(h, w, seeds), grown(h, w, seeds)):
                        assert all(base.cells_connected(r) for r in v)
                        assert g in search(h, w, [[y * w + x for y, x in r] for r in v])
    # the published 6x6 example has exactly one answer
    ex = RULE.example()[0]
    assert len(search(6, 6, [[y * 6 + x for y, x in b] for b in ex["blocks"]])) == 1


RULE = Norinori()
