"""Norinori.  Problem: blocks = list of rooms, each a list of (y, x) cells; the rooms partition the board into orthogonally
connected regions (JSON form: lists [y, x]; call() turns them into tuples, the form norinori.py's own _main() uses).

Rules (Nikoli "Norinori"): blacken some cells.  Every room contains exactly two black cells.  Every black cell is
orthogonally adjacent to exactly one other black cell (the blacks form dominoes that do not touch each other by an edge;
a domino may straddle a room border).

Answer keys: is_black[y][x], row-major (h*w bools).
Well-formed = the rooms are non-empty, pairwise disjoint, cover the board, and each is orthogonally connected.  A room
of a single cell (and the 1x1 board) is a legal, unsolvable, problem.

There are no clues, so the instance space of a shape is its set of room partitions (mc/graphref.connected_partitions).
Bound rule (analogue of the cap rule): all partitions with <= k rooms, k maximal such that their number stays <= 6*cap
(k >= 1; 6*cap because instances are cheap and there is no clue alphabet) - complete when k reaches the number of cells.
With cap = 250 every shape up to 3x3 (1434 partitions) and 2x4/4x2 (456) is complete.
"""

from . import base

_CAND = {}
_PARTS = {}


def candidates(h, w):
    """All colourings (True = black) in which every black cell has exactly one black orthogonal neighbour; room
    independent, cached per shape."""
    if (h, w) not in _CAND:
        out = []
        for col in base.colorings(h * w):
            ok = True
            for i in range(h * w):
                if col[i]:
                    y, x = divmod(i, w)
                    nb = 0
                    for dy, dx in ((0, 1), (1, 0), (0, -1), (-1, 0)):
                        yy, xx = y + dy, x + dx
                        if 0 <= yy < h and 0 <= xx < w and col[yy * w + xx]:
                            nb += 1
                    if nb != 1:
                        ok = False
                        break
            if ok:
                out.append(col)
        _CAND[(h, w)] = out
    return _CAND[(h, w)]


def partitions(h, w, cap):
    key = (h, w, cap)
    if key not in _PARTS:
        from mc import graphref

        parts = list(graphref.connected_partitions(h * w, graphref.grid_edges(h, w)))
        limit = 6 * cap
        k_used = 0
        total = 0
        for k in range(1, h * w + 1):
            cnt = sum(1 for p in parts if len(p) == k)
            if total + cnt > limit and k > 1:
                break
            total += cnt
            k_used = k
        sel = [p for p in parts if len(p) <= k_used]
        sel.sort(key=lambda p: (len(p), p))
        _PARTS[key] = sel
    return _PARTS[key]


class Norinori(base.Rule):
    name = "norinori"

    def shapes(self, tier):
        s = [(1, 1), (1, 2), (2, 1), (1, 3), (3, 1), (1, 4), (4, 1), (2, 2), (2, 3), (3, 2), (2, 4), (4, 2), (3, 3)]
        if tier != "quick":
            s += [(1, 5), (5, 1), (1, 6), (6, 1), (2, 5), (5, 2)]
        return s

    def instances(self, shape, cap):
        h, w = shape
        for part in partitions(h, w, cap):
            yield {"height": h, "width": w, "blocks": [[[i // w, i % w] for i in block] for block in part]}

    def call(self, p):
        from cspuz.puzzle import norinori

        blocks = [[(y, x) for y, x in block] for block in p["blocks"]]
        is_sat, is_black = norinori.solve_norinori(p["height"], p["width"], blocks)
        return is_sat, base.sols_of(is_black)

    def readings(self, p):
        h, w = p["height"], p["width"]
        rooms = [[y * w + x for y, x in block] for block in p["blocks"]]
        out = []
        for col in candidates(h, w):
            if all(sum(1 for i in room if col[i]) == 2 for room in rooms):
                out.append(col)
        return [out]

    def example(self):
        b = ["001112", "111132", "413333", "415556", "777756", "888776"]
        rooms = {}
        for y in range(6):
            for x in range(6):
                rooms.setdefault(b[y][x], []).append([y, x])
        return {"height": 6, "width": 6, "blocks": list(rooms.values())}, "cspuz/puzzle/norinori.py _main() (puzsq pid=7919, 6x6; checked by solvability only: too large to enumerate)"


RULE = Norinori()
