"""Sudoku with box size n (board n^2 x n^2): every row, every column and every n x n box holds each of 1..n^2 exactly
once; given digits (problem[y][x] >= 1) are kept, every other value (0) is a blank cell.

Problem dict: {"n": box size, "problem": n^2 x n^2 int grid}.  Answer keys: the n^2 x n^2 int grid, row-major.
Well-formed: givens in 1..n^2 or 0 (decided from the format alone); contradictory givens are well-formed (answer: no solution).

Shape descriptor: (n, cells): box size n, givens placed only on the listed cells (row-major indices), None = anywhere.
Besides the whole 4 x 4 board (where the cap only reaches 1 given in the quick tier, 2 in the thorough tier) the ladder
has a 4-cell probe set {(0,0), (0,3), (3,0), (1,1)} - pairs in one row, one column and one box - on which the cap rule
reaches 2 givens (quick) / all 5^4 layouts (thorough), so contradictory and strongly constrained boards are covered.
"""

from . import base

_GRIDS = {}


def all_grids(n):
    """All completed boards of box size n, as row-major tuples (plain backtracking over cells)."""
    if n in _GRIDS:
        return _GRIDS[n]
    size = n * n
    cells = [0] * (size * size)
    out = []

    def allowed(pos, v):
        y, x = divmod(pos, size)
        for xx in range(size):
            if cells[y * size + xx] == v:
                return False
        for yy in range(size):
            if cells[yy * size + x] == v:
                return False
        by, bx = (y // n) * n, (x // n) * n
        for yy in range(by, by + n):
            for xx in range(bx, bx + n):
                if cells[yy * size + xx] == v:
                    return False
        return True

    def rec(pos):
        if pos == size * size:
            out.append(tuple(cells))
            return
        for v in range(1, size + 1):
            if allowed(pos, v):
                cells[pos] = v
                rec(pos + 1)
                cells[pos] = 0

    rec(0)
    _GRIDS[n] = out
    return out


class Sudoku(base.Rule):
    name = "sudoku"

    def shapes(self, tier):
        # n = 3 (6.7e21 boards) cannot be enumerated
        return [(1, None), (2, None), (2, [0, 3, 12, 5])]

    def instances(self, shape, cap):
        n, where = shape
        size = n * n
        where = list(range(size * size)) if where is None else where
        lays, k = base.layouts(len(where), 0, list(range(1, size + 1)), cap)
        for vals in lays:
            cells = [0] * (size * size)
            for pos, v in zip(where, vals):
                cells[pos] = v
            yield {"n": n, "problem": base.grid(cells, size, size)}

    def call(self, p):
        from cspuz.puzzle import sudoku

        is_sat, answer = sudoku.solve_sudoku(p["problem"], n=p["n"])
        return is_sat, base.sols_of(answer)

    def readings(self, p):
        n = p["n"]
        size = n * n
        given = [(y * size + x, p["problem"][y][x]) for y in range(size) for x in range(size) if p["problem"][y][x] >= 1]
        return [[g for g in all_grids(n) if all(g[pos] == v for pos, v in given)]]

    def example(self):
        prob = [
            [5, 3, 0, 0, 7, 0, 0, 0, 0], [6, 0, 0, 1, 9, 5, 0, 0, 0], [0, 9, 8, 0, 0, 0, 0, 6, 0],
            [8, 0, 0, 0, 6, 0, 0, 0, 3], [4, 0, 0, 8, 0, 3, 0, 0, 1], [7, 0, 0, 0, 2, 0, 0, 0, 6],
            [0, 6, 0, 0, 0, 0, 2, 8, 0], [0, 0, 0, 4, 1, 9, 0, 0, 5], [0, 0, 0, 0, 8, 0, 0, 7, 9],
        ]
        return {"n": 3, "problem": prob}, "cspuz/puzzle/sudoku.py _main() (Wikimedia Sudoku-by-L2G-20050714; too large to enumerate)"


RULE = Sudoku()
