"""Sudoku with box size n (board n^2 x n^2): every row, every column and every n x n box holds each of 1..n^2 exactly
once; given digits (problem[y][x] >= 1) are kept, every other value (0) is a blank cell.

Problem dict: {"n": box size, "problem": n^2 x n^2 int grid}.  Answer keys: the n^2 x n^2 int grid, row-major.
Well-formed: givens in 1..n^2 or 0 (decided from the format alone); contradictory givens are well-formed (answer: no solution).

Shape descriptor: (n, cells): box size n, givens placed only on the listed cells (row-major indices), None = anywhere.
Besides the whole 4 x 4 board (where the cap only reaches 1 given in the quick tier, 2 in the thorough tier) the ladder
has a 4-cell probe set {(0,0), (0,3), (3,0), (1,1)} - pairs in one row, one column and one box - on which the cap rule
reaches 2 givens (quick) / all 5^4 layouts (thorough), so contradictory and strongly constrained boards are covered.

"large" family, descriptor ("large", n, level) with level 0 = quick / 1 = thorough: densely clued boards of box size
2, 3 and 4 (4 x 4, 9 x 9, 16 x 16 - the last one has givens of two digits) derived from two to four complete grids (the
lexicographically first and last one and one from a position-dependent digit order, found by backtracking over the
rules): the full grid, the grid minus every k-th given, minus the last row / last column / far-corner box / a whole band
or stack, minus cell pairs that only the row rule / the column rule / the box rule can decide, minus two parallel
lines, minus all cells holding one of two digits except one (so that this given matters; 16 and 10 on 16 x 16), and one
given changed by +1 / -1 (first, last, middle cell, a corner, an edge), once as is and once with the givens that
contradict the changed value blanked.  Oracle for n >= 3: completions() - backtracking from the rules over the blank cells (most
constrained cell first) that returns ALL completions; it is compared with the all_grids() filter on 4 x 4 boards in
selftest().  The clue-free 9 x 9 / 16 x 16 boards are left out: neither can the oracle enumerate them nor does the solver
decide them within minutes (81 / 256 undecided cells).
"""

from . import base

_GRIDS = {}


def all_grids(n):
    """All completed boards of box size n, as row-major tuples (plain backtracking over cells)."""
    if n in _GRIDS:
        return _GRIDS[n]
    size = n * n
    cells = [0] * (size * size)
    out = []

    def allowed(pos, v):
        y, x = divmod(pos, size)
        for xx in range(size):
            if cells[y * size + xx] == v:
                return False
        for yy in range(size):
            if cells[yy * size + x] == v:
                return False
        by, bx = (y // n) * n, (x // n) * n
        for yy in range(by, by + n):
            for xx in range(bx, bx + n):
                if cells[yy * size + xx] == v:
                    return False
        return True

    def rec(pos):
        if pos == size * size:
            out.append(tuple(cells))
            return
        for v in range(1, size + 1):
            if allowed(pos, v):
                cells[pos] = v
                rec(pos + 1)
                cells[pos] = 0

    rec(0)
    _GRIDS[n] = out
    return out


def obeys_rules(n, g):
    """Rule check of one completed board (row-major sequence), written independently of the enumerators."""
    size = n * n
    want = list(range(1, size + 1))
    for i in range(size):
        if sorted(g[i * size + x] for x in range(size)) != want:
            return False
        if sorted(g[y * size + i] for y in range(size)) != want:
            return False
    for by in range(n):
        for bx in range(n):
            if sorted(g[(by * n + dy) * size + bx * n + dx] for dy in range(n) for dx in range(n)) != want:
                return False
    return True


class TooMany(Exception):
    pass


def completions(n, problem, limit=300000):
    """ALL completed boards that keep the givens (problem[y][x] >= 1): backtracking over the blank cells, always
    branching on a blank cell with the fewest admissible digits.  Complete: every digit admissible for the chosen cell
    is tried, and a cell without admissible digit ends the branch."""
    size = n * n
    full = (1 << (size + 1)) - 2  # bits 1..size
    rows = [0] * size
    cols = [0] * size
    boxes = [0] * size
    cells = [0] * (size * size)
    blanks = []
    for y in range(size):
        for x in range(size):
            v = problem[y][x]
            if v >= 1:
                if v > size:
                    return []
                bit = 1 << v
                b = (y // n) * n + x // n
                if rows[y] & bit or cols[x] & bit or boxes[b] & bit:
                    return []
                rows[y] |= bit
                cols[x] |= bit
                boxes[b] |= bit
                cells[y * size + x] = v
            else:
                blanks.append((y, x))
    out = []

    def rec(todo):
        if not todo:
            out.append(tuple(cells))
            if len(out) > limit:
                raise TooMany(len(out))
            return
        best = None
        bestmask = 0
        bestcnt = size + 1
        for i, (y, x) in enumerate(todo):
            m = full & ~(rows[y] | cols[x] | boxes[(y // n) * n + x // n])
            c = bin(m).count("1")
            if c < bestcnt:
                best, bestmask, bestcnt = i, m, c
                if c <= 1:
                    break
        if bestcnt == 0:
            return
        y, x = todo[best]
        rest = todo[:best] + todo[best + 1 :]
        b = (y // n) * n + x // n
        for v in range(1, size + 1):
            bit = 1 << v
            if bestmask & bit:
                rows[y] |= bit
                cols[x] |= bit
                boxes[b] |= bit
                cells[y * size + x] = v
                rec(rest)
                cells[y * size + x] = 0
                rows[y] &= ~bit
                cols[x] &= ~bit
                boxes[b] &= ~bit

    rec(blanks)
    return out


_SEEDS = {}


def seed_grid(n, order):
    """One completed board found by cell-by-cell backtracking (row-major) over the rules; `order` fixes the order in
    which digits are tried: "asc" gives the lexicographically first board, "desc" the last one, "rot" tries the digits
    in an order rotated by the cell position, "pattern" is the shifted-rows board (y, x) -> (n (y mod n) + y div n + x)
    mod n^2 + 1.  Every board is verified by obeys_rules."""
    key = (n, order)
    if key in _SEEDS:
        return _SEEDS[key]
    size = n * n
    if order == "pattern":
        g = tuple((n * (y % n) + y // n + x) % size + 1 for y in range(size) for x in range(size))
    else:
        cells = [0] * (size * size)

        def digits(pos):
            d = list(range(1, size + 1))
            if order == "desc":
                d.reverse()
            elif order == "rot":
                y, x = divmod(pos, size)
                k = (2 * y + 3 * x) % size
                d = d[k:] + d[:k]
            return d

        def free(pos, v):
            y, x = divmod(pos, size)
            for i in range(size):
                if cells[y * size + i] == v or cells[i * size + x] == v:
                    return False
            by, bx = (y // n) * n, (x // n) * n
            for yy in range(by, by + n):
                for xx in range(bx, bx + n):
                    if cells[yy * size + xx] == v:
                        return False
            return True

        def rec(pos):
            if pos == size * size:
                return True
            for v in digits(pos):
                if free(pos, v):
                    cells[pos] = v
                    if rec(pos + 1):
                        return True
                    cells[pos] = 0
            return False

        assert rec(0)
        g = tuple(cells)
    assert obeys_rules(n, g)
    _SEEDS[key] = g
    return g


def large_instances(n, level):
    """The "large" family of box size n (see the module docstring); yields problem grids."""
    size = n * n
    ncell = size * size
    orders = ["rot"] if n == 4 else ["asc", "desc", "rot"]
    if n == 3 and level == 0:
        orders = ["asc", "rot"]
    if n == 2 and level:
        orders.append("pattern")
        level = 0  # 4 x 4 is covered exhaustively elsewhere: the quick selection on one more grid is enough
    seen = set()

    def bump(v, d):
        w = v + d
        if w < 1 or w > size:
            w = v - d
        return w

    for order in orders:
        g = seed_grid(n, order)
        cand = [list(g)]
        # minus every k-th given
        if n == 4:
            ks = [3, 5] if level == 0 else [3, 5, 6, 7, 9]
            offs = [0]
        else:
            ks = [2, 3, 5] if level == 0 else [2, 3, 4, 5, 6, 7, 8, 9, 10, 11]
            offs = [0] if level == 0 else [0, 1]
        for k in ks:
            for o in offs:
                cand.append([0 if i % k == o else v for i, v in enumerate(g)])

        # whole lines / boxes / bands blanked: last row, last column, both, far-corner box, first row + first column,
        # last band, last stack (the bands only up to 9 x 9: a blank band of the 16 x 16 board has too many fillings)
        def without(pred):
            return [0 if pred(i // size, i % size) else v for i, v in enumerate(g)]

        cand.append(without(lambda y, x: y == size - 1))
        cand.append(without(lambda y, x: x == size - 1))
        cand.append(without(lambda y, x: y == size - 1 or x == size - 1))
        cand.append(without(lambda y, x: y >= size - n and x >= size - n))
        cand.append(without(lambda y, x: y == 0 or x == 0))
        if n <= 3:
            cand.append(without(lambda y, x: y >= size - n))
            cand.append(without(lambda y, x: x >= size - n))
        # two parallel lines blanked (dropping the rule of ONE line changes nothing - it follows from the others -, so
        # pairs are what can show a lost line rule; for boxes the same holds for two boxes of one band or stack, and
        # the four-box rectangles below are the smallest probe)
        linepairs = [(size - 2, size - 1), (0, 1)] if level == 0 else [(i, i + 1) for i in range(size - 1)]
        for a, b in linepairs:
            cand.append(without(lambda y, x: y in (a, b)))
            cand.append(without(lambda y, x: x in (a, b)))
        # every cell holding a or b blanked except one given a (first such cell) resp. one given b (last such cell):
        # the given decides its whole a/b chain, so a given that is ignored shows (values of two digits on 16 x 16)
        if level:
            pairs = [(v, v % size + 1) for v in range(1, size + 1)]
        else:
            pairs = {2: [(4, 3)], 3: [(9, 8), (1, 2)], 4: [(16, 15), (10, 9), (11, 1)]}[n]
        for a, b in pairs:
            pa = [i for i, v in enumerate(g) if v == a]
            pb = [i for i, v in enumerate(g) if v == b]
            cand.append([0 if (v in (a, b) and i != pa[0]) else v for i, v in enumerate(g)])
            cand.append([0 if (v in (a, b) and i != pb[-1]) else v for i, v in enumerate(g)])
        if n == 2:
            # only the last row and the last column given / only the far-corner box and the first row
            cand.append(without(lambda y, x: not (y == size - 1 or x == size - 1)))
            cand.append(without(lambda y, x: not (y == 0 or (y >= size - n and x >= size - n))))
        # pairs that only one rule decides: two cells of one column inside one box (row rule), two cells of one row
        # inside one box (column rule), rectangles a b / b a over four boxes (box rule)
        vert = []
        horz = []
        for r in range(size):
            r2 = (r // n) * n + (r + 1) % n
            vert.append([r * size + r, r2 * size + r])
            horz.append([r * size + r, r * size + r2])
        rect = []
        for r1 in range(size):
            for r2 in range(r1 + 1, size):
                if r1 // n == r2 // n:
                    continue
                for c1 in range(size):
                    for c2 in range(c1 + 1, size):
                        if c1 // n == c2 // n:
                            continue
                        if g[r1 * size + c1] == g[r2 * size + c2] and g[r1 * size + c2] == g[r2 * size + c1]:
                            rect.append([r1 * size + c1, r1 * size + c2, r2 * size + c1, r2 * size + c2])
        want = 2 if level == 0 else 8
        if len(rect) > want:
            rect = [rect[(len(rect) - 1) * j // (want - 1)] for j in range(want)]
        groups = [sum(vert, []), sum(horz, [])] + rect
        if level:
            groups += vert + horz
        for grp in groups:
            cand.append([0 if i in grp else v for i, v in enumerate(g)])
        # one given changed by +1 / -1 (first, last, middle cell, a corner, an edge): as is, with the contradicting
        # givens blanked, and on top of "minus every 3rd"
        spots = [0, ncell - 1, ncell // 2 + size // 2]
        if level:
            spots += [size - 1, ncell - size, size + size // 2]
        third = [0 if i % 3 == 1 else v for i, v in enumerate(g)]
        for pos in spots:
            for d in (1, -1):
                w = bump(g[pos], d)
                c = list(g)
                c[pos] = w
                y, x = divmod(pos, size)
                c2 = list(c)
                for i in range(ncell):
                    yy, xx = divmod(i, size)
                    if i != pos and g[i] == w and (yy == y or xx == x or (yy // n == y // n and xx // n == x // n)):
                        c2[i] = 0
                cand.append(c2)
                if level or d == 1:
                    cand.append(c)
                    if third[pos]:
                        c3 = list(third)
                        c3[pos] = w
                        cand.append(c3)
        for c in cand:
            key = tuple(c)
            if key not in seen:
                seen.add(key)
                yield base.grid(c, size, size)


class Sudoku(base.Rule):
    name = "sudoku"

    def shapes(self, tier):
        # n = 3 (6.7e21 boards) cannot be enumerated
        s = [(1, None), (2, None), (2, [0, 3, 12, 5])]
        level = 0 if tier == "quick" else 1
        return s + [("large", 2, level), ("large", 3, level), ("large", 4, level)]

    def instances(self, shape, cap):
        if shape[0] == "large":
            _, n, level = shape
            for prob in large_instances(n, level):
                yield {"n": n, "problem": prob}
            return
        n, where = shape
        size = n * n
        where = list(range(size * size)) if where is None else where
        lays, k = base.layouts(len(where), 0, list(range(1, size + 1)), cap)
        for vals in lays:
            cells = [0] * (size * size)
            for pos, v in zip(where, vals):
                cells[pos] = v
            yield {"n": n, "problem": base.grid(cells, size, size)}

    def call(self, p):
        from cspuz.puzzle import sudoku

        is_sat, answer = sudoku.solve_sudoku(p["problem"], n=p["n"])
        return is_sat, base.sols_of(answer)

    def readings(self, p):
        n = p["n"]
        size = n * n
        given = [(y * size + x, p["problem"][y][x]) for y in range(size) for x in range(size) if p["problem"][y][x] >= 1]
        if n >= 3:
            return [completions(n, p["problem"])]
        return [[g for g in all_grids(n) if all(g[pos] == v for pos, v in given)]]

    def example(self):
        prob = [
            [5, 3, 0, 0, 7, 0, 0, 0, 0], [6, 0, 0, 1, 9, 5, 0, 0, 0], [0, 9, 8, 0, 0, 0, 0, 6, 0],
            [8, 0, 0, 0, 6, 0, 0, 0, 3], [4, 0, 0, 8, 0, 3, 0, 0, 1], [7, 0, 0, 0, 2, 0, 0, 0, 6],
            [0, 6, 0, 0, 0, 0, 2, 8, 0], [0, 0, 0, 4, 1, 9, 0, 0, 5], [0, 0, 0, 0, 8, 0, 0, 7, 9],
        ]
        return {"n": 3, "problem": prob}, "cspuz/puzzle/sudoku.py _main() (Wikimedia Sudoku-by-L2G-20050714; too large to enumerate)"


def selftest():
    assert len(all_grids(2)) == 288 and all(obeys_rules(2, g) for g in all_grids(2))
    assert not obeys_rules(2, (1, 2, 3, 4, 3, 4, 1, 2, 2, 1, 4, 3, 4, 3, 2, 2))
    assert not obeys_rules(2, (1, 2, 3, 4, 2, 3, 4, 1, 3, 4, 1, 2, 4, 1, 2, 3))  # Latin square, boxes wrong
    # completions() against the all_grids() filter: every layout with <= 2 givens, the 4-cell probe set completely,
    # and every instance of the large family of box size 2
    r = Sudoku()
    probs = list(r.instances((2, None), 12000)) + list(r.instances((2, [0, 3, 12, 5]), 12000))
    probs += list(r.instances(("large", 2, 1), 0))
    assert len(probs) > 2000
    for p in probs:
        given = [(y * 4 + x, p["problem"][y][x]) for y in range(4) for x in range(4) if p["problem"][y][x] >= 1]
        ref = sorted(g for g in all_grids(2) if all(g[pos] == v for pos, v in given))
        assert sorted(completions(2, p["problem"])) == ref, p
    assert sorted(completions(2, [[0] * 4 for _ in range(4)])) == sorted(all_grids(2))
    # 9 x 9: the published example has exactly one completion and it obeys the rules; a blanked full grid comes back
    ex, _ = r.example()
    sols = completions(3, ex["problem"])
    assert len(sols) == 1 and obeys_rules(3, sols[0])
    g = seed_grid(3, "asc")
    assert g[:9] == (1, 2, 3, 4, 5, 6, 7, 8, 9) and seed_grid(3, "desc")[:9] == (9, 8, 7, 6, 5, 4, 3, 2, 1)
    for prob in large_instances(3, 0):
        for s in completions(3, prob):
            assert obeys_rules(3, s)


RULE = Sudoku()
