"""Building (skyscrapers): fill the n x n board with heights 1..n so that every row and every column holds each height
once; a clue outside the board = number of buildings visible from that side looking along the line (a building is
visible iff every building in front of it is lower).

Problem dict: {"n": n, "up": [...], "dw": [...], "lf": [...], "rg": [...]}; up[i] / dw[i] look down / up column i from the
top / bottom edge, lf[i] / rg[i] look along row i from the left / right edge; a clue >= 1 is a clue, 0 is no clue.
Answer keys: the n x n height grid, row-major.  Well-formed: every clue in 0..n.

Shape descriptors: n (all clue layouts by the cap rule, n <= 4) and ("large", n, level) with level 0 = quick /
1 = thorough for n = 5, 6: the clue-free board (n = 5 only: 161280 answers; the 8e8 answers of n = 6 cannot be listed),
and clue sets derived from a few answers G (first, last and evenly spaced ones in enumeration order for n = 5; the
50000th in ascending and the first in descending search order for n = 6, more of them in the thorough tier): all 4n
views of G, the views minus every k-th clue, one side only (n = 6: all but one side), the clues of the last row / last
column only (n = 6: all but those), single clues of value n and 1 on the far lines (n = 5), and the full set with one
clue changed by +1 / -1 (first, last, middle, side ends), as is and thinned.
Oracle: n = 5 - table(5), all 161280 boards with their views, listed once by search() and then filtered per instance;
n = 6 - search(), line-by-line backtracking over the rules (lines filtered by their own clues, crossing lines kept
duplicate-free and able to reach their clues, complete boards re-checked) returning ALL answers; selftest() compares
search() and table() with the squares() filter on n <= 4 and with each other on n = 5.
"""

import itertools

from . import base

_SQUARES = {}


def visible(line):
    top = 0
    cnt = 0
    for v in line:
        if v > top:
            top = v
            cnt += 1
    return cnt


def squares(n):
    """All Latin squares of 1..n with their 4n views, as (row-major tuple, views) where views is in the order
    up[0..n-1], dw[0..n-1], lf[0..n-1], rg[0..n-1]."""
    if n in _SQUARES:
        return _SQUARES[n]
    perms = list(itertools.permutations(range(1, n + 1)))
    out = []
    rows = []

    def rec():
        if len(rows) == n:
            cols = [[rows[y][x] for y in range(n)] for x in range(n)]
            views = (
                [visible(c) for c in cols]
                + [visible(c[::-1]) for c in cols]
                + [visible(r) for r in rows]
                + [visible(r[::-1]) for r in rows]
            )
            out.append((tuple(v for r in rows for v in r), tuple(views)))
            return
        for p in perms:
            if all(p[x] != r[x] for r in rows for x in range(n)):
                rows.append(p)
                rec()
                rows.pop()

    rec()
    _SQUARES[n] = out
    return out


_PERMS = {}


def _perms(n):
    """(permutations of 1..n, per permutation a bit set of its (column, height) pairs, per permutation the bit set of
    the permutations that share no (column, height) pair with it, (view, view from the other end) per permutation)."""
    if n not in _PERMS:
        perms = list(itertools.permutations(range(1, n + 1)))
        bits = [sum(1 << (x * n + p[x] - 1) for x in range(n)) for p in perms]
        compat = []
        for i in range(len(perms)):
            m = 0
            bi = bits[i]
            for j in range(len(perms)):
                if not (bi & bits[j]):
                    m |= 1 << j
            compat.append(m)
        views = {p: (visible(p), visible(p[::-1])) for p in perms}
        _PERMS[n] = (perms, bits, compat, views)
    return _PERMS[n]


def search(n, up, dw, lf, rg, descending=False):
    """Generator of ALL boards obeying the rules and the clues (row-major tuples).  The board is filled line by line
    along the direction that carries more clues (transposing a board swaps up / lf and dw / rg)."""
    if sum(1 for c in list(up) + list(dw) if c >= 1) > sum(1 for c in list(lf) + list(rg) if c >= 1):
        for g in _search_rows(n, lf, rg, up, dw, descending):
            yield tuple(g[x * n + y] for y in range(n) for x in range(n))
    else:
        for g in _search_rows(n, up, dw, lf, rg, descending):
            yield g


def _search_rows(n, up, dw, lf, rg, descending):
    """Row by row.  A row candidate is a permutation with the views its row clues ask for; it is placed only if it
    repeats no height of a row above in any column and every clued column can still reach its clue: seen from the top
    the rows placed so far show a fixed number of buildings and the rows to come add at least one (unless height n is
    already placed) and at most the number of missing heights above the current maximum; seen from the bottom a placed
    building stays visible iff it exceeds everything placed below it and every missing height, and the rows to come
    add between one and their number.  Complete boards are checked column by column against both clues."""
    perms, bits, compat, views = _perms(n)
    rowmask = []
    for y in range(n):
        m = 0
        for j, p in enumerate(perms):
            a, b = views[p]
            if (lf[y] < 1 or a == lf[y]) and (rg[y] < 1 or b == rg[y]):
                m |= 1 << j
        rowmask.append(m)
    colclue = [x for x in range(n) if up[x] >= 1 or dw[x] >= 1]
    rows = []

    def indices(m):
        out = []
        while m:
            low = m & -m
            out.append(low.bit_length() - 1)
            m ^= low
        if descending:
            out.reverse()
        return out

    def column_possible(x):
        col = [r[x] for r in rows]
        missing = [v for v in range(1, n + 1) if v not in col]
        if up[x] >= 1:
            shown = visible(col)
            top = max(col)
            lo = shown + (1 if missing and top < n else 0)
            hi = shown + sum(1 for v in missing if v > top)
            if not lo <= up[x] <= hi:
                return False
        if dw[x] >= 1:
            bar = max(missing) if missing else 0
            stay = 0
            for v in reversed(col):
                if v > bar:
                    bar = v
                    stay += 1
            if not stay + (1 if missing else 0) <= dw[x] <= stay + len(missing):
                return False
        return True

    def rec(y, allowed):
        if y == n:
            if colclue:
                cols = list(zip(*rows))
                for x in colclue:
                    a, b = views[cols[x]]
                    if (up[x] >= 1 and a != up[x]) or (dw[x] >= 1 and b != dw[x]):
                        return
            yield tuple(v for r in rows for v in r)
            return
        for j in indices(allowed & rowmask[y]):
            rows.append(perms[j])
            if all(column_possible(x) for x in colclue):
                for g in rec(y + 1, allowed & compat[j]):
                    yield g
            rows.pop()

    return rec(0, (1 << len(perms)) - 1)


_TABLE = {}
_POOL = {}


def table(n):
    """Every board of order n (n <= 5) in search() order as (bytes of the row-major grid, bytes of its 4n views in the
    order up, dw, lf, rg)."""
    if n not in _TABLE:
        perms, bits, compat, views = _perms(n)
        z = [0] * n
        out = []
        for g in search(n, z, z, z, z):
            rows = [g[y * n : (y + 1) * n] for y in range(n)]
            cv = [views[c] for c in zip(*rows)]
            rv = [views[r] for r in rows]
            out.append((bytes(g), bytes([a for a, b in cv] + [b for a, b in cv] + [a for a, b in rv] + [b for a, b in rv])))
        _TABLE[n] = out
    return _TABLE[n]


def pool(n, i, c):
    """The boards of table(n) whose i-th view is c (index built on demand per clue position; speed only)."""
    if (n, i) not in _POOL:
        idx = {}
        for item in table(n):
            idx.setdefault(item[1][i], []).append(item)
        _POOL[(n, i)] = idx
    return _POOL[(n, i)].get(c, [])


def from_table(n, clues):
    want = [(i, c) for i, c in enumerate(clues) if c >= 1]
    if not want:
        return [tuple(g) for g, v in table(n)]
    best = min((pool(n, i, c) for i, c in want), key=len)
    return [tuple(g) for g, v in best if all(v[i] == c for i, c in want)]


_SEEDS = {}


def views_of(n, g):
    rows = [list(g[y * n : (y + 1) * n]) for y in range(n)]
    cols = [[rows[y][x] for y in range(n)] for x in range(n)]
    return [visible(c) for c in cols] + [visible(c[::-1]) for c in cols] + [visible(r) for r in rows] + [visible(r[::-1]) for r in rows]


def seed_boards(n, level):
    key = (n, level)
    if key in _SEEDS:
        return _SEEDS[key]
    z = [0] * n
    if n <= 5:
        allb = table(n)
        m = 3 if level == 0 else 9
        out = [tuple(allb[(len(allb) - 1) * j // (m - 1)][0]) for j in range(m)]
    else:
        want = [50000] if level == 0 else [0, 1000, 50000, 100000, 200000]
        out = []
        for i, g in enumerate(search(n, z, z, z, z)):
            if i in want:
                out.append(g)
                if i == want[-1]:
                    break
        out.append(next(search(n, z, z, z, z, descending=True)))
    _SEEDS[key] = out
    return out


def large_instances(n, level):
    """Clue lists (4n values in the order up, dw, lf, rg) of the large family.  Order 6 keeps to the dense sets: with
    one side or a few clues only it has far too many answers to list."""
    seen = set()
    out = []

    def emit(c):
        c = list(c)
        if tuple(c) not in seen:
            seen.add(tuple(c))
            out.append(c)

    if n <= 5:
        emit([0] * (4 * n))
        # single clues on the far lines: the full count n and the count 1
        for side in range(4):
            for v in (n, 1):
                c = [0] * (4 * n)
                c[side * n + n - 1] = v
                emit(c)
        c = [0] * (4 * n)
        c[n - 1] = c[2 * n + n - 1] = n  # far column and far row both ascending: contradictory corner
        emit(c)
    for gi, g in enumerate(seed_boards(n, level)):
        full = views_of(n, g)
        emit(full)
        lean = level == 0 and n >= 6 and gi > 0  # quick tier, order 6: the solver needs seconds on boards with many answers
        if n <= 5:
            ks = [2, 5] if level == 0 else [2, 3, 4, 5, 6, 7]
        else:
            ks = [4, 5] if level == 0 else [3, 4, 5, 6, 7, 8]
        for k in ks:
            for o in ([0] if level == 0 else [0, 1]):
                emit([0 if i % k == o else v for i, v in enumerate(full)])
        if lean:
            continue
        for side in range(4):
            if level == 0 and side in (0, 2):
                continue
            if n <= 5:  # one side only
                emit([v if i // n == side else 0 for i, v in enumerate(full)])
            else:  # all but one side
                emit([0 if i // n == side else v for i, v in enumerate(full)])
        if n <= 5:
            emit([v if i % n == n - 1 else 0 for i, v in enumerate(full)])  # the four clues of the far lines
            emit([v if i // n in (1, 3) else 0 for i, v in enumerate(full)])  # bottom and right side
        else:
            emit([0 if i % n == n - 1 else v for i, v in enumerate(full)])  # all but the clues of the far lines
        spots = [0, 4 * n - 1, 2 * n + n // 2] if level == 0 else [0, 4 * n - 1, 2 * n, n - 1, n, 2 * n - 1, 3 * n, 3 * n - 1, n // 2]
        for pos in spots:
            for d in (1, -1):
                w = full[pos] + d
                if 1 <= w <= n:
                    c = list(full)
                    c[pos] = w
                    if level or d == 1:
                        emit(c)
                    # the same change with the opposite clue of that line blanked, then also every third other clue
                    c = list(c)
                    side, i = divmod(pos, n)
                    c[(side ^ 1) * n + i] = 0
                    emit(c)
                    if level or n <= 5:
                        c = [0 if (j % 3 == 1 and j != pos) else v for j, v in enumerate(c)]
                        emit(c)
    return out


class Building(base.Rule):
    name = "building"

    def shapes(self, tier):
        level = 0 if tier == "quick" else 1
        return [1, 2, 3, 4, ("large", 5, level), ("large", 6, level)]

    def instances(self, shape, cap):
        if isinstance(shape, (tuple, list)):
            _, n, level = shape
            for c in large_instances(n, level):
                yield {"n": n, "up": c[0:n], "dw": c[n : 2 * n], "lf": c[2 * n : 3 * n], "rg": c[3 * n : 4 * n]}
            return
        n = shape
        lays, k = base.layouts(4 * n, 0, list(range(1, n + 1)), cap)
        for c in lays:
            yield {"n": n, "up": c[0:n], "dw": c[n : 2 * n], "lf": c[2 * n : 3 * n], "rg": c[3 * n : 4 * n]}

    def call(self, p):
        from cspuz.puzzle import building

        is_sat, answer = building.solve_building(p["n"], p["up"], p["dw"], p["lf"], p["rg"])
        return is_sat, base.sols_of(answer)

    def readings(self, p):
        clues = list(p["up"]) + list(p["dw"]) + list(p["lf"]) + list(p["rg"])
        if p["n"] == 5:
            return [from_table(5, clues)]
        if p["n"] >= 6:
            return [list(search(p["n"], p["up"], p["dw"], p["lf"], p["rg"]))]
        want = [(i, c) for i, c in enumerate(clues) if c >= 1]
        return [[g for g, views in squares(p["n"]) if all(views[i] == c for i, c in want)]]

    def example(self):
        p = {"n": 6, "up": [0, 0, 0, 2, 0, 3], "dw": [0, 6, 3, 3, 2, 0], "lf": [2, 0, 0, 3, 3, 3], "rg": [0, 6, 3, 0, 2, 0]}
        return p, "cspuz/puzzle/building.py _main() (twitter.com/semiexp/status/1223911674941296641; too large to enumerate)"


def selftest():
    assert visible([1, 2, 3]) == 3 and visible([3, 1, 2]) == 1 and visible([2, 1, 3]) == 2
    assert [len(squares(n)) for n in (1, 2, 3, 4)] == [1, 2, 12, 576]
    r = Building()
    for n in (1, 2, 3, 4):
        probs = list(r.instances(n, 2500))
        # dense clue sets too: all views of some boards, thinned, one changed
        sq = squares(n)
        for g, views in sq[:: max(1, len(sq) // 12)]:
            for k in (1000, 2, 3):
                for pos, d in ((None, 0), (0, 1), (4 * n - 1, -1), (2 * n, 1)):
                    c = [0 if i % k == 0 else v for i, v in enumerate(views)]
                    if pos is not None and 1 <= c[pos] + d <= n:
                        c[pos] += d
                    probs.append({"n": n, "up": c[0:n], "dw": c[n : 2 * n], "lf": c[2 * n : 3 * n], "rg": c[3 * n : 4 * n]})
        for p in probs:
            clues = list(p["up"]) + list(p["dw"]) + list(p["lf"]) + list(p["rg"])
            want = [(i, c) for i, c in enumerate(clues) if c >= 1]
            ref = sorted(g for g, views in sq if all(views[i] == c for i, c in want))
            assert sorted(search(n, p["up"], p["dw"], p["lf"], p["rg"])) == ref, p
            assert sorted(search(n, p["up"], p["dw"], p["lf"], p["rg"], descending=True)) == ref, p
    for g, views in squares(4)[::37]:
        assert views_of(4, g) == list(views)
    ex, _ = r.example()
    sols = list(search(6, ex["up"], ex["dw"], ex["lf"], ex["rg"]))
    assert len(sols) == 1
    v = views_of(6, sols[0])
    assert all(c == 0 or c == w for c, w in zip(ex["up"] + ex["dw"] + ex["lf"] + ex["rg"], v))
    # the table of order 5: as many boards as Latin squares of order 5, all different, views recomputed from scratch
    t = table(5)
    assert len(t) == 161280 and len(set(g for g, v in t)) == 161280
    for g, v in t[::997]:
        assert views_of(5, tuple(g)) == list(v)
        rows = [sorted(g[y * 5 : (y + 1) * 5]) for y in range(5)] + [sorted(g[x::5]) for x in range(5)]
        assert all(r == [1, 2, 3, 4, 5] for r in rows)
    for n in (1, 2, 3, 4):
        assert sorted((tuple(g), tuple(v)) for g, v in table(n)) == sorted(squares(n))
    for c in large_instances(5, 0)[:40]:
        assert sorted(from_table(5, c)) == sorted(search(5, c[0:5], c[5:10], c[10:15], c[15:20])), c


RULE = Building()
