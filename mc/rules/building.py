"""Building (skyscrapers): fill the n x n board with heights 1..n so that every row and every column holds each height
once; a clue outside the board = number of buildings visible from that side looking along the line (a building is
visible iff every building in front of it is lower).

Problem dict: {"n": n, "up": [...], "dw": [...], "lf": [...], "rg": [...]}; up[i] / dw[i] look down / up column i from the
top / bottom edge, lf[i] / rg[i] look along row i from the left / right edge; a clue >= 1 is a clue, 0 is no clue.
Answer keys: the n x n height grid, row-major.  Well-formed: every clue in 0..n.
"""

import itertools

from . import base

_SQUARES = {}


def visible(line):
    top = 0
    cnt = 0
    for v in line:
        if v > top:
            top = v
            cnt += 1
    return cnt


def squares(n):
    """All Latin squares of 1..n with their 4n views, as (row-major tuple, views) where views is in the order
    up[0..n-1], dw[0..n-1], lf[0..n-1], rg[0..n-1]."""
    if n in _SQUARES:
        return _SQUARES[n]
    perms = list(itertools.permutations(range(1, n + 1)))
    out = []
    rows = []

    def rec():
        if len(rows) == n:
            cols = [[rows[y][x] for y in range(n)] for x in range(n)]
            views = (
                [visible(c) for c in cols]
                + [visible(c[::-1]) for c in cols]
                + [visible(r) for r in rows]
                + [visible(r[::-1]) for r in rows]
            )
            out.append((tuple(v for r in rows for v in r), tuple(views)))
            return
        for p in perms:
            if all(p[x] != r[x] for r in rows for x in range(n)):
                rows.append(p)
                rec()
                rows.pop()

    rec()
    _SQUARES[n] = out
    return out


class Building(base.Rule):
    name = "building"

    def shapes(self, tier):
        return [1, 2, 3, 4]

    def instances(self, shape, cap):
        n = shape
        lays, k = base.layouts(4 * n, 0, list(range(1, n + 1)), cap)
        for c in lays:
            yield {"n": n, "up": c[0:n], "dw": c[n : 2 * n], "lf": c[2 * n : 3 * n], "rg": c[3 * n : 4 * n]}

    def call(self, p):
        from cspuz.puzzle import building

        is_sat, answer = building.solve_building(p["n"], p["up"], p["dw"], p["lf"], p["rg"])
        return is_sat, base.sols_of(answer)

    def readings(self, p):
        clues = list(p["up"]) + list(p["dw"]) + list(p["lf"]) + list(p["rg"])
        want = [(i, c) for i, c in enumerate(clues) if c >= 1]
        return [[g for g, views in squares(p["n"]) if all(views[i] == c for i, c in want)]]

    def example(self):
        p = {"n": 6, "up": [0, 0, 0, 2, 0, 3], "dw": [0, 6, 3, 3, 2, 0], "lf": [2, 0, 0, 3, 3, 3], "rg": [0, 6, 3, 0, 2, 0]}
        return p, "cspuz/puzzle/building.py _main() (twitter.com/semiexp/status/1223911674941296641; too large to enumerate)"


RULE = Building()
