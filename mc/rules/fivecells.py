"""Fivecells (pzv.jp "fivecells"): divide the open cells of the board into orthogonally connected regions of exactly five
cells (pentominoes); a number in a cell = how many of the four sides of that cell are region borders, where the outer
edge of the board and the sides towards holes count as borders.

Instance: {"height", "width", "problem"[y][x]}: -2 hole, -1 open cell without clue, >= 0 open cell with clue.
Well-formed: at least one open cell, clues are >= 0.  Boards of the puzzle have a multiple of five open cells; the ladder
also holds four tiny boards whose open cells do not number a multiple of five (no division exists: expected "no solution").
Answer keys (fixed order): one border flag per pair of orthogonally adjacent open cells, in the order in which the module
builds its graph: cells row-major, for each open cell first the pair (cell, cell below), then the pair (cell, cell to the
right); True = the two cells lie in different regions.

Large family (shape ("large", h, w, holes)): boards of 20 .. 36 cells (4x5 .. 6x6, 2x10, 1x15 ..) with dense clue sets
derived from divisions.  tilings() lists the divisions as an exact cover: every pentomino (connected five-cell set of open
cells, bit mask) is filed under its first cell in row-major order, the first uncovered cell is always covered next, and a
clue is checked on the pentomino itself (the number of borders of a cell depends on nothing but its own region).
selftest() compares it with pentomino_partitions() + clue filter.
"""

import itertools

from . import base

_PART = {}


def edge_list(h, w, is_open):
    out = []
    for y in range(h):
        for x in range(w):
            if is_open[y][x]:
                if y + 1 < h and is_open[y + 1][x]:
                    out.append(((y, x), (y + 1, x)))
                if x + 1 < w and is_open[y][x + 1]:
                    out.append(((y, x), (y, x + 1)))
    return out


def pentomino_partitions(h, w, holes):
    """All partitions of the open cells into connected five-cell regions, as dicts cell -> region number."""
    key = (h, w, holes)
    if key in _PART:
        return _PART[key]
    hs = set(holes)
    cells = [(y, x) for y in range(h) for x in range(w) if (y, x) not in hs]
    out = []

    def grow(region, allowed, acc):
        """all connected supersets of `region` of size 5 inside `allowed` (each once)."""
        if len(region) == 5:
            acc.add(frozenset(region))
            return
        cand = set()
        for (y, x) in region:
            for dy, dx in ((0, 1), (1, 0), (0, -1), (-1, 0)):
                c = (y + dy, x + dx)
                if c in allowed and c not in region:
                    cand.add(c)
        for c in cand:
            grow(region | {c}, allowed, acc)

    def rec(remaining, assign, nreg):
        if not remaining:
            out.append(dict(assign))
            return
        first = min(remaining)
        acc = set()
        grow(frozenset([first]), remaining, acc)
        for reg in sorted(acc, key=sorted):
            for c in reg:
                assign[c] = nreg
            rec(remaining - reg, assign, nreg + 1)
            for c in reg:
                del assign[c]

    if len(cells) % 5 == 0:
        rec(frozenset(cells), {}, 0)
    _PART[key] = out
    return out


# ---- large boards: exact cover on bit masks --------------------------------------------------------
_PIECES = {}


def pieces(h, w, holes):
    """cell index -> list of bit masks of the connected five-cell sets of open cells whose smallest cell index it is."""
    key = (h, w, tuple(holes))
    if key in _PIECES:
        return _PIECES[key]
    hs = set(holes)
    is_open = [(i // w, i % w) not in hs for i in range(h * w)]
    nb = []
    for i in range(h * w):
        y, x = i // w, i % w
        m = 0
        for dy, dx in ((0, 1), (1, 0), (0, -1), (-1, 0)):
            yy, xx = y + dy, x + dx
            if 0 <= yy < h and 0 <= xx < w and is_open[yy * w + xx]:
                m |= 1 << (yy * w + xx)
        nb.append(m)
    out = {}
    for c in range(h * w):
        if not is_open[c]:
            continue
        found = []
        above = ~((1 << (c + 1)) - 1)  # only cells after c

        def grow(cur, size, banned):
            if size == 5:
                found.append(cur)
                return
            front = 0
            m = cur
            while m:
                b = m & -m
                m ^= b
                front |= nb[b.bit_length() - 1]
            front &= above & ~cur & ~banned
            bn = banned
            while front:
                b = front & -front
                front ^= b
                grow(cur | b, size + 1, bn)
                bn |= b

        grow(1 << c, 1, 0)
        out[c] = found
    _PIECES[key] = (out, nb)
    return _PIECES[key]


def tilings(h, w, prob):
    """All divisions of the open cells into pentominoes that obey the clues, as bytes `region number per cell index`
    (255 for a hole)."""
    holes = tuple((y, x) for y in range(h) for x in range(w) if prob[y][x] == -2)
    pcs, nb = pieces(h, w, holes)
    nopen = h * w - len(holes)
    if nopen % 5:
        return []
    clues = [(y * w + x, prob[y][x]) for y in range(h) for x in range(w) if prob[y][x] >= 0]

    def fits(pm):
        for c, v in clues:
            if pm >> c & 1 and 4 - bin(nb[c] & pm).count("1") != v:
                return False
        return True

    allowed = {c: [pm for pm in lst if fits(pm)] for c, lst in pcs.items()}
    full = 0
    for c in pcs:
        full |= 1 << c
    out = []
    chosen = []

    def rec(rest):
        if not rest:
            lab = bytearray([255] * (h * w))
            for r, pm in enumerate(chosen):
                m = pm
                while m:
                    b = m & -m
                    m ^= b
                    lab[b.bit_length() - 1] = r
            out.append(bytes(lab))
            return
        c = (rest & -rest).bit_length() - 1
        for pm in allowed[c]:
            if pm & rest == pm:
                chosen.append(pm)
                rec(rest ^ pm)
                chosen.pop()

    rec(full)
    return out


def full_clues(h, w, lab):
    """The complete clue grid of a division (region number per cell index, 255 = hole)."""
    pr = [[-2] * w for _ in range(h)]
    for i, r in enumerate(lab):
        if r == 255:
            continue
        y, x = i // w, i % w
        same = 0
        for dy, dx in ((0, 1), (1, 0), (0, -1), (-1, 0)):
            yy, xx = y + dy, x + dx
            if 0 <= yy < h and 0 <= xx < w and lab[yy * w + xx] == r:
                same += 1
        pr[y][x] = 4 - same
    return pr


_FREE = {}


def free_tilings(h, w, holes):
    key = (h, w, tuple(holes))
    if key not in _FREE:
        prob = [[-1] * w for _ in range(h)]
        for y, x in holes:
            prob[y][x] = -2
        _FREE[key] = tilings(h, w, prob)
    return _FREE[key]


def _picks(n, count):
    """count indices spread evenly over range(n), first and last included."""
    if n <= count:
        return list(range(n))
    return sorted(set(round(i * (n - 1) / (count - 1)) for i in range(count)))


def _dense_variants(full, rich, heavy=False):
    """Clue grids derived from a complete one: itself, every k-th clue blanked, one clue changed by one (in the complete
    grid and in the half-blanked one)."""
    h, w = len(full), len(full[0])
    cells = [(y, x) for y in range(h) for x in range(w) if full[y][x] >= 0]
    m = len(cells)

    def build(blank=None, change=None):
        g = [list(r) for r in full]
        for j, (y, x) in enumerate(cells):
            if blank and j % blank[0] == blank[1]:
                g[y][x] = -1
        if change:
            y, x = cells[change[0] % m]
            g[y][x] = full[y][x] + (change[1] if full[y][x] + change[1] >= 0 else 1)
        return g

    out = [build()]
    for b in ([(2, 0), (2, 1), (3, 0), (3, 1), (5, 4), (4, 2)] if rich else ([(3, 0)] if heavy else [(2, 1), (3, 0)])):
        out.append(build(blank=b))
    spots = [(0, 1), (m - 1, -1), (m // 2, 1)]
    if rich:
        spots += [(0, -1), (m - 1, 1), (m // 2, -1), (w - 1, 1), (m - w, -1), (m // 2 + w // 2, 1), (m // 4, -1), (3 * m // 4, 1)]
    for c in spots:
        out.append(build(change=c))
    for c in ([(1, 1), (m - 2, -1), (m // 2 + 1, -1), (m // 2 - 1, 1)] if rich else [(m - 2, -1)]):
        out.append(build(blank=(2, 0), change=c))  # odd positions survive the blanking
    res = []
    for g in out:
        if g not in res:
            res.append(g)
    return res


LARGE_QUICK = [(5, 5), (4, 5), (5, 4), (2, 10), (10, 2), (1, 15), (15, 1), (5, 6), (6, 5)]
LARGE_THOROUGH = [(3, 10), (10, 3), (1, 20), (20, 1), (6, 6, 5, 5), (6, 6, 2, 3), (6, 6, 0, 0), (5, 7), (7, 5), (3, 7, 2, 6), (7, 3, 6, 2), (4, 4, 3, 3)]


def large_instances(h, w, holes, rich):
    seen = set()
    for p in _large_instances(h, w, holes, rich):
        key = repr(p)
        if key not in seen:
            seen.add(key)
            yield p


def _large_instances(h, w, holes, rich):
    def inst(g):
        return {"height": h, "width": w, "problem": [list(r) for r in g]}

    def single(y, x, v):
        g = [[-1] * w for _ in range(h)]
        for hy, hx in holes:
            g[hy][hx] = -2
        if v is None:
            return inst(g)
        if g[y][x] == -2:
            return None
        g[y][x] = v
        return inst(g)

    heavy = h * w >= 25  # one solve of a sparsely clued board costs 1-2 s from here on
    if rich or h * w < 30:
        yield single(0, 0, None)  # clue-free
    # single clues on the last row / last column / far corner, values up to the impossible 4 and 5
    fy, fx = h - 1, w - 1
    if (fy, fx) in holes:
        fx -= 1
    singles = [(fy, fx, 4)]
    if rich:
        singles += [(fy, fx, 3 if min(h, w) > 1 else 2)]
    if rich:
        singles += [(fy, fx, 5), (fy, fx, 2), (fy, w // 2, 1), (h // 2, fx if fy == h - 1 and fx == w - 1 else w - 1, 2), (fy, w // 2, 3), (h // 2, w // 2, 0), (h // 2, w // 2, 4)]
    for y, x, v in singles:
        p = single(y, x, v)
        if p is not None:
            yield p
    divs = free_tilings(h, w, holes)
    if rich:
        idx = _picks(len(divs), 3 if h * w >= 30 else 6)
    else:
        idx = _picks(len(divs), 4)[1:3] if (h, w) == (5, 5) else _picks(len(divs), 3)[1:2]
        if not idx and divs:
            idx = [0]
    for i in idx:
        for g in _dense_variants(full_clues(h, w, divs[i]), rich, heavy):
            yield inst(g)


def selftest():
    """tilings() == pentomino_partitions() + clue filter: all hole placements of the small boards, clue-free and with every
    single clue / a sample of double clues."""
    rule = Fivecells()
    cases = 0
    for h, w, nh in [(1, 5, 0), (5, 1, 0), (1, 6, 1), (2, 3, 1), (3, 2, 1), (2, 5, 0), (5, 2, 0), (3, 4, 2), (4, 3, 2), (2, 6, 2), (4, 4, 1), (3, 5, 0), (5, 3, 0), (2, 2, 0)]:
        for shape_cap in (120,):
            for k, p in enumerate(rule.instances((h, w, nh), 12000 if h * w < 12 else 1500)):
                if h * w >= 12 and k % 7:
                    continue
                a = sorted(rule._readings_small(p))
                b = sorted(rule._readings_large(p))
                assert a == b, (p, len(a), len(b))
                cases += 1
    assert len(free_tilings(5, 5, ())) == 4006 and len(free_tilings(2, 10, ())) == 45
    return cases


class Fivecells(base.Rule):
    name = "fivecells"

    def shapes(self, tier):
        # (h, w, number of holes): h*w - holes is a multiple of five, except on the first four (undividable) boards
        s = [(1, 1, 0), (1, 2, 0), (2, 1, 0), (2, 2, 0), (1, 5, 0), (5, 1, 0), (1, 6, 1), (6, 1, 1), (2, 3, 1), (3, 2, 1), (2, 5, 0), (5, 2, 0)]
        if tier != "quick":
            s += [(3, 4, 2), (4, 3, 2), (2, 6, 2), (6, 2, 2), (4, 4, 1), (3, 5, 0), (5, 3, 0), (1, 10, 0), (10, 1, 0)]
        s += [("large",) + b for b in LARGE_QUICK]
        if tier != "quick":
            s += [("large",) + b for b in LARGE_THOROUGH]
        return s

    def instances(self, shape, cap):
        if shape[0] == "large":
            h, w = shape[1], shape[2]
            holes = tuple((shape[i], shape[i + 1]) for i in range(3, len(shape), 2))
            for p in large_instances(h, w, holes, cap > 1000):
                yield p
            return
        h, w, nh = shape
        cells = [(y, x) for y in range(h) for x in range(w)]
        placements = list(itertools.combinations(range(h * w), nh))
        per = max(1, cap // len(placements))
        if h * w >= 15:
            per = max(1, per // 8)  # one solve takes 0.3-0.6 s here: single clues only
        alphabet = [0, 1, 2, 3] if cap <= 1000 else [0, 1, 2, 3, 4]
        nopen = h * w - nh
        lays, k = base.layouts(nopen, -1, alphabet, per)
        for holes in placements:
            hs = set(holes)
            opens = [i for i in range(h * w) if i not in hs]
            for lay in lays:
                flat = [-2] * (h * w)
                for i, v in zip(opens, lay):
                    flat[i] = v
                yield {"height": h, "width": w, "problem": base.grid(flat, h, w)}

    def call(self, p):
        from cspuz.puzzle import fivecells

        import warnings

        with warnings.catch_warnings():
            warnings.simplefilter("ignore")  # "no answer key is given" on the boards without any pair of adjacent open cells
            is_sat, is_border = fivecells.solve_fivecells(p["height"], p["width"], p["problem"])
        return is_sat, base.sols_of(is_border)

    def readings(self, p):
        if p["height"] * p["width"] >= 20:
            return [self._readings_large(p)]
        return [self._readings_small(p)]

    def _readings_large(self, p):
        h, w, prob = p["height"], p["width"], p["problem"]
        is_open = [[prob[y][x] != -2 for x in range(w)] for y in range(h)]
        edges = [(a[0] * w + a[1], b[0] * w + b[1]) for a, b in edge_list(h, w, is_open)]
        clues = [(y, x, prob[y][x]) for y in range(h) for x in range(w) if prob[y][x] >= 0]
        if len(clues) > 2:
            labs = tilings(h, w, prob)
        else:
            # nearly clue-free: filter the (cached) list of all divisions instead of searching again
            holes = tuple((y, x) for y in range(h) for x in range(w) if prob[y][x] == -2)
            labs = []
            for lab in free_tilings(h, w, holes):
                ok = True
                for y, x, v in clues:
                    same = 0
                    for dy, dx in ((0, 1), (1, 0), (0, -1), (-1, 0)):
                        yy, xx = y + dy, x + dx
                        if 0 <= yy < h and 0 <= xx < w and lab[yy * w + xx] == lab[y * w + x]:
                            same += 1
                    if 4 - same != v:
                        ok = False
                        break
                if ok:
                    labs.append(lab)
        return [tuple(lab[a] != lab[b] for a, b in edges) for lab in labs]

    def _readings_small(self, p):
        h, w, prob = p["height"], p["width"], p["problem"]
        holes = tuple((y, x) for y in range(h) for x in range(w) if prob[y][x] == -2)
        is_open = [[prob[y][x] != -2 for x in range(w)] for y in range(h)]
        edges = edge_list(h, w, is_open)
        out = []
        for part in pentomino_partitions(h, w, holes):
            ok = True
            for y in range(h):
                for x in range(w):
                    c = prob[y][x]
                    if c >= 0:
                        same = 0
                        for dy, dx in ((0, 1), (1, 0), (0, -1), (-1, 0)):
                            nb = (y + dy, x + dx)
                            if nb in part and part[nb] == part[(y, x)]:
                                same += 1
                        if 4 - same != c:
                            ok = False
                            break
                if not ok:
                    break
            if ok:
                out.append(tuple(part[a] != part[b] for a, b in edges))
        return out

    def example(self):
        prob = [[-1, 2, 3, -1, -1], [-1, -1, -1, -1, -1], [-1, -1, 2, 1, -1], [-1, 3, -1, -1, -1], [-1, -1, -1, -1, 3]]
        return {"height": 5, "width": 5, "problem": prob}, "cspuz/puzzle/fivecells.py _main(): pzv.jp fivecells/5/5/a23i21b3g3"


RULE = Fivecells()
