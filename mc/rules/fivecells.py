"""Fivecells (pzv.jp "fivecells"): divide the open cells of the board into orthogonally connected regions of exactly five
cells (pentominoes); a number in a cell = how many of the four sides of that cell are region borders, where the outer
edge of the board and the sides towards holes count as borders.

Instance: {"height", "width", "problem"[y][x]}: -2 hole, -1 open cell without clue, >= 0 open cell with clue.
Well-formed: at least one open cell, clues are >= 0.  Boards of the puzzle have a multiple of five open cells; the ladder
also holds four tiny boards whose open cells do not number a multiple of five (no division exists: expected "no solution").
Answer keys (fixed order): one border flag per pair of orthogonally adjacent open cells, in the order in which the module
builds its graph: cells row-major, for each open cell first the pair (cell, cell below), then the pair (cell, cell to the
right); True = the two cells lie in different regions.
"""

import itertools

from . import base

_PART = {}


def edge_list(h, w, is_open):
    out = []
    for y in range(h):
        for x in range(w):
            if is_open[y][x]:
                if y + 1 < h and is_open[y + 1][x]:
                    out.append(((y, x), (y + 1, x)))
                if x + 1 < w and is_open[y][x + 1]:
                    out.append(((y, x), (y, x + 1)))
    return out


def pentomino_partitions(h, w, holes):
    """All partitions of the open cells into connected five-cell regions, as dicts cell -> region number."""
    key = (h, w, holes)
    if key in _PART:
        return _PART[key]
    hs = set(holes)
    cells = [(y, x) for y in range(h) for x in range(w) if (y, x) not in hs]
    out = []

    def grow(region, allowed, acc):
        """all connected supersets of `region` of size 5 inside `allowed` (each once)."""
        if len(region) == 5:
            acc.add(frozenset(region))
            return
        cand = set()
        for (y, x) in region:
            for dy, dx in ((0, 1), (1, 0), (0, -1), (-1, 0)):
                c = (y + dy, x + dx)
                if c in allowed and c not in region:
                    cand.add(c)
        for c in cand:
            grow(region | {c}, allowed, acc)

    def rec(remaining, assign, nreg):
        if not remaining:
            out.append(dict(assign))
            return
        first = min(remaining)
        acc = set()
        grow(frozenset([first]), remaining, acc)
        for reg in sorted(acc, key=sorted):
            for c in reg:
                assign[c] = nreg
            rec(remaining - reg, assign, nreg + 1)
            for c in reg:
                del assign[c]

    if len(cells) % 5 == 0:
        rec(frozenset(cells), {}, 0)
    _PART[key] = out
    return out


class Fivecells(base.Rule):
    name = "fivecells"

    def shapes(self, tier):
        # (h, w, number of holes): h*w - holes is a multiple of five, except on the first four (undividable) boards
        s = [(1, 1, 0), (1, 2, 0), (2, 1, 0), (2, 2, 0), (1, 5, 0), (5, 1, 0), (1, 6, 1), (6, 1, 1), (2, 3, 1), (3, 2, 1), (2, 5, 0), (5, 2, 0)]
        if tier != "quick":
            s += [(3, 4, 2), (4, 3, 2), (2, 6, 2), (6, 2, 2), (4, 4, 1), (3, 5, 0), (5, 3, 0), (1, 10, 0), (10, 1, 0)]
        return s

    def instances(self, shape, cap):
        h, w, nh = shape
        cells = [(y, x) for y in range(h) for x in range(w)]
        placements = list(itertools.combinations(range(h * w), nh))
        per = max(1, cap // len(placements))
        if h * w >= 15:
            per = max(1, per // 8)  # one solve takes 0.3-0.6 s here: single clues only
        alphabet = [0, 1, 2, 3] if cap <= 1000 else [0, 1, 2, 3, 4]
        nopen = h * w - nh
        lays, k = base.layouts(nopen, -1, alphabet, per)
        for holes in placements:
            hs = set(holes)
            opens = [i for i in range(h * w) if i not in hs]
            for lay in lays:
                flat = [-2] * (h * w)
                for i, v in zip(opens, lay):
                    flat[i] = v
                yield {"height": h, "width": w, "problem": base.grid(flat, h, w)}

    def call(self, p):
        from cspuz.puzzle import fivecells

        import warnings

        with warnings.catch_warnings():
            warnings.simplefilter("ignore")  # "no answer key is given" on the boards without any pair of adjacent open cells
            is_sat, is_border = fivecells.solve_fivecells(p["height"], p["width"], p["problem"])
        return is_sat, base.sols_of(is_border)

    def readings(self, p):
        h, w, prob = p["height"], p["width"], p["problem"]
        holes = tuple((y, x) for y in range(h) for x in range(w) if prob[y][x] == -2)
        is_open = [[prob[y][x] != -2 for x in range(w)] for y in range(h)]
        edges = edge_list(h, w, is_open)
        out = []
        for part in pentomino_partitions(h, w, holes):
            ok = True
            for y in range(h):
                for x in range(w):
                    c = prob[y][x]
                    if c >= 0:
                        same = 0
                        for dy, dx in ((0, 1), (1, 0), (0, -1), (-1, 0)):
                            nb = (y + dy, x + dx)
                            if nb in part and part[nb] == part[(y, x)]:
                                same += 1
                        if 4 - same != c:
                            ok = False
                            break
                if not ok:
                    break
            if ok:
                out.append(tuple(part[a] != part[b] for a, b in edges))
        return [out]

    def example(self):
        prob = [[-1, 2, 3, -1, -1], [-1, -1, -1, -1, -1], [-1, -1, 2, 1, -1], [-1, 3, -1, -1, -1], [-1, -1, -1, -1, 3]]
        return {"height": 5, "width": 5, "problem": prob}, "cspuz/puzzle/fivecells.py _main(): pzv.jp fivecells/5/5/a23i21b3g3"


RULE = Fivecells()
