"""Aquarium (puzz.link "aquarium").

Instance: the board is divided into orthogonally connected rooms (tanks; a partition of the board); clue_row[y] /
clue_col[x] >= 0 give the number of water cells in that row / column, -1 = no clue.  Rules: fill some cells with water so
that every tank is filled from the bottom (gravity) and the line clues hold.

"Filled from the bottom" has two published readings (puzz.link offers both; DESIGN.md C11 envelope iii):
  reading 0, level per connected part ("part"): water behaves locally - a water cell's left and right neighbours that
      belong to the same tank are water, and the cell directly below it, if it belongs to the same tank, is water.  Two
      arms of a U-shaped tank (or the two legs of an n-shaped tank) may therefore stand at different levels.
  reading 1, level per whole tank ("room"): every tank has one water level - if a cell of the tank is water then every
      cell of the same tank in the same row or in any lower row is water.
Every reading-1 answer is a reading-0 answer; the readings differ only for tanks with two cells in one row that are not
joined inside that row (needs width >= 3).  readings() returns [part] when both give the same answers on the
instance and [part, room] otherwise.

problem = {"height", "width", "blocks": [[[y, x], ...], ...], "clue_row": [h ints], "clue_col": [w ints]}
key order: is_water[y][x] row-major (y outer, x inner), bool.

Shape descriptor: (h, w, r) = the h x w board divided into exactly r tanks.
Cap rule: P = number of partitions of the board into r connected tanks (canonical order); clue layouts =
base.layouts over the h + w line clues (rows first, then columns; default -1; alphabet 0..max(h, w), restricted to
row clues <= w and column clues <= h), with at most max(1, cap // P) layouts (k >= 1 always); if P x layouts still
exceeds cap, every ceil(P x layouts / cap)-th partition.

"large" family, descriptor ("large", h, w, level) with level 0 = quick / 1 = thorough (problem dicts carry "family":
"large"): boards 4x4, 5x5, 4x6, 6x4 (thorough also 3x5 .. 6x6) and long boards 1x12, 12x1 (thorough also 2x10, 10x2,
1x16, 16x1) with structured tank partitions - rows, columns, single cells, 2x2 blocks, quadrants, nested U shapes,
nested n shapes, rings, combs with the bar below / above, staircases, a snake cut into pieces of 3 resp. 5 cells, the
whole board.  U, n, ring and comb tanks have arms, so the two readings differ on them.  Per partition: the clue-free
board (if it has at most 20000 answers), single clues "whole line" and 0 on the last row / last column, and clue sets
derived from answers G (every tank filled to a level picked by a fixed formula; any such filling is an answer of the
clue-free board under reading 0): all h + w counts of G, the counts minus every k-th clue, rows only, columns only,
last row and last column only, and one clue changed by +1 / -1 (first, last, middle), as is and thinned.
Oracle for the family: fast_fillings() - the admissible water sets of one tank listed from the rule without trying
all 2^cells subsets (reading 0: the tank's horizontal runs are filled as a whole and a run needs every run of the tank
directly below one of its cells; reading 1: one level per tank) - and solve_fast() - tank by tank, a line is cut off
when it exceeds its clue or cannot reach it any more; selftest() compares both with fillings() / _solve() on the small
boards.
"""

import itertools

from . import base
from .. import graphref

_PARTS = {}
_FILL = {}


def _own_partitions(h, w, min_size):
    """Partitions of the h x w board into connected rooms of >= min_size cells (block of the smallest free cell first,
    grown as a connected subset).  Agrees with graphref.connected_partitions (selftest)."""
    out = []

    def nbrs(c):
        y, x = c
        for dy, dx in ((0, 1), (1, 0), (0, -1), (-1, 0)):
            if 0 <= y + dy < h and 0 <= x + dx < w:
                yield (y + dy, x + dx)

    def subsets(seed, free):
        res = []

        def grow(cur, frontier, banned):
            res.append(frozenset(cur))
            for i, c in enumerate(frontier):
                b2 = banned | set(frontier[:i])
                cur2 = cur | {c}
                f2 = list(frontier[i + 1 :])
                for d in nbrs(c):
                    if d in free and d not in cur2 and d not in b2 and d not in f2:
                        f2.append(d)
                grow(cur2, f2, b2)

        grow({seed}, [d for d in nbrs(seed) if d in free], set())
        return res

    def rec(free, acc):
        if not free:
            out.append(list(acc))
            return
        seed = min(free)
        for s in subsets(seed, free):
            rest = free - s
            if len(s) < min_size or 0 < len(rest) < min_size:
                continue
            rec(rest, acc + [s])

    rec(frozenset((y, x) for y in range(h) for x in range(w)), [])
    return out


def room_partitions(h, w, min_size=1):
    """Canonically ordered list of partitions; a partition is a list of rooms sorted by smallest cell, a room a sorted
    list of [y, x]."""
    key = (h, w, min_size)
    if key not in _PARTS:
        if h * w <= 9:
            raw = [
                [[(i // w, i % w) for i in b] for b in p]
                for p in graphref.connected_partitions(h * w, graphref.grid_edges(h, w))
                if all(len(b) >= min_size for b in p)
            ]
        else:
            raw = _own_partitions(h, w, min_size)
        canon = sorted(set(tuple(sorted(tuple(sorted(b)) for b in p)) for p in raw), key=lambda p: (len(p), p))
        _PARTS[key] = [[[list(c) for c in b] for b in p] for p in canon]
    return _PARTS[key]


def fillings(room, reading):
    """All admissible water sets of one tank (tuple of (y, x)) under a reading, as frozensets."""
    key = (room, reading)
    if key in _FILL:
        return _FILL[key]
    cells = set(room)
    out = []
    for mask in range(1 << len(room)):
        water = set(room[k] for k in range(len(room)) if mask >> k & 1)
        ok = True
        for y, x in water:
            if reading == "part":
                for c2 in ((y, x - 1), (y, x + 1), (y + 1, x)):
                    if c2 in cells and c2 not in water:
                        ok = False
            else:
                for c2 in cells:
                    if c2[0] >= y and c2 not in water:
                        ok = False
            if not ok:
                break
        if ok:
            out.append(frozenset(water))
    _FILL[key] = out
    return out


_FAST = {}


def fast_fillings(room, reading):
    """All admissible water sets of one tank (tuple of (y, x)) under a reading, as frozensets, without trying every
    subset.  Reading "part": water spreads to the left and right neighbour inside the tank, so the maximal horizontal
    runs of the tank are filled as a whole; a cell is water only if the tank cell directly below it is, so a run can be
    filled only if every run holding the cell below one of its cells is filled - the fillings are the sets of runs
    closed under "needs".  Reading "room": one level per tank - the cells of the tank in row t and below, for every
    row t of the tank, or nothing."""
    key = (room, reading)
    if key in _FAST:
        return _FAST[key]
    cells = set(room)
    out = []
    if reading == "room":
        out.append(frozenset())
        for t in sorted(set(y for y, x in room), reverse=True):
            out.append(frozenset(c for c in room if c[0] >= t))
    else:
        runs = []
        run_of = {}
        for y, x in sorted(cells):
            if (y, x - 1) in cells:
                runs[run_of[(y, x - 1)]].append((y, x))
                run_of[(y, x)] = run_of[(y, x - 1)]
            else:
                run_of[(y, x)] = len(runs)
                runs.append([(y, x)])
        needs = [sorted(set(run_of[(y + 1, x)] for y, x in run if (y + 1, x) in cells)) for run in runs]
        order = sorted(range(len(runs)), key=lambda r: -runs[r][0][0])  # bottom rows first: a run's needs come before it

        def rec(i, chosen):
            if i == len(order):
                out.append(frozenset(c for r in chosen for c in runs[r]))
                return
            r = order[i]
            rec(i + 1, chosen)
            if all(q in chosen for q in needs[r]):
                rec(i + 1, chosen | {r})

        rec(0, frozenset())
    _FAST[key] = out
    return out


def solve_fast(p, reading, limit=None):
    """All water sets obeying the rules and the clues under a reading, as row-major bool tuples: one admissible filling
    per tank, tank by tank; a branch ends when a clued line already holds more water than its clue or could not reach
    its clue even if every cell of the tanks still to come were water."""
    h, w = p["height"], p["width"]
    rooms = [tuple((y, x) for y, x in b) for b in p["blocks"]]
    cr, cc = list(p["clue_row"]), list(p["clue_col"])
    # tanks touching clued lines first (they are the ones that can be cut off)
    opts = []
    for room in rooms:
        fs = []
        for f in fast_fillings(room, reading):
            rcount = [0] * h
            ccount = [0] * w
            for y, x in f:
                rcount[y] += 1
                ccount[x] += 1
            fs.append((f, rcount, ccount))
        opts.append(fs)
    rest_r = [[0] * h for _ in range(len(rooms) + 1)]  # cells per line in tanks i, i+1, ...
    rest_c = [[0] * w for _ in range(len(rooms) + 1)]
    for i in range(len(rooms) - 1, -1, -1):
        rest_r[i] = list(rest_r[i + 1])
        rest_c[i] = list(rest_c[i + 1])
        for y, x in rooms[i]:
            rest_r[i][y] += 1
            rest_c[i][x] += 1
    rows = [y for y in range(h) if cr[y] >= 0]
    cols = [x for x in range(w) if cc[x] >= 0]
    out = []
    chosen = []

    def rec(i, rcur, ccur):
        if i == len(rooms):
            water = set()
            for f in chosen:
                water |= f
            out.append(tuple((y, x) in water for y in range(h) for x in range(w)))
            if limit is not None and len(out) > limit:
                raise OverflowError(len(out))
            return
        for f, rc, cc_ in opts[i]:
            ok = True
            for y in rows:
                v = rcur[y] + rc[y]
                if v > cr[y] or v + rest_r[i + 1][y] < cr[y]:
                    ok = False
                    break
            if ok:
                for x in cols:
                    v = ccur[x] + cc_[x]
                    if v > cc[x] or v + rest_c[i + 1][x] < cc[x]:
                        ok = False
                        break
            if not ok:
                continue
            chosen.append(f)
            rec(i + 1, [a + b for a, b in zip(rcur, rc)], [a + b for a, b in zip(ccur, cc_)])
            chosen.pop()

    rec(0, [0] * h, [0] * w)
    return out


def structured(h, w):
    """Named tank partitions of the h x w board (rooms as sorted lists of [y, x], ordered by smallest cell)."""
    cells = [(y, x) for y in range(h) for x in range(w)]
    out = []

    def add(name, label):
        groups = {}
        for c in cells:
            groups.setdefault(label(*c), []).append(c)
        rooms = []
        for g in groups.values():  # a label class may fall apart: its connected pieces are the tanks
            for comp in base.components(g):
                rooms.append(sorted(comp))
        rooms.sort()
        part = [[list(c) for c in room] for room in rooms]
        if all(part != q for _, q in out):
            out.append((name, part))

    add("whole", lambda y, x: 0)
    add("rows", lambda y, x: y)
    add("columns", lambda y, x: x)
    add("cells", lambda y, x: (y, x))
    add("blocks-2x2", lambda y, x: (y // 2, x // 2))
    add("quadrants", lambda y, x: (y >= h // 2, x >= w // 2))
    add("nested-u", lambda y, x: min(x, w - 1 - x, h - 1 - y))
    add("nested-n", lambda y, x: min(x, w - 1 - x, y))
    add("rings", lambda y, x: min(x, w - 1 - x, y, h - 1 - y))
    add("comb-up", lambda y, x: 0 if (y == h - 1 or x % 2 == 0) else 1 + x)  # bar below, teeth upwards, gaps = own tanks
    add("comb-down", lambda y, x: 0 if (y == 0 or x % 2 == 0) else 1 + x)  # bar above, teeth downwards
    add("stairs", lambda y, x: (x + y) // 2)
    order = []
    for y in range(h):
        row = [(y, x) for x in range(w)]
        if y % 2:
            row.reverse()
        order += row
    pos = {c: i for i, c in enumerate(order)}
    add("snake-3", lambda y, x: pos[(y, x)] // 3)
    add("snake-5", lambda y, x: pos[(y, x)] // 5)
    return out


QUICK_PARTS = ("whole", "rows", "columns", "cells", "nested-u", "nested-n", "comb-down", "snake-3")


def large_instances(h, w, level):
    """Problem dicts of the large family of one board."""
    out = []
    seen = set()
    for name, part in structured(h, w):
        if level == 0 and name not in QUICK_PARTS:
            continue
        if name == "cells" and h * w > 16 and min(h, w) > 1:
            continue  # 0/1 matrices with given line sums: too many on the larger boards
        rooms = [tuple((y, x) for y, x in b) for b in part]
        fills = [fast_fillings(room, "part") for room in rooms]

        def emit(clues):
            key = (name, tuple(clues))
            if key not in seen:
                seen.add(key)
                out.append({"height": h, "width": w, "blocks": part, "clue_row": list(clues[:h]), "clue_col": list(clues[h:]), "family": "large"})

        total = 1
        for f in fills:
            total *= len(f)
        if total <= 20000:
            emit([-1] * (h + w))
        # single clues on the far lines: the whole line and nothing
        for i, v in ((h - 1, w), (h + w - 1, h), (h - 1, 0), (h + w - 1, 0)):
            if (total <= 20000 and v) or level:
                c = [-1] * (h + w)
                c[i] = v
                emit(c)
        for s in ((0,) if level == 0 else (0, 1)):
            water = set()
            for i, f in enumerate(fills):
                # level of tank i: a fixed formula; the fillings of a tank are listed bottom-up, index 0 = empty
                water |= f[(i * 7 + s * 3 + (i + s) // 2 + 1) % len(f)]
            full = [sum(1 for x in range(w) if (y, x) in water) for y in range(h)] + [sum(1 for y in range(h) if (y, x) in water) for x in range(w)]
            emit(full)
            for k in ((2,) if level == 0 else (2, 3)):
                for o in (0,):
                    emit([-1 if i % k == o else v for i, v in enumerate(full)])
            emit([v if i < h else -1 for i, v in enumerate(full)])  # rows only
            emit([v if i >= h else -1 for i, v in enumerate(full)])  # columns only
            emit([v if i in (h - 1, h + w - 1) else -1 for i, v in enumerate(full)])  # last row and last column only
            spots = [0, h + w - 1] if level == 0 else [0, h + w - 1, h - 1, h]
            for pos in spots:
                top = w if pos < h else h
                for d in (1, -1):
                    if level == 0 and d != (1 if pos == 0 else -1):
                        continue
                    v = full[pos] + d
                    if not 0 <= v <= top:
                        v = full[pos] - d
                    if 0 <= v <= top:
                        c = list(full)
                        c[pos] = v
                        if level or pos == 0:
                            emit(c)
                        if level or pos != 0:
                            emit([-1 if (i % 2 != pos % 2) else q for i, q in enumerate(c)])
    return out


class Aquarium(base.Rule):
    name = "aquarium"

    def shapes(self, tier):
        boards = [(1, 1), (1, 2), (2, 1), (1, 3), (3, 1), (2, 2), (1, 4), (4, 1), (2, 3), (3, 2)]
        s = [(h, w, r) for h, w in boards for r in range(1, h * w + 1)]
        if tier == "quick":
            return s + [(3, 3, r) for r in (2, 3, 4)] + self.large_shapes(0)
        s += [(h, w, r) for h, w in [(3, 3), (1, 5), (5, 1), (2, 4), (4, 2)] for r in range(1, h * w + 1)]
        return s + [(h, w, r) for h, w in [(3, 4), (4, 3)] for r in (1, 2, 3)] + self.large_shapes(1)

    def large_shapes(self, level):
        big = [(4, 4), (5, 5), (4, 6), (6, 4), (1, 12), (12, 1)]
        if level:
            big += [(3, 5), (5, 3), (4, 5), (5, 4), (5, 6), (6, 5), (6, 6), (2, 10), (10, 2), (1, 16), (16, 1)]
        return [("large", h, w, level) for h, w in big]

    def instances(self, shape, cap):
        if shape[0] == "large":
            _, h, w, level = shape
            for p in large_instances(h, w, level):
                yield p
            return
        h, w, r = shape
        parts = [p for p in room_partitions(h, w) if len(p) == r]
        if not parts:
            return

        def admissible(cells):
            return all(v <= w for v in cells[:h]) and all(v <= h for v in cells[h:])

        lays, k = base.layouts(h + w, -1, list(range(0, max(h, w) + 1)), max(1, cap // len(parts)), admissible)
        step = max(1, -(-(len(parts) * len(lays)) // cap))
        for blocks in parts[::step]:
            for cells in lays:
                yield {"height": h, "width": w, "blocks": blocks, "clue_row": list(cells[:h]), "clue_col": list(cells[h:])}

    def call(self, p):
        from cspuz.puzzle import aquarium

        h, w = p["height"], p["width"]
        blocks = [[(y, x) for y, x in b] for b in p["blocks"]]
        is_sat, is_water = aquarium.solve_aquarium(h, w, blocks, list(p["clue_row"]), list(p["clue_col"]))
        return is_sat, [is_water[y, x].sol for y in range(h) for x in range(w)]

    def _solve(self, p, reading):
        h, w = p["height"], p["width"]
        rooms = [tuple((y, x) for y, x in b) for b in p["blocks"]]
        out = []
        for choice in itertools.product(*[fillings(room, reading) for room in rooms]):
            water = set()
            for s in choice:
                water |= s
            ok = True
            for y in range(h):
                if p["clue_row"][y] >= 0 and sum(1 for x in range(w) if (y, x) in water) != p["clue_row"][y]:
                    ok = False
                    break
            if ok:
                for x in range(w):
                    if p["clue_col"][x] >= 0 and sum(1 for y in range(h) if (y, x) in water) != p["clue_col"][x]:
                        ok = False
                        break
            if ok:
                out.append(tuple((y, x) in water for y in range(h) for x in range(w)))
        return out

    def readings(self, p):
        if p.get("family") == "large":
            part = solve_fast(p, "part")
            room = solve_fast(p, "room")
        else:
            part = self._solve(p, "part")
            room = self._solve(p, "room")
        if sorted(part) == sorted(room):
            return [part]
        return [part, room]

    def example(self):
        return None  # cspuz/puzzle/aquarium.py has no bundled instance


def selftest():
    for h, w in ((1, 3), (2, 2), (2, 3), (3, 2), (2, 4), (3, 3)):
        own = set(tuple(sorted(tuple(sorted(b)) for b in q)) for q in _own_partitions(h, w, 1))
        ref = set(tuple(sorted(tuple(sorted(tuple(c) for c in b)) for b in q)) for q in room_partitions(h, w, 1))
        assert own == ref, (h, w)
    u = ((0, 0), (0, 2), (1, 0), (1, 1), (1, 2))  # U-shaped tank
    assert len(fillings(u, "room")) == 3 and len(fillings(u, "part")) == 5
    n = ((0, 0), (0, 1), (0, 2), (1, 0), (1, 2))  # n-shaped tank
    assert len(fillings(n, "room")) == 3 and len(fillings(n, "part")) == 5
    col = ((0, 0), (1, 0), (2, 0))
    assert len(fillings(col, "room")) == 4 and len(fillings(col, "part")) == 4
    ring = tuple((y, x) for y in range(3) for x in range(3) if (y, x) != (1, 1))
    assert len(fast_fillings(ring, "part")) == 6 and len(fast_fillings(ring, "room")) == 4
    # fast_fillings() against the subset-trying fillings(): every tank of every partition of the small boards and every
    # tank of the structured partitions of 4x4 / 3x5 / 5x3 (tanks of up to 16 cells)
    tanks = set()
    for h, w in ((1, 4), (4, 1), (2, 3), (3, 2), (3, 3), (2, 4), (4, 2)):
        for part in room_partitions(h, w):
            for b in part:
                tanks.add(tuple((y, x) for y, x in b))
    for h, w in ((4, 4), (3, 5), (5, 3)):
        for name, part in structured(h, w):
            for b in part:
                tanks.add(tuple((y, x) for y, x in b))
    for tank in tanks:
        for reading in ("part", "room"):
            assert sorted(map(sorted, fast_fillings(tank, reading))) == sorted(map(sorted, fillings(tank, reading))), (tank, reading)
    # every structured partition is a partition into connected tanks
    for h, w in ((4, 4), (5, 5), (4, 6), (6, 4), (1, 12), (12, 1), (2, 10), (3, 5)):
        for name, part in structured(h, w):
            assert sorted(tuple(c) for b in part for c in b) == [(y, x) for y in range(h) for x in range(w)], name
            assert all(base.cells_connected([tuple(c) for c in b]) for b in part), name
    # solve_fast() against _solve(): all instances of the small ladder (quick cap) and the large family on 3x3 / 2x4 / 4x2 / 3x4
    r = Aquarium()
    probs = []
    for shape in r.shapes("quick"):
        if shape[0] != "large":
            probs += list(r.instances(shape, 150))
    for h, w in ((3, 3), (2, 4), (4, 2), (3, 4), (4, 3)):
        probs += large_instances(h, w, 1)
    assert len(probs) > 3000
    for p in probs:
        for reading in ("part", "room"):
            assert sorted(solve_fast(p, reading)) == sorted(r._solve(p, reading)), (p, reading)


RULE = Aquarium()
