"""Aquarium (puzz.link "aquarium").

Instance: the board is divided into orthogonally connected rooms (tanks; a partition of the board); clue_row[y] /
clue_col[x] >= 0 give the number of water cells in that row / column, -1 = no clue.  Rules: fill some cells with water so
that every tank is filled from the bottom (gravity) and the line clues hold.

"Filled from the bottom" has two published readings (puzz.link offers both; DESIGN.md C11 envelope iii):
  reading 0, level per connected part ("part"): water behaves locally - a water cell's left and right neighbours that
      belong to the same tank are water, and the cell directly below it, if it belongs to the same tank, is water.  Two
      arms of a U-shaped tank (or the two legs of an n-shaped tank) may therefore stand at different levels.
  reading 1, level per whole tank ("room"): every tank has one water level - if a cell of the tank is water then every
      cell of the same tank in the same row or in any lower row is water.
Every reading-1 answer is a reading-0 answer; the readings differ only for tanks with two cells in one row that are not
joined inside that row (needs width >= 3).  readings() returns [part] when both give the same answers on the
instance and [part, room] otherwise.

problem = {"height", "width", "blocks": [[[y, x], ...], ...], "clue_row": [h ints], "clue_col": [w ints]}
key order: is_water[y][x] row-major (y outer, x inner), bool.

Shape descriptor: (h, w, r) = the h x w board divided into exactly r tanks.
Cap rule: P = number of partitions of the board into r connected tanks (canonical order); clue layouts =
base.layouts over the h + w line clues (rows first, then columns; default -1; alphabet 0..max(h, w), restricted to
row clues <= w and column clues <= h), with at most max(1, cap // P) layouts (k >= 1 always); if P x layouts still
exceeds cap, every ceil(P x layouts / cap)-th partition.
"""

import itertools

from . import base
from .. import graphref

_PARTS = {}
_FILL = {}


def _own_partitions(h, w, min_size):
    """Partitions of the h x w board into connected rooms of >= min_size cells (block of the smallest free cell first,
    grown as a connected subset).  Agrees with graphref.connected_partitions (selftest)."""
    out = []

    def nbrs(c):
        y, x = c
        for dy, dx in ((0, 1), (1, 0), (0, -1), (-1, 0)):
            if 0 <= y + dy < h and 0 <= x + dx < w:
                yield (y + dy, x + dx)

    def subsets(seed, free):
        res = []

        def grow(cur, frontier, banned):
            res.append(frozenset(cur))
            for i, c in enumerate(frontier):
                b2 = banned | set(frontier[:i])
                cur2 = cur | {c}
                f2 = list(frontier[i + 1 :])
                for d in nbrs(c):
                    if d in free and d not in cur2 and d not in b2 and d not in f2:
                        f2.append(d)
                grow(cur2, f2, b2)

        grow({seed}, [d for d in nbrs(seed) if d in free], set())
        return res

    def rec(free, acc):
        if not free:
            out.append(list(acc))
            return
        seed = min(free)
        for s in subsets(seed, free):
            rest = free - s
            if len(s) < min_size or 0 < len(rest) < min_size:
                continue
            rec(rest, acc + [s])

    rec(frozenset((y, x) for y in range(h) for x in range(w)), [])
    return out


def room_partitions(h, w, min_size=1):
    """Canonically ordered list of partitions; a partition is a list of rooms sorted by smallest cell, a room a sorted
    list of [y, x]."""
    key = (h, w, min_size)
    if key not in _PARTS:
        if h * w <= 9:
            raw = [
                [[(i // w, i % w) for i in b] for b in p]
                for p in graphref.connected_partitions(h * w, graphref.grid_edges(h, w))
                if all(len(b) >= min_size for b in p)
            ]
        else:
            raw = _own_partitions(h, w, min_size)
        canon = sorted(set(tuple(sorted(tuple(sorted(b)) for b in p)) for p in raw), key=lambda p: (len(p), p))
        _PARTS[key] = [[[list(c) for c in b] for b in p] for p in canon]
    return _PARTS[key]


def fillings(room, reading):
    """All admissible water sets of one tank (tuple of (y, x)) under a reading, as frozensets."""
    key = (room, reading)
    if key in _FILL:
        return _FILL[key]
    cells = set(room)
    out = []
    for mask in range(1 << len(room)):
        water = set(room[k] for k in range(len(room)) if mask >> k & 1)
        ok = True
        for y, x in water:
            if reading == "part":
                for c2 in ((y, x - 1), (y, x + 1), (y + 1, x)):
                    if c2 in cells and c2 not in water:
                        ok = False
            else:
                for c2 in cells:
                    if c2[0] >= y and c2 not in water:
                        ok = False
            if not ok:
                break
        if ok:
            out.append(frozenset(water))
    _FILL[key] = out
    return out


class Aquarium(base.Rule):
    name = "aquarium"

    def shapes(self, tier):
        boards = [(1, 1), (1, 2), (2, 1), (1, 3), (3, 1), (2, 2), (1, 4), (4, 1), (2, 3), (3, 2)]
        s = [(h, w, r) for h, w in boards for r in range(1, h * w + 1)]
        if tier == "quick":
            return s + [(3, 3, r) for r in (2, 3, 4)]
        s += [(h, w, r) for h, w in [(3, 3), (1, 5), (5, 1), (2, 4), (4, 2)] for r in range(1, h * w + 1)]
        return s + [(h, w, r) for h, w in [(3, 4), (4, 3)] for r in (1, 2, 3)]

    def instances(self, shape, cap):
        h, w, r = shape
        parts = [p for p in room_partitions(h, w) if len(p) == r]
        if not parts:
            return

        def admissible(cells):
            return all(v <= w for v in cells[:h]) and all(v <= h for v in cells[h:])

        lays, k = base.layouts(h + w, -1, list(range(0, max(h, w) + 1)), max(1, cap // len(parts)), admissible)
        step = max(1, -(-(len(parts) * len(lays)) // cap))
        for blocks in parts[::step]:
            for cells in lays:
                yield {"height": h, "width": w, "blocks": blocks, "clue_row": list(cells[:h]), "clue_col": list(cells[h:])}

    def call(self, p):
        from cspuz.puzzle import aquarium

        h, w = p["height"], p["width"]
        blocks = [[(y, x) for y, x in b] for b in p["blocks"]]
        is_sat, is_water = aquarium.solve_aquarium(h, w, blocks, list(p["clue_row"]), list(p["clue_col"]))
        return is_sat, [is_water[y, x].sol for y in range(h) for x in range(w)]

    def _solve(self, p, reading):
        h, w = p["height"], p["width"]
        rooms = [tuple((y, x) for y, x in b) for b in p["blocks"]]
        out = []
        for choice in itertools.product(*[fillings(room, reading) for room in rooms]):
            water = set()
            for s in choice:
                water |= s
            ok = True
            for y in range(h):
                if p["clue_row"][y] >= 0 and sum(1 for x in range(w) if (y, x) in water) != p["clue_row"][y]:
                    ok = False
                    break
            if ok:
                for x in range(w):
                    if p["clue_col"][x] >= 0 and sum(1 for y in range(h) if (y, x) in water) != p["clue_col"][x]:
                        ok = False
                        break
            if ok:
                out.append(tuple((y, x) in water for y in range(h) for x in range(w)))
        return out

    def readings(self, p):
        part = self._solve(p, "part")
        room = self._solve(p, "room")
        if sorted(part) == sorted(room):
            return [part]
        return [part, room]

    def example(self):
        return None  # cspuz/puzzle/aquarium.py has no bundled instance


def selftest():
    for h, w in ((1, 3), (2, 2), (2, 3), (3, 2), (2, 4), (3, 3)):
        own = set(tuple(sorted(tuple(sorted(b)) for b in q)) for q in _own_partitions(h, w, 1))
        ref = set(tuple(sorted(tuple(sorted(tuple(c) for c in b)) for b in q)) for q in room_partitions(h, w, 1))
        assert own == ref, (h, w)
    u = ((0, 0), (0, 2), (1, 0), (1, 1), (1, 2))  # U-shaped tank
    assert len(fillings(u, "room")) == 3 and len(fillings(u, "part")) == 5
    n = ((0, 0), (0, 1), (0, 2), (1, 0), (1, 2))  # n-shaped tank
    assert len(fillings(n, "room")) == 3 and len(fillings(n, "part")) == 5
    col = ((0, 0), (1, 0), (2, 0))
    assert len(fillings(col, "room")) == 4 and len(fillings(col, "part")) == 4


RULE = Aquarium()
