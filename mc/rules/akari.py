"""Akari (Light Up).  Problem: problem[y][x] = -2 empty cell, -1 wall, 0..4 numbered wall.

Rules (Nikoli "Akari"): place light bulbs on empty cells only.  A bulb lights its own cell and every empty cell it sees
in the four directions up to the next wall or the board edge.  Every empty cell must be lit; no bulb may be lit by
another bulb; a numbered wall has exactly that many bulbs in the (at most four) orthogonally adjacent cells.

Answer keys: has_light[y][x], row-major (h*w bools); wall cells never carry a bulb (False).
Well-formed = every cell value in {-2, -1, 0, 1, 2, 3, 4}; any numbered wall may stand anywhere (a 4 in a corner is a
legal, unsolvable, problem).

Two enumerators: subsets() walks all 2^(empty cells) bulb sets (boards up to 16 cells); search() decides the cells one by
one and gives up a branch as soon as a bulb would see an earlier bulb, a numbered wall has too many bulbs or too few cells
left for its number, or an empty cell all of whose visible cells are decided is unlit - consequences of the rules above only;
selftest() compares both on every board up to 16 cells.  readings() uses search() beyond 16 cells.

Shape ("large", h, w): the board without walls, and for four wall patterns (two lattices, a dense one, walls in the last
row / last column / far corner) the board with plain walls and dense instances derived from its first and last answer G:
every wall numbered as G implies, all minus every k-th number, one number +1 / -1 (first, last, middle wall), only the
far-most wall numbered.  Shape ("example", 10, 10): instances derived from the published example (example_layouts()).
"""

from . import base

DIRS = ((0, 1), (1, 0), (0, -1), (-1, 0))
SMALL = 16  # boards up to this many cells are enumerated by subsets()


def search(h, w, prob):
    """All has_light tuples (row-major) obeying the rules, by pruned search over the cells in row-major order."""
    n = h * w
    empty = [prob[y][x] == -2 for y in range(h) for x in range(w)]
    sees = [0] * n  # for an empty cell: the cells it sees, itself included
    for i in range(n):
        if not empty[i]:
            continue
        y, x = divmod(i, w)
        m = 1 << i
        for dy, dx in DIRS:
            yy, xx = y + dy, x + dx
            while 0 <= yy < h and 0 <= xx < w and empty[yy * w + xx]:
                m |= 1 << (yy * w + xx)
                yy += dy
                xx += dx
        sees[i] = m
    due = [[] for _ in range(n)]  # due[i]: empty cells whose visible cells are all decided once cell i is
    for k in range(n):
        if empty[k]:
            due[sees[k].bit_length() - 1].append(k)
    walls_at = [[] for _ in range(n)]
    for y in range(h):
        for x in range(w):
            c = prob[y][x]
            if c >= 0:
                adj = 0
                for dy, dx in DIRS:
                    yy, xx = y + dy, x + dx
                    if 0 <= yy < h and 0 <= xx < w and empty[yy * w + xx]:
                        adj |= 1 << (yy * w + xx)
                if bin(adj).count("1") < c:
                    return []
                k = adj
                while k:
                    walls_at[(k & -k).bit_length() - 1].append((adj, c))
                    k &= k - 1
    out = []

    def rec(i, lights):
        while i < n and not empty[i]:
            i += 1
        if i == n:
            out.append(lights)
            return
        before = (1 << i) - 1
        later = ~((1 << (i + 1)) - 1)
        for v in (0, 1):
            if v and lights & sees[i] & before:
                continue
            nl = lights | (v << i)
            ok = True
            for adj, c in walls_at[i]:
                cnt = bin(nl & adj).count("1")
                if cnt > c or cnt + bin(adj & later).count("1") < c:
                    ok = False
                    break
            if ok:
                for k in due[i]:
                    if not nl & sees[k]:
                        ok = False
                        break
            if ok:
                rec(i + 1, nl)

    rec(0, 0)
    return [tuple(bool(m >> i & 1) for i in range(n)) for m in out]


def wall_patterns(h, w):
    """Four deterministic wall layouts (lists of cell indices) for the large boards."""
    cells = [(y, x) for y in range(h) for x in range(w)]
    pats = [
        [y * w + x for y, x in cells if (x + 2 * y) % 5 == 2],
        [y * w + x for y, x in cells if (3 * x + y) % 7 == 3],
        [y * w + x for y, x in cells if (x + y) % 3 == 1 and (x * y) % 2 == 0],
        sorted(set([h * w - 1, (h - 1) * w + w // 2, (h // 2) * w + w - 1, 0])),
    ]
    out = []
    for p in pats:
        if p and p not in out and len(p) < h * w:
            out.append(p)
    return out


def pick(seq, k):
    """k evenly spaced elements of seq, first and last included (all of seq when it has at most k elements)."""
    if len(seq) <= k:
        return list(seq)
    return [seq[(len(seq) - 1) * j // (k - 1)] for j in range(k)]


class Akari(base.Rule):
    name = "akari"

    def shapes(self, tier):
        s = [(1, 1), (1, 2), (2, 1), (1, 3), (3, 1), (2, 2), (1, 4), (4, 1), (2, 3), (3, 2), (3, 3)]
        large = [("large", 5, 5), ("large", 6, 5), ("large", 5, 6), ("large", 6, 6), ("large", 7, 7), ("large", 2, 10), ("large", 10, 2), ("large", 1, 12), ("large", 12, 1), ("example", 10, 10)]
        if tier != "quick":
            s += [(1, 5), (5, 1), (2, 4), (4, 2), (3, 4), (4, 3)]
            large += [("large", 3, 8), ("large", 8, 3), ("large", 4, 8), ("large", 8, 4), ("large", 6, 7), ("large", 7, 6), ("large", 1, 15), ("large", 15, 1)]
        return s + large

    def instances(self, shape, cap):
        if shape[0] == "large":
            for cells in self.large_layouts(shape[1], shape[2], cap <= 1000):
                yield {"height": shape[1], "width": shape[2], "problem": base.grid(cells, shape[1], shape[2])}
            return
        if shape[0] == "example":
            for cells in self.example_layouts(cap <= 1000):
                yield {"height": shape[1], "width": shape[2], "problem": base.grid(cells, shape[1], shape[2])}
            return
        h, w = shape
        lays, k = base.layouts(h * w, -2, [-1, 0, 1, 2, 3, 4], cap)
        for cells in lays:
            yield {"height": h, "width": w, "problem": base.grid(cells, h, w)}

    def example_layouts(self, quick):
        """The published 10x10 example (search() enumerates it although it has 100 cells): itself, every third / second
        number dropped, each number dropped, each number +1 / -1 (quick: first, last, middle only)."""
        cells = [c for row in self.example()[0]["problem"] for c in row]
        nums = [i for i, c in enumerate(cells) if c >= 0]
        out = [cells]
        for k, off in ((3, 0), (3, 1), (3, 2), (2, 1)):
            out.append([(-1 if i in nums and nums.index(i) % k == off else c) for i, c in enumerate(cells)])
        for q in [nums[0], nums[-1], nums[len(nums) // 2]] if quick else nums:
            out.append([(-1 if i == q else c) for i, c in enumerate(cells)])
            for d in (1, -1):
                if 0 <= cells[q] + d <= 4:
                    out.append([(c + d if i == q else c) for i, c in enumerate(cells)])
        return out

    def large_layouts(self, h, w, quick):
        n = h * w
        out = [[-2] * n]
        for pi, walls in enumerate(wall_patterns(h, w)):
            plain = [-1 if c in walls else -2 for c in range(n)]
            out.append(plain)
            sols = search(h, w, base.grid(plain, h, w))
            gs = pick(sols, 2)
            if quick and sols:  # one grid per pattern: the first and the last answer in turn
                gs = [sols[0]] if pi % 2 == 0 else [sols[-1]]
            for gi, g in enumerate(gs):
                num = {}
                for c in walls:
                    y, x = divmod(c, w)
                    num[c] = sum(1 for dy, dx in DIRS if 0 <= y + dy < h and 0 <= x + dx < w and g[(y + dy) * w + x + dx])
                var = {"full": dict(num)}
                var["minus2"] = {c: (num[c] if t % 2 == 0 else -1) for t, c in enumerate(walls)}
                var["minus3"] = {c: (num[c] if t % 3 != 2 else -1) for t, c in enumerate(walls)}
                var["farmost"] = {c: (num[c] if c == walls[-1] else -1) for c in walls}
                for name, t in (("first", 0), ("last", len(walls) - 1), ("mid", len(walls) // 2)):
                    for d in (1, -1):
                        if 0 <= num[walls[t]] + d <= 4:
                            v = dict(num)
                            v[walls[t]] += d
                            var["%s%+d" % (name, d)] = v
                if quick:  # every kind of variant about once, spread over the patterns
                    names = ["full"] + (["last-1", "minus3"], ["minus2", "first+1"], ["mid-1", "farmost"], ["minus2", "last+1"])[pi % 4]
                else:
                    names = list(var) if gi == 0 else ["full", "minus2", "last-1", "first+1"]
                for k in names:
                    if k not in var:
                        continue
                    cells = [var[k].get(c, -2) for c in range(n)]
                    if cells not in out:
                        out.append(cells)
        return out

    def call(self, p):
        from cspuz.puzzle import akari

        is_sat, has_light = akari.solve_akari(p["height"], p["width"], p["problem"])
        return is_sat, base.sols_of(has_light)

    def readings(self, p):
        h, w = p["height"], p["width"]
        if h * w > SMALL:
            return [search(h, w, p["problem"])]
        return [self.subsets(p)]

    def subsets(self, p):
        h, w = p["height"], p["width"]
        prob = p["problem"]
        n = h * w
        empty = [prob[y][x] == -2 for y in range(h) for x in range(w)]
        empties = [i for i in range(n) if empty[i]]
        # cells seen from an empty cell (itself included), as a bit mask over cell indices
        sees = {}
        for i in empties:
            y, x = divmod(i, w)
            m = 1 << i
            for dy, dx in DIRS:
                yy, xx = y + dy, x + dx
                while 0 <= yy < h and 0 <= xx < w and empty[yy * w + xx]:
                    m |= 1 << (yy * w + xx)
                    yy += dy
                    xx += dx
            sees[i] = m
        numbered = []
        for y in range(h):
            for x in range(w):
                if prob[y][x] >= 0:
                    m = 0
                    for dy, dx in DIRS:
                        yy, xx = y + dy, x + dx
                        if 0 <= yy < h and 0 <= xx < w and empty[yy * w + xx]:
                            m |= 1 << (yy * w + xx)
                    numbered.append((m, prob[y][x]))
        out = []
        ne = len(empties)
        for sub in range(1 << ne):
            lights = 0
            for j in range(ne):
                if sub >> j & 1:
                    lights |= 1 << empties[j]
            ok = True
            for i in empties:
                seen = sees[i] & lights
                if seen == 0:  # unlit cell
                    ok = False
                    break
                if lights >> i & 1 and seen != (1 << i):  # a bulb lit by another bulb
                    ok = False
                    break
            if not ok:
                continue
            for m, c in numbered:
                if bin(m & lights).count("1") != c:
                    ok = False
                    break
            if ok:
                out.append(tuple(bool(lights >> i & 1) for i in range(n)))
        return out

    def example(self):
        prob = [
            [-2, -2, 2, -2, -2, -2, -2, -2, -2, -2], [-2, -2, -2, -2, -2, -2, -2, -2, 2, -2], [-2, -2, -2, -2, -2, -2, -2, -1, -2, -2],
            [-1, -2, -2, -2, 3, -2, -2, -2, -2, -2], [-2, -2, -2, -2, -2, -1, -2, -2, -2, -1], [2, -2, -2, -2, 2, -2, -2, -2, -2, -2],
            [-2, -2, -2, -2, -2, 3, -2, -2, -2, -1], [-2, -2, -1, -2, -2, -2, -2, -2, -2, -2], [-2, 2, -2, -2, -2, -2, -2, -2, -2, -2],
            [-2, -2, -2, -2, -2, -2, -2, -1, -2, -2],
        ]
        return {"height": 10, "width": 10, "problem": prob}, "cspuz/puzzle/akari.py _main() (10x10; checked by solvability only: too large to enumerate)"


def selftest():
    """search() against the walk over all bulb sets on every board up to 16 cells: no walls, every layout with one or two
    walls over -1 0 1 2 3 4 (every 5th layout on boards of more than 9 cells, every 29th beyond 12), and the dense layouts of large_layouts()."""
    import itertools

    r = Akari()
    checked = 0
    for h, w in [(h, w) for h in range(1, 17) for w in range(1, 17) if h * w <= SMALL]:
        n = h * w
        lays = [[-2] * n]
        for k in (1, 2):
            for pos in itertools.combinations(range(n), k):
                for vals in itertools.product([-1, 0, 1, 2, 3, 4], repeat=k):
                    cells = [-2] * n
                    for q, v in zip(pos, vals):
                        cells[q] = v
                    lays.append(cells)
        if n > 9:
            lays = lays[:: 5 if n <= 12 else 29]
        lays += r.large_layouts(h, w, False)
        for cells in lays:
            p = {"height": h, "width": w, "problem": base.grid(cells, h, w)}
            assert sorted(search(h, w, p["problem"])) == sorted(r.subsets(p)), p
            checked += 1
    return checked


RULE = Akari()
