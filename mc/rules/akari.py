"""Akari (Light Up).  Problem: problem[y][x] = -2 empty cell, -1 wall, 0..4 numbered wall.

Rules (Nikoli "Akari"): place light bulbs on empty cells only.  A bulb lights its own cell and every empty cell it sees
in the four directions up to the next wall or the board edge.  Every empty cell must be lit; no bulb may be lit by
another bulb; a numbered wall has exactly that many bulbs in the (at most four) orthogonally adjacent cells.

Answer keys: has_light[y][x], row-major (h*w bools); wall cells never carry a bulb (False).
Well-formed = every cell value in {-2, -1, 0, 1, 2, 3, 4}; any numbered wall may stand anywhere (a 4 in a corner is a
legal, unsolvable, problem).
"""

from . import base

DIRS = ((0, 1), (1, 0), (0, -1), (-1, 0))


class Akari(base.Rule):
    name = "akari"

    def shapes(self, tier):
        s = [(1, 1), (1, 2), (2, 1), (1, 3), (3, 1), (2, 2), (1, 4), (4, 1), (2, 3), (3, 2), (3, 3)]
        if tier != "quick":
            s += [(1, 5), (5, 1), (2, 4), (4, 2), (3, 4), (4, 3)]
        return s

    def instances(self, shape, cap):
        h, w = shape
        lays, k = base.layouts(h * w, -2, [-1, 0, 1, 2, 3, 4], cap)
        for cells in lays:
            yield {"height": h, "width": w, "problem": base.grid(cells, h, w)}

    def call(self, p):
        from cspuz.puzzle import akari

        is_sat, has_light = akari.solve_akari(p["height"], p["width"], p["problem"])
        return is_sat, base.sols_of(has_light)

    def readings(self, p):
        h, w = p["height"], p["width"]
        prob = p["problem"]
        n = h * w
        empty = [prob[y][x] == -2 for y in range(h) for x in range(w)]
        empties = [i for i in range(n) if empty[i]]
        # cells seen from an empty cell (itself included), as a bit mask over cell indices
        sees = {}
        for i in empties:
            y, x = divmod(i, w)
            m = 1 << i
            for dy, dx in DIRS:
                yy, xx = y + dy, x + dx
                while 0 <= yy < h and 0 <= xx < w and empty[yy * w + xx]:
                    m |= 1 << (yy * w + xx)
                    yy += dy
                    xx += dx
            sees[i] = m
        numbered = []
        for y in range(h):
            for x in range(w):
                if prob[y][x] >= 0:
                    m = 0
                    for dy, dx in DIRS:
                        yy, xx = y + dy, x + dx
                        if 0 <= yy < h and 0 <= xx < w and empty[yy * w + xx]:
                            m |= 1 << (yy * w + xx)
                    numbered.append((m, prob[y][x]))
        out = []
        ne = len(empties)
        for sub in range(1 << ne):
            lights = 0
            for j in range(ne):
                if sub >> j & 1:
                    lights |= 1 << empties[j]
            ok = True
            for i in empties:
                seen = sees[i] & lights
                if seen == 0:  # unlit cell
                    ok = False
                    break
                if lights >> i & 1 and seen != (1 << i):  # a bulb lit by another bulb
                    ok = False
                    break
            if not ok:
                continue
            for m, c in numbered:
                if bin(m & lights).count("1") != c:
                    ok = False
                    break
            if ok:
                out.append(tuple(bool(lights >> i & 1) for i in range(n)))
        return [out]

    def example(self):
        prob = [
            [-2, -2, 2, -2, -2, -2, -2, -2, -2, -2], [-2, -2, -2, -2, -2, -2, -2, -2, 2, -2], [-2, -2, -2, -2, -2, -2, -2, -1, -2, -2],
            [-1, -2, -2, -2, 3, -2, -2, -2, -2, -2], [-2, -2, -2, -2, -2, -1, -2, -2, -2, -1], [2, -2, -2, -2, 2, -2, -2, -2, -2, -2],
            [-2, -2, -2, -2, -2, 3, -2, -2, -2, -1], [-2, -2, -1, -2, -2, -2, -2, -2, -2, -2], [-2, 2, -2, -2, -2, -2, -2, -2, -2, -2],
            [-2, -2, -2, -2, -2, -2, -2, -1, -2, -2],
        ]
        return {"height": 10, "width": 10, "problem": prob}, "cspuz/puzzle/akari.py _main() (10x10; checked by solvability only: too large to enumerate)"


RULE = Akari()
