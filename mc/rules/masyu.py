"""Masyu: a single loop through cell centres (or no line); white circle: passes straight and turns in at least one of the
two neighbouring cells on the line; black circle: turns, and goes straight through both neighbouring cells."""

from . import base

OPP = {"U": "D", "D": "U", "L": "R", "R": "L"}
STEP = {"U": (-1, 0), "D": (1, 0), "L": (0, -1), "R": (0, 1)}


class Masyu(base.Rule):
    name = "masyu"

    def shapes(self, tier):
        s = [(1, 1), (1, 2), (2, 1), (2, 2), (2, 3), (3, 2), (3, 3), (1, 3), (3, 1)]
        return s + ([(3, 4), (4, 3)] if tier == "quick" else [(3, 4), (4, 3), (4, 4), (2, 5), (5, 2), (3, 5), (5, 3)])

    def instances(self, shape, cap):
        h, w = shape
        lays, k = base.layouts(h * w, 0, [1, 2], cap)
        for cells in lays:
            yield {"height": h, "width": w, "problem": base.grid(cells, h, w)}

    def call(self, p):
        from cspuz.puzzle import masyu

        is_sat, frame = masyu.solve_masyu(p["height"], p["width"], p["problem"])
        return is_sat, base.sols_of(frame)

    def readings(self, p):
        h, w = p["height"], p["width"]
        out = []
        for loop in base.loops(h, w):
            info = base.loop_degree_info(h, w, loop)
            ok = True
            for y in range(h):
                for x in range(w):
                    c = p["problem"][y][x]
                    if c == 0:
                        continue
                    d = info[(y, x)]
                    if len(d) != 2:
                        ok = False
                        break
                    a, b = sorted(d)
                    straight = OPP[a] == b
                    if c == 1:
                        if not straight:
                            ok = False
                            break
                        # turns in at least one of the two neighbours on the line
                        turns = 0
                        for dr in (a, b):
                            ny, nx = y + STEP[dr][0], x + STEP[dr][1]
                            nd = info[(ny, nx)]
                            if not (dr in nd and OPP[dr] in nd):
                                turns += 1
                        if turns == 0:
                            ok = False
                            break
                    else:
                        if straight:
                            ok = False
                            break
                        for dr in (a, b):
                            ny, nx = y + STEP[dr][0], x + STEP[dr][1]
                            nd = info[(ny, nx)]
                            if not (dr in nd and OPP[dr] in nd):
                                ok = False
                                break
                        if not ok:
                            break
                if not ok:
                    break
            if ok:
                out.append(loop)
        return [out]

    def example(self):
        prob = [
            [0, 0, 0, 0, 2, 0, 0, 0, 0, 0], [0, 0, 0, 0, 0, 0, 0, 0, 0, 1], [0, 2, 0, 0, 0, 0, 0, 0, 2, 0], [1, 0, 2, 0, 0, 1, 0, 1, 0, 0],
            [0, 0, 0, 0, 0, 0, 2, 0, 0, 0], [0, 0, 0, 0, 0, 0, 0, 0, 0, 0], [0, 0, 0, 1, 0, 1, 0, 1, 0, 0], [0, 0, 0, 2, 0, 0, 0, 0, 0, 0],
            [0, 2, 0, 0, 0, 0, 0, 1, 0, 0], [0, 0, 0, 0, 1, 0, 0, 1, 0, 0],
        ]
        return {"height": 10, "width": 10, "problem": prob}, "tests/test_serializer.py masyu/10/10 (checked by rule acceptance only: too large to enumerate)"


RULE = Masyu()
