"""Masyu: a single loop through cell centres (or no line); white circle: passes straight and turns in at least one of the
two neighbouring cells on the line; black circle: turns, and goes straight through both neighbouring cells.

Large family (shape descriptors ("large", h, w)): boards beyond the reach of base.loops() use the exact frontier enumerator
slitherlink.enum_loops(), pruned per circle (shape of the line on the circle as soon as its own edges are decided, the
neighbour condition as soon as the edges of the two neighbours are decided); instances: complete circle sets of seed loops
and their thinned / altered variants, clue-free boards, circles on the last row / column.
"""

from . import base
from .slitherlink import enum_loops, vertex_edges, dirs_of, loop_count, all_loops, seed_loops, dense_family, uniq, within_budget

OPP = {"U": "D", "D": "U", "L": "R", "R": "L"}
STEP = {"U": (-1, 0), "D": (1, 0), "L": (0, -1), "R": (0, 1)}


OLD_PATH_MAX_VERTICES = 20  # boards of the small ladder keep the original oracle (base.loops + filter)
SOLUTION_CAP = 400000
_LARGE = {}


def _pearl_ok(c, d, nd):
    """c: 1 white / 2 black; d: directions of the line on the circle; nd[dr]: directions of the line on the neighbour in
    direction dr.  The neighbour in direction dr is entered against dr, so the line is straight there iff it leaves by dr."""
    if len(d) != 2:
        return False
    straight = d in ("UD", "LR")
    if c == 1:
        return straight and any(dr not in nd[dr] for dr in d)
    return (not straight) and all(dr in nd[dr] for dr in d)


def _checks(h, w, prob):
    ve = vertex_edges(h, w)
    checks = []
    for y in range(h):
        for x in range(w):
            c = prob[y][x]
            if c == 0:
                continue
            own = [e for e in ve[y * w + x] if e is not None]
            around = list(own)
            for dr in "UDLR":
                ny, nx = y + STEP[dr][0], x + STEP[dr][1]
                if 0 <= ny < h and 0 <= nx < w:
                    around += [e for e in ve[ny * w + nx] if e is not None]

            def shape(E, v=ve[y * w + x], c=c):
                d = dirs_of(E, v)
                return len(d) == 2 and (d in ("UD", "LR")) == (c == 1)

            def full(E, y=y, x=x, c=c):
                d = dirs_of(E, ve[y * w + x])
                return _pearl_ok(c, d, {dr: dirs_of(E, ve[(y + STEP[dr][0]) * w + x + STEP[dr][1]]) for dr in d})

            checks.append((own, shape))
            checks.append((around, full))
    return checks


def clues_of(h, w, loop):
    """Complete circle set of a loop: every cell where the white / black condition holds gets that circle."""
    ve = vertex_edges(h, w)
    out = {}
    blank_on_loop = []
    for y in range(h):
        for x in range(w):
            d = dirs_of(loop, ve[y * w + x])
            if not d:
                continue
            nd = {dr: dirs_of(loop, ve[(y + STEP[dr][0]) * w + x + STEP[dr][1]]) for dr in d}
            for c in (1, 2):
                if _pearl_ok(c, d, nd):
                    out[(y, x)] = c
            if (y, x) not in out:
                blank_on_loop.append((y, x))
    return out, blank_on_loop


def _large_instances(h, w, thorough):
    key = (h, w, thorough)
    if key in _LARGE:
        return _LARGE[key]

    def prob(clues):
        return {"height": h, "width": w, "problem": [[clues.get((y, x), 0) for x in range(w)] for y in range(h)]}

    out = []
    enumerable = loop_count(h, w) is not None
    far = (h - 1, w - 1)
    if enumerable:
        light = [{}, {far: 2}, {(h - 1, x): 1 for x in range(1, w - 1)} or {far: 1}, {(y, w - 1): 1 for y in range(1, h - 1)} or {far: 1}]
        if thorough:
            light += [{far: 1}, {far: 2, (0, 0): 2}, {(h - 1, 0): 2, (0, w - 1): 2, (h - 1, w // 2): 1}, {(h - 1, w // 2): 2, (h // 2, w - 1): 2}]
        if thorough:
            light += [{(h - 1, x): 2 - x % 2 for x in range(w)}, {(y, w - 1): 1 + y % 2 for y in range(h)}]
        for clues in light if (thorough or h == w) else light[:3]:
            out.append(prob(clues))
    if enumerable:
        seeds = seed_loops(h, w, 1, longest=thorough)
    else:
        # circles alone pin a loop down much less than slitherlink numbers do: of the first six seed loops take those with
        # the most circles, and keep only the derived instances whose exact enumeration stays within a fixed node budget
        seeds = sorted(seed_loops(h, w, 6), key=lambda g: -len(clues_of(h, w, g)[0]))[: 2 if thorough else 1]
    for g in seeds:
        full, blank = clues_of(h, w, g)
        fam = dense_family(full, h, w, lambda v, dl, c: 3 - v, thorough)
        if not thorough and h != w:
            fam = fam[:2] + fam[3:5]
        for clues in fam:
            if enumerable or within_budget(h, w, _checks(h, w, prob(clues)["problem"])):
                out.append(prob(clues))
        # one circle too many: on a loop cell that satisfies neither condition, and on a cell off the loop
        extra = []
        if blank:
            extra.append((blank[0], 1))
            extra.append((blank[-1], 2))
        off = [(y, x) for y in range(h) for x in range(w) if (y, x) not in full and (y, x) not in blank]
        if off:
            extra.append((off[-1], 1))
            extra.append((off[0], 2))
        for c, v in extra if thorough else extra[1:3]:
            d = dict(full)
            d[c] = v
            out.append(prob(d))
    out = uniq(out)
    _LARGE[key] = out
    return out


class Masyu(base.Rule):
    name = "masyu"

    def shapes(self, tier):
        s = [(1, 1), (1, 2), (2, 1), (2, 2), (2, 3), (3, 2), (3, 3), (1, 3), (3, 1)]
        s = s + ([(3, 4), (4, 3)] if tier == "quick" else [(3, 4), (4, 3), (4, 4), (2, 5), (5, 2), (3, 5), (5, 3)])
        large = [(5, 5), (7, 7), (8, 8), (3, 10), (10, 3), (2, 12), (12, 2), (1, 12), (12, 1)]
        if tier != "quick":
            large += [(6, 6), (4, 7), (7, 4), (5, 6), (6, 5), (9, 9), (6, 8), (8, 6), (4, 10), (10, 4), (3, 12), (12, 3), (2, 15), (15, 2)]
        return s + [("large", h, w) for h, w in large]

    def instances(self, shape, cap):
        if shape[0] == "large":
            for p in _large_instances(shape[1], shape[2], cap > 1000):
                yield p
            return
        h, w = shape
        lays, k = base.layouts(h * w, 0, [1, 2], cap)
        for cells in lays:
            yield {"height": h, "width": w, "problem": base.grid(cells, h, w)}

    def call(self, p):
        from cspuz.puzzle import masyu

        is_sat, frame = masyu.solve_masyu(p["height"], p["width"], p["problem"])
        return is_sat, base.sols_of(frame)

    def readings(self, p):
        if p["height"] * p["width"] > OLD_PATH_MAX_VERTICES:
            return [self.readings_large(p)]
        return self.readings_small(p)

    def readings_large(self, p):
        h, w = p["height"], p["width"]
        checks = _checks(h, w, p["problem"])
        if not checks and loop_count(h, w) is not None:
            return list(all_loops(h, w))
        return enum_loops(h, w, checks, cap=SOLUTION_CAP)

    def readings_small(self, p):
        h, w = p["height"], p["width"]
        out = []
        for loop in base.loops(h, w):
            info = base.loop_degree_info(h, w, loop)
            ok = True
            for y in range(h):
                for x in range(w):
                    c = p["problem"][y][x]
                    if c == 0:
                        continue
                    d = info[(y, x)]
                    if len(d) != 2:
                        ok = False
                        break
                    a, b = sorted(d)
                    straight = OPP[a] == b
                    if c == 1:
                        if not straight:
                            ok = False
                            break
                        # turns in at least one of the two neighbours on the line
                        turns = 0
                        for dr in (a, b):
                            ny, nx = y + STEP[dr][0], x + STEP[dr][1]
                            nd = info[(ny, nx)]
                            if not (dr in nd and OPP[dr] in nd):
                                turns += 1
                        if turns == 0:
                            ok = False
                            break
                    else:
                        if straight:
                            ok = False
                            break
                        for dr in (a, b):
                            ny, nx = y + STEP[dr][0], x + STEP[dr][1]
                            nd = info[(ny, nx)]
                            if not (dr in nd and OPP[dr] in nd):
                                ok = False
                                break
                        if not ok:
                            break
                if not ok:
                    break
            if ok:
                out.append(loop)
        return [out]

    def example(self):
        prob = [
            [0, 0, 0, 0, 2, 0, 0, 0, 0, 0], [0, 0, 0, 0, 0, 0, 0, 0, 0, 1], [0, 2, 0, 0, 0, 0, 0, 0, 2, 0], [1, 0, 2, 0, 0, 1, 0, 1, 0, 0],
            [0, 0, 0, 0, 0, 0, 2, 0, 0, 0], [0, 0, 0, 0, 0, 0, 0, 0, 0, 0], [0, 0, 0, 1, 0, 1, 0, 1, 0, 0], [0, 0, 0, 2, 0, 0, 0, 0, 0, 0],
            [0, 2, 0, 0, 0, 0, 0, 1, 0, 0], [0, 0, 0, 0, 1, 0, 0, 1, 0, 0],
        ]
        return {"height": 10, "width": 10, "problem": prob}, "tests/test_serializer.py masyu/10/10 (checked by rule acceptance only: too large to enumerate)"


RULE = Masyu()


def selftest():
    """The pruned large-board oracle against the original filter oracle on the small ladder: all layouts with <= 2 circles
    (<= 3 on the smallest boards), and the dense families of every 3rd loop of 4 x 4 and 3 x 5."""
    r = RULE
    n = 0
    for h, w in [(1, 1), (1, 3), (2, 2), (2, 3), (3, 3), (3, 4), (4, 3), (4, 4), (2, 5), (5, 3)]:
        lays, k = base.layouts(h * w, 0, [1, 2], 1500)
        for cells in lays:
            p = {"height": h, "width": w, "problem": base.grid(cells, h, w)}
            assert sorted(r.readings_small(p)[0]) == sorted(r.readings_large(p)), p
            n += 1
    for h, w in [(4, 4), (3, 5), (5, 3)]:
        for g in base.loops(h, w)[1::3]:
            full, blank = clues_of(h, w, g)
            for clues in dense_family(full, h, w, lambda v, dl, c: 3 - v, True) + [dict(list(full.items()) + [(c, 1)]) for c in blank[:1]]:
                p = {"height": h, "width": w, "problem": [[clues.get((y, x), 0) for x in range(w)] for y in range(h)]}
                a = r.readings_small(p)[0]
                assert sorted(a) == sorted(r.readings_large(p)), p
                if clues == full:
                    assert g in a
                n += 1
    return n

