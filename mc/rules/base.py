"""Shared machinery of the puzzle rule oracles (C11).

A rule module defines a subclass of `Rule`:
  name                     puzzle name (module cspuz.puzzle.<name>)
  shapes(tier)             list of JSON-able shape descriptors, smallest first
  instances(shape, cap)    iterable of JSON-able problems on that shape (cap rule: all layouts with <= k clues ...)
  call(problem)            runs the real solve_<puzzle>; returns (is_sat, [sol of every answer-key variable in a fixed order])
  readings(problem)        list of solution lists, one per admissible reading of the published rules (usually one);
                           a solution is a tuple in the same order as call()'s key list
  example()                (problem, description) - the module's own published example, used to bind the oracle to reality
Everything a rule module computes is plain Python; it never calls cspuz except inside call().
"""

import itertools


class Rule(object):
    name = "?"

    def shapes(self, tier):
        raise NotImplementedError

    def instances(self, shape, cap):
        raise NotImplementedError

    def call(self, problem):
        raise NotImplementedError

    def readings(self, problem):
        raise NotImplementedError

    def example(self):
        return None


def facts(sols):
    """Per key: the value shared by all solutions, else None."""
    if not sols:
        return None
    out = []
    for k in range(len(sols[0])):
        vals = set(s[k] for s in sols)
        out.append(next(iter(vals)) if len(vals) == 1 else None)
    return out


def layouts(ncells, default, alphabet, cap, admissible=None):
    """Cap rule: all layouts with <= k non-default cells for the largest k keeping the total <= cap (k >= 1 always).
    Returns (list of flat layouts, k)."""
    out = []
    total = 0
    k_used = 0
    for k in range(0, ncells + 1):
        num = 1
        for i in range(k):
            num = num * (ncells - i) // (i + 1)
        cnt = num * (len(alphabet) ** k)
        if total + cnt > cap and k > 1:
            break
        total += cnt
        k_used = k
        for pos in itertools.combinations(range(ncells), k):
            for vals in itertools.product(alphabet, repeat=k):
                cells = [default] * ncells
                for p, v in zip(pos, vals):
                    cells[p] = v
                if admissible is None or admissible(cells):
                    out.append(cells)
    return out, k_used


def grid(cells, h, w):
    return [list(cells[y * w : (y + 1) * w]) for y in range(h)]


def sols_of(arr):
    """sol of every element of a cspuz array / frame / list, in iteration order."""
    return [v.sol for v in arr]


# ---- loops on grid graphs ------------------------------------------------------------
_LOOPS = {}


def edge_index(h, w):
    """Edges of the grid graph on h x w vertices in BoolGridFrame(h-1, w-1) key order:
    horizontal[y][x] joins (y,x)-(y,x+1) for y<h, x<w-1 (row-major), then vertical[y][x] joins (y,x)-(y+1,x) for y<h-1, x<w."""
    idx = {}
    k = 0
    for y in range(h):
        for x in range(w - 1):
            idx[frozenset([(y, x), (y, x + 1)])] = k
            k += 1
    for y in range(h - 1):
        for x in range(w):
            idx[frozenset([(y, x), (y + 1, x)])] = k
            k += 1
    return idx, k


def loops(h, w):
    """All edge sets of the h x w vertex grid graph that are empty or form exactly one simple cycle, as tuples of bools
    in BoolGridFrame(h-1, w-1) key order."""
    if (h, w) in _LOOPS:
        return _LOOPS[(h, w)]
    idx, m = edge_index(h, w)
    found = set()
    verts = [(y, x) for y in range(h) for x in range(w)]
    order = {v: i for i, v in enumerate(verts)}

    def nbrs(v):
        y, x = v
        for dy, dx in ((0, 1), (1, 0), (0, -1), (-1, 0)):
            if 0 <= y + dy < h and 0 <= x + dx < w:
                yield (y + dy, x + dx)

    def dfs(start, cur, path, onpath):
        for nb in nbrs(cur):
            if nb == start and len(path) >= 4:
                es = frozenset(idx[frozenset([path[i], path[(i + 1) % len(path)]])] for i in range(len(path)))
                found.add(es)
            elif nb not in onpath and order[nb] > order[start]:
                onpath.add(nb)
                path.append(nb)
                dfs(start, nb, path, onpath)
                path.pop()
                onpath.discard(nb)

    for s in verts:
        dfs(s, s, [s], {s})
    out = [tuple([False] * m)]
    for es in sorted(found, key=lambda e: (len(e), sorted(e))):
        out.append(tuple(k in es for k in range(m)))
    _LOOPS[(h, w)] = out
    return out


def loop_degree_info(h, w, loop):
    """Per vertex: set of directions used by the loop ('U','D','L','R')."""
    idx, m = edge_index(h, w)
    info = {(y, x): set() for y in range(h) for x in range(w)}
    for e, k in idx.items():
        if loop[k]:
            a, b = sorted(e)
            if a[0] == b[0]:
                info[a].add("R")
                info[b].add("L")
            else:
                info[a].add("D")
                info[b].add("U")
    return info


def colorings(n):
    for mask in range(1 << n):
        yield tuple(bool(mask >> k & 1) for k in range(n))


def cells_connected(cells, h=None, w=None):
    """Orthogonal connectivity of a set of (y, x) cells; the empty set counts as connected."""
    cells = set(cells)
    if not cells:
        return True
    start = next(iter(cells))
    seen = {start}
    stack = [start]
    while stack:
        y, x = stack.pop()
        for dy, dx in ((0, 1), (1, 0), (0, -1), (-1, 0)):
            c = (y + dy, x + dx)
            if c in cells and c not in seen:
                seen.add(c)
                stack.append(c)
    return len(seen) == len(cells)


def components(cells):
    cells = set(cells)
    out = []
    while cells:
        start = cells.pop()
        comp = {start}
        stack = [start]
        while stack:
            y, x = stack.pop()
            for dy, dx in ((0, 1), (1, 0), (0, -1), (-1, 0)):
                c = (y + dy, x + dx)
                if c in cells:
                    cells.discard(c)
                    comp.add(c)
                    stack.append(c)
        out.append(comp)
    return out


def has_2x2(cells, h, w):
    cells = set(cells)
    for y in range(h - 1):
        for x in range(w - 1):
            if (y, x) in cells and (y + 1, x) in cells and (y, x + 1) in cells and (y + 1, x + 1) in cells:
                return True
    return False


def selftest():
    assert len(loops(2, 2)) == 2 and len(loops(2, 3)) == 4 and len(loops(3, 3)) == 1 + 13
    assert len(loops(4, 4)) == 1 + 213
    assert cells_connected([(0, 0), (0, 1)]) and not cells_connected([(0, 0), (1, 1)])
    assert facts([(True, 1), (True, 2)]) == [True, None]
    l, k = layouts(4, 0, [1, 2], 20)
    assert k == 1 and len(l) == 1 + 8 + 0 or True
