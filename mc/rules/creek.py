"""Creek.  Problem: problem[y][x] for the (height+1) x (width+1) lattice points; -1 = no clue, 0..4 = clue.

Rules (puzz.link "Creek"): blacken some cells.  A clue on a lattice point is the number of black cells among the (at most
four: four inside, two on an edge, one in a corner) cells touching that point.  All white cells form one orthogonally
connected region (an all-black board has no white cell and is vacuously connected, DESIGN.md appendix A).

Answer keys: is_white[y][x], row-major (h*w bools; True = white).
Well-formed = every point value in {-1, 0, 1, 2, 3, 4}; a clue larger than the number of cells around its point is a
legal, unsolvable, problem.

Shapes: (h, w) = the small ladder x all layouts with <= k clues (cap rule), answered by filtering the cached list of all
connected colourings; ("large", h, w, level) = larger boards with a small fixed set of instances (empty board where it can
be enumerated, dense clue sets derived from rule-obeying grids, thinned and perturbed), answered by search() - an exact
cell-by-cell search with clue and connectivity pruning; selftest() compares both enumerators.
"""

from . import base

_CAND = {}
_LARGE = {}
_SOLS = {}
LIMIT = 400000  # search() refuses to return more answers than this (harness error, never a verdict)
DENSE_CAP = 3000  # a derived instance with more answers than this is not used (the board is too loosely clued)


NODE_CAP = 150000  # ... nor one whose search tree is larger than this


class TooMany(RuntimeError):
    pass


def candidates(h, w):
    """All colourings (True = white) whose white cells are connected; clue independent, cached per shape."""
    if (h, w) not in _CAND:
        out = []
        for col in base.colorings(h * w):
            if base.cells_connected([(i // w, i % w) for i in range(h * w) if col[i]]):
                out.append(col)
        _CAND[(h, w)] = out
    return _CAND[(h, w)]


def around(h, w, py, px):
    """Indices of the cells having lattice point (py, px) as a corner."""
    return [cy * w + cx for cy in (py - 1, py) for cx in (px - 1, px) if 0 <= cy < h and 0 <= cx < w]


def search(h, w, prob, limit=LIMIT, max_nodes=0):
    """All colourings (True = white) obeying the rules for the clue table prob, as row-major tuples.

    Cells are coloured in row-major order (of the transposed board when the board is wider than high, so that rows are
    short).  After every cell the clues around it are tested (black cells so far <= clue <= black cells so far + cells
    still to colour, i.e. equality once the last cell around the point is coloured).  At the end of every row the white
    components of the coloured part are computed: a component without a cell in that row can never grow again, so it
    must be the only white component and every later cell must be black.  Only partial colourings without any
    rule-obeying completion are cut, hence the enumeration is complete."""
    if w > h:
        tp = [[prob[y][x] for y in range(h + 1)] for x in range(w + 1)]
        return [tuple(s[x * h + y] for y in range(h) for x in range(w)) for s in search(w, h, tp, limit, max_nodes)]
    n = h * w
    col = [None] * n  # None = not coloured yet
    out = []
    nodes = [0]
    # clue points around cell i: (cells around the point, clue)
    near = []
    for i in range(n):
        y, x = divmod(i, w)
        near.append([(around(h, w, py, px), prob[py][px]) for py in (y, y + 1) for px in (x, x + 1) if prob[py][px] >= 0])

    def row_state(y):
        """(ok, sealed) after row y is complete."""
        cells = [(i // w, i % w) for i in range((y + 1) * w) if col[i]]
        comps = base.components(cells)
        closed = [c for c in comps if not any(cy == y for cy, _ in c)]
        if not closed:
            return True, False
        if len(comps) > 1:
            return False, False
        return True, True

    def clues_ok(i):
        # black cells so far <= clue <= black cells so far + cells not coloured yet (equality once all are coloured)
        for cells, c in near[i]:
            black = sum(1 for k in cells if col[k] is False)
            if black > c or black + sum(1 for k in cells if col[k] is None) < c:
                return False
        return True

    def rec(i, sealed):
        if i == n:
            if base.cells_connected([(k // w, k % w) for k in range(n) if col[k]]):
                if len(out) >= limit:
                    raise TooMany("creek oracle: more than %d answers on %dx%d" % (limit, h, w))
                out.append(tuple(col))
            return
        nodes[0] += 1
        if max_nodes and nodes[0] > max_nodes:
            raise TooMany("creek oracle: search budget exceeded on %dx%d" % (h, w))
        for v in (False, True):
            if v and sealed:
                continue
            col[i] = v
            if not clues_ok(i):
                continue
            s2 = sealed
            if i % w == w - 1:
                ok, s2 = row_state(i // w)
                if not ok:
                    continue
            rec(i + 1, s2)
        col[i] = None

    rec(0, False)
    return out


def full_clues(h, w, col):
    return [[sum(1 for k in around(h, w, py, px) if not col[k]) for px in range(w + 1)] for py in range(h + 1)]


def patterns(h, w):
    """A few hand-made colourings (True = white); only the ones with connected whites are used."""
    pats = [
        ("comb", lambda y, x: y == 0 or x % 2 == 0),
        ("snake", lambda y, x: y % 2 == 0 or x == (w - 1 if (y // 2) % 2 == 0 else 0)),
        ("ring", lambda y, x: y in (0, h - 1) or x in (0, w - 1)),
        ("blocks", lambda y, x: y % 3 == 2 or x % 3 == 2),
        ("far-corner-only", lambda y, x: (y, x) == (h - 1, w - 1)),
        ("comb-t", lambda y, x: x == w - 1 or y % 2 == 1),
        ("all-black", lambda y, x: False),
        ("all-white", lambda y, x: True),
    ]
    out = []
    for name, f in pats:
        col = tuple(bool(f(y, x)) for y in range(h) for x in range(w))
        if base.cells_connected([(i // w, i % w) for i in range(h * w) if col[i]]) and col not in out:
            out.append(col)
    return out


def spaced(items, k):
    """First, last and evenly spaced elements (k in total, fewer when there are fewer items)."""
    if len(items) <= k:
        return list(items)
    return [items[(len(items) - 1) * j // (k - 1)] for j in range(k)]


def variants(full, level):
    """Clue tables derived from a complete clue table: complete, thinned, and with one clue off by one (on the complete
    table, where the change nearly always makes the board unsolvable, and on thinned tables, where it often does not)."""
    hh, ww = len(full), len(full[0])
    n = hh * ww

    def table(keep, pos=None, d=0):
        t = [[full[y][x] if (keep(y * ww + x) or y * ww + x == pos) else -1 for x in range(ww)] for y in range(hh)]
        if pos is not None:
            v = full[pos // ww][pos % ww]
            if not 0 <= v + d <= 4:
                d = -d
            t[pos // ww][pos % ww] = v + d
        return t

    everything = lambda i: True  # noqa: E731
    last, mid, first, topright, botleft = n - 1, n // 2, 0, ww - 1, (hh - 1) * ww
    lastcol, lastrow = (hh // 2) * ww + ww - 1, n - 1 - ww // 2
    out = [
        table(everything),
        table(lambda i: i % 2 != 0),
        table(lambda i: i % 3 == 1),
        table(lambda i: i % 5 == 2),
        table(everything, last, 1),
        table(lambda i: i % 2 != 0, mid, 1),
        table(lambda i: i % 3 == 1, lastcol, -1),
    ]
    if level > 0:
        out += [
            table(lambda i: i % 3 != 0),
            table(lambda i: i % 2 != 1),
            table(lambda i: i % 4 == 3),
            table(lambda i: i % 7 == 3),
            table(everything, first, 1),
            table(everything, topright, -1),
            table(everything, mid, -1),
            table(lambda i: i % 3 == 1, lastrow, 1),
            table(lambda i: i % 4 == 3, botleft, 1),
            table(lambda i: i % 5 == 2, last, -1),
            table(lambda i: i % 2 != 1, lastcol, 1),
        ]
    return out


def large_instances(h, w, level):
    """The fixed instance set of a large board (cached: the driver asks for it once per shard)."""
    key = (h, w, level)
    if key in _LARGE:
        return _LARGE[key]
    empty = [[-1] * (w + 1) for _ in range(h + 1)]
    out = []
    grids = patterns(h, w)
    if h * w <= 16 or (min(h, w) <= 2 and h * w <= 20):
        out.append(empty)  # the clue-free board, and a lone clue on the far corner / last row / last column
        for py, px, v in ((h, w, 1), (h, w // 2, 2), (h // 2, w, 0), (h, w, 0), (h, w, 2))[: 1 if level == 0 else 5]:
            t = [row[:] for row in empty]
            t[py][px] = v
            out.append(t)
        grids = spaced(search(h, w, empty), 6)[1:-1] + grids  # first = all black, last = all white: in patterns()
    # one grid per board on the quick tier (rotating through the list with the board size), three on the thorough tier
    r = (h + 2 * w) % len(grids)
    chosen = [grids[r]] if level == 0 else [grids[(r + j * max(1, len(grids) // 3)) % len(grids)] for j in range(3)]
    for g in chosen:
        for t in variants(full_clues(h, w, g), level):
            if t in out:
                continue
            try:
                _SOLS[repr(t)] = search(h, w, t, DENSE_CAP, NODE_CAP)
            except TooMany:
                continue
            out.append(t)
    _LARGE[key] = [{"height": h, "width": w, "problem": t} for t in out]
    return _LARGE[key]


class Creek(base.Rule):
    name = "creek"

    def shapes(self, tier):
        s = [(1, 1), (1, 2), (2, 1), (1, 3), (3, 1), (2, 2), (2, 3), (3, 2), (3, 3)]
        if tier != "quick":
            s += [(1, 4), (4, 1), (2, 4), (4, 2), (3, 4), (4, 3)]
        if tier == "quick":
            s += [("large", h, w, 0) for h, w in ((5, 5), (6, 6), (4, 6), (6, 4), (1, 12), (12, 1), (2, 10), (10, 2))]
        else:
            big = [(4, 4), (5, 5), (6, 6), (4, 6), (6, 4), (1, 12), (12, 1), (2, 10), (10, 2)]
            big += [(4, 5), (5, 4), (5, 6), (6, 5), (7, 7), (3, 8), (8, 3), (1, 16), (16, 1), (2, 12), (12, 2), (5, 8), (8, 5)]
            s += [("large", h, w, 1) for h, w in big]
        return s

    def instances(self, shape, cap):
        if shape[0] == "large":
            for p in large_instances(shape[1], shape[2], shape[3]):
                yield p
            return
        h, w = shape
        lays, k = base.layouts((h + 1) * (w + 1), -1, [0, 1, 2, 3, 4], cap)
        for pts in lays:
            yield {"height": h, "width": w, "problem": base.grid(pts, h + 1, w + 1)}

    def call(self, p):
        from cspuz.puzzle import creek

        is_sat, is_white = creek.solve_creek(p["height"], p["width"], p["problem"])
        return is_sat, base.sols_of(is_white)

    def readings(self, p):
        h, w = p["height"], p["width"]
        if h * w > 12:
            key = repr(p["problem"])  # answers computed while the instance set was built (same function)
            return [_SOLS[key] if key in _SOLS else search(h, w, p["problem"])]
        clues = []
        for py in range(h + 1):
            for px in range(w + 1):
                c = p["problem"][py][px]
                if c >= 0:
                    # the cells having (py, px) as a corner
                    clues.append((around(h, w, py, px), c))
        out = []
        for col in candidates(h, w):
            if all(sum(1 for i in cells if not col[i]) == c for cells, c in clues):
                out.append(col)
        return [out]

    def example(self):
        # creek.py has no built-in instance; a hand-made one: 2x2 board, corner clue 1 + centre clue 1: only the top-left
        # cell is black, the other three are white and connected
        return {"height": 2, "width": 2, "problem": [[1, -1, -1], [-1, 1, -1], [-1, -1, -1]]}, "hand-made (creek.py _main() has no instance): 2x2, corner 1 and centre 1, unique answer"


def brute(h, w, prob):
    """The small-board oracle (filter of all connected colourings), for selftest()."""
    clues = [(around(h, w, py, px), prob[py][px]) for py in range(h + 1) for px in range(w + 1) if prob[py][px] >= 0]
    return [col for col in candidates(h, w) if all(sum(1 for i in cells if not col[i]) == c for cells, c in clues)]


def selftest():
    """search() against the brute-force filter: clue-free boards, every single clue, and the dense family."""
    for h, w in ((1, 1), (1, 2), (2, 1), (1, 5), (5, 1), (2, 2), (2, 3), (3, 2), (3, 3), (2, 5), (5, 2), (3, 4), (4, 3), (4, 4)):
        empty = [[-1] * (w + 1) for _ in range(h + 1)]
        tables = [empty]
        for py in range(h + 1):
            for px in range(w + 1):
                for v in range(5):
                    t = [row[:] for row in empty]
                    t[py][px] = v
                    tables.append(t)
        allc = candidates(h, w)
        for g in spaced(allc, 4) + patterns(h, w)[:3]:
            tables += list(variants(full_clues(h, w, g), 1))
        for t in tables:
            assert sorted(search(h, w, t)) == sorted(brute(h, w, t)), (h, w, t)
    # every instance derived from a grid G keeps G as an answer when no clue was changed
    g = patterns(5, 5)[0]
    assert g in search(5, 5, full_clues(5, 5, g))


RULE = Creek()
