"""Creek.  Problem: problem[y][x] for the (height+1) x (width+1) lattice points; -1 = no clue, 0..4 = clue.

Rules (puzz.link "Creek"): blacken some cells.  A clue on a lattice point is the number of black cells among the (at most
four: four inside, two on an edge, one in a corner) cells touching that point.  All white cells form one orthogonally
connected region (an all-black board has no white cell and is vacuously connected, DESIGN.md appendix A).

Answer keys: is_white[y][x], row-major (h*w bools; True = white).
Well-formed = every point value in {-1, 0, 1, 2, 3, 4}; a clue larger than the number of cells around its point is a
legal, unsolvable, problem.
"""

from . import base

_CAND = {}


def candidates(h, w):
    """All colourings (True = white) whose white cells are connected; clue independent, cached per shape."""
    if (h, w) not in _CAND:
        out = []
        for col in base.colorings(h * w):
            if base.cells_connected([(i // w, i % w) for i in range(h * w) if col[i]]):
                out.append(col)
        _CAND[(h, w)] = out
    return _CAND[(h, w)]


class Creek(base.Rule):
    name = "creek"

    def shapes(self, tier):
        s = [(1, 1), (1, 2), (2, 1), (1, 3), (3, 1), (2, 2), (2, 3), (3, 2), (3, 3)]
        if tier != "quick":
            s += [(1, 4), (4, 1), (2, 4), (4, 2), (3, 4), (4, 3)]
        return s

    def instances(self, shape, cap):
        h, w = shape
        lays, k = base.layouts((h + 1) * (w + 1), -1, [0, 1, 2, 3, 4], cap)
        for pts in lays:
            yield {"height": h, "width": w, "problem": base.grid(pts, h + 1, w + 1)}

    def call(self, p):
        from cspuz.puzzle import creek

        is_sat, is_white = creek.solve_creek(p["height"], p["width"], p["problem"])
        return is_sat, base.sols_of(is_white)

    def readings(self, p):
        h, w = p["height"], p["width"]
        clues = []
        for py in range(h + 1):
            for px in range(w + 1):
                c = p["problem"][py][px]
                if c >= 0:
                    # the cells having (py, px) as a corner
                    around = [cy * w + cx for cy in (py - 1, py) for cx in (px - 1, px) if 0 <= cy < h and 0 <= cx < w]
                    clues.append((around, c))
        out = []
        for col in candidates(h, w):
            if all(sum(1 for i in around if not col[i]) == c for around, c in clues):
                out.append(col)
        return [out]

    def example(self):
        # creek.py has no built-in instance; a hand-made one: 2x2 board, corner clue 1 + centre clue 1: only the top-left
        # cell is black, the other three are white and connected
        return {"height": 2, "width": 2, "problem": [[1, -1, -1], [-1, 1, -1], [-1, -1, -1]]}, "hand-made (creek.py _main() has no instance): 2x2, corner 1 and centre 1, unique answer"


RULE = Creek()
