"""Gokigen Naname (Slant).  Problem: problem[y][x] for the (height+1) x (width+1) lattice points; -1 = no clue, 0..4 = clue.

Rules (Nikoli "Gokigen Naname"): draw exactly one diagonal in every cell.  A clue on a lattice point is the number of
diagonals that end in that point (at most four inside, two on an edge, one in a corner).  The diagonals must not form a
closed loop (the graph on the lattice points whose edges are the drawn diagonals is a forest).

Answer keys: edge_type[y][x], row-major (h*w bools); True = "\\" (joins point (y, x) with (y+1, x+1)), False = "/" (joins
point (y, x+1) with (y+1, x)) - the convention stated in gokigen.py ("false: /, true: \\") and used by its printer.
Well-formed = every point value in {-1, 0, 1, 2, 3, 4}; a clue larger than the number of cells around its point is a
legal, unsolvable, problem.

Shapes: (h, w) = the small ladder x all layouts with <= k clues (cap rule), answered by filtering the cached list of all
loop-free slant grids; ("large", h, w, level) = larger boards with a small fixed set of instances (empty board where it can
be enumerated, dense clue sets derived from rule-obeying grids, thinned and perturbed), answered by search() - an exact
cell-by-cell search with clue pruning and an incremental union-find for the loop rule; selftest() compares both.
"""

from . import base

_CAND = {}
_LARGE = {}
_SOLS = {}
LIMIT = 400000  # search() refuses to return more answers than this (harness error, never a verdict)
DENSE_CAP = 3000  # a derived instance with more answers than this is not used (the board is too loosely clued)
NODE_CAP = 150000  # ... nor one whose search tree is larger than this


class TooMany(RuntimeError):
    pass


def diagonal(y, x, backslash):
    """The two lattice points joined by the diagonal of cell (y, x)."""
    return ((y, x), (y + 1, x + 1)) if backslash else ((y, x + 1), (y + 1, x))


def acyclic(h, w, col):
    parent = {}

    def find(a):
        while parent.get(a, a) != a:
            a = parent[a]
        return a

    for i in range(h * w):
        a, b = diagonal(i // w, i % w, col[i])
        ra, rb = find(a), find(b)
        if ra == rb:
            return False
        parent[ra] = rb
    return True


def candidates(h, w):
    """All slant grids without a closed loop, each with its per-point degree table; clue independent, cached per shape."""
    if (h, w) not in _CAND:
        out = []
        for col in base.colorings(h * w):
            if acyclic(h, w, col):
                deg = [0] * ((h + 1) * (w + 1))
                for i in range(h * w):
                    for py, px in diagonal(i // w, i % w, col[i]):
                        deg[py * (w + 1) + px] += 1
                out.append((col, deg))
        _CAND[(h, w)] = out
    return _CAND[(h, w)]


def search(h, w, prob, limit=LIMIT, max_nodes=0, prefer=None, first_only=False):
    """All slant grids (True = backslash) obeying the rules for the clue table prob, as row-major tuples.

    Cells are filled in row-major order (trying prefer[i] first when given).  A diagonal whose two end points are
    already joined by earlier diagonals would close a loop and is refused (union-find over the lattice points, undone on
    backtracking).  After every cell the clues on its four corners are tested: diagonals ending there so far <= clue <=
    that number + cells around the point not filled yet.  Only partial grids without a rule-obeying completion are cut,
    so the enumeration is complete."""
    n = h * w
    W = w + 1
    parent = list(range((h + 1) * W))
    size = [1] * len(parent)
    deg = [0] * len(parent)
    left = [len([1 for cy in (py - 1, py) for cx in (px - 1, px) if 0 <= cy < h and 0 <= cx < w]) for py in range(h + 1) for px in range(W)]
    clue = [prob[py][px] for py in range(h + 1) for px in range(W)]
    col = [None] * n
    out = []
    nodes = [0]

    def find(a):
        while parent[a] != a:
            a = parent[a]
        return a

    class Done(Exception):
        pass

    def rec(i):
        if i == n:
            if len(out) >= limit:
                raise TooMany("gokigen oracle: more than %d answers on %dx%d" % (limit, h, w))
            out.append(tuple(col))
            if first_only:
                raise Done()
            return
        nodes[0] += 1
        if max_nodes and nodes[0] > max_nodes:
            raise TooMany("gokigen oracle: search budget exceeded on %dx%d" % (h, w))
        y, x = divmod(i, w)
        corners = (y * W + x, y * W + x + 1, (y + 1) * W + x, (y + 1) * W + x + 1)
        first = bool(prefer[i]) if prefer is not None else False
        for v in (first, not first):
            a, b = (corners[0], corners[3]) if v else (corners[1], corners[2])
            ra, rb = find(a), find(b)
            if ra == rb:
                continue  # closes a loop
            if size[ra] < size[rb]:
                ra, rb = rb, ra
            parent[rb] = ra
            size[ra] += size[rb]
            deg[a] += 1
            deg[b] += 1
            for c in corners:
                left[c] -= 1
            col[i] = v
            if all(clue[c] < 0 or deg[c] <= clue[c] <= deg[c] + left[c] for c in corners):
                rec(i + 1)
            col[i] = None
            for c in corners:
                left[c] += 1
            deg[a] -= 1
            deg[b] -= 1
            size[ra] -= size[rb]
            parent[rb] = rb

    try:
        rec(0)
    except Done:
        pass
    return out


def full_clues(h, w, col):
    deg = [[0] * (w + 1) for _ in range(h + 1)]
    for i in range(h * w):
        for py, px in diagonal(i // w, i % w, col[i]):
            deg[py][px] += 1
    return deg


def patterns(h, w):
    """Loop-free grids near a few hand-made patterns: the first grid of the search that prefers the pattern's diagonal
    in every cell (a backslash never closes a loop in row-major order, so this is a greedy repair)."""
    pats = [
        lambda y, x: (y + x) % 2 == 0,  # checkerboard: diamonds (loops) wherever not repaired, clues 4 and 0
        lambda y, x: y % 2 == 0,  # zigzag rows
        lambda y, x: (y // 2 + x // 2) % 2 == 0,  # 2x2 blocks
        lambda y, x: (y + x) % 2 == 1,
        lambda y, x: x % 2 == 1,  # zigzag columns
        lambda y, x: (y + 2 * x) % 3 == 0,
        lambda y, x: False,  # all slash
        lambda y, x: True,  # all backslash
    ]
    empty = [[-1] * (w + 1) for _ in range(h + 1)]
    out = []
    for f in pats:
        g = search(h, w, empty, prefer=[f(y, x) for y in range(h) for x in range(w)], first_only=True)[0]
        if g not in out:
            out.append(g)
    return out


def spaced(items, k):
    """First, last and evenly spaced elements (k in total, fewer when there are fewer items)."""
    if len(items) <= k:
        return list(items)
    return [items[(len(items) - 1) * j // (k - 1)] for j in range(k)]


def variants(full, level):
    """Clue tables derived from a complete clue table: complete, thinned, and with one clue off by one (on the complete
    table, where the change nearly always makes the board unsolvable, and on thinned tables, where it often does not)."""
    hh, ww = len(full), len(full[0])
    n = hh * ww

    def table(keep, pos=None, d=0):
        t = [[full[y][x] if (keep(y * ww + x) or y * ww + x == pos) else -1 for x in range(ww)] for y in range(hh)]
        if pos is not None:
            v = full[pos // ww][pos % ww]
            if not 0 <= v + d <= 4:
                d = -d
            t[pos // ww][pos % ww] = v + d
        return t

    everything = lambda i: True  # noqa: E731
    last, mid, first, topright, botleft = n - 1, n // 2, 0, ww - 1, (hh - 1) * ww
    lastcol, lastrow = (hh // 2) * ww + ww - 1, n - 1 - ww // 2
    out = [
        table(everything),
        table(lambda i: i % 2 != 0),
        table(lambda i: i % 3 != 1),
        table(lambda i: i % 4 != 2),
        table(everything, last, 1),
        table(lambda i: i % 2 != 0, mid, 1),
        table(lambda i: i % 3 != 1, lastcol, -1),
    ]
    if level > 0:
        out += [
            table(lambda i: i % 3 != 0),
            table(lambda i: i % 2 != 1),
            table(lambda i: i % 3 == 1),
            table(lambda i: i % 4 == 3),
            table(lambda i: i % 5 == 2),
            table(everything, first, 1),
            table(everything, topright, -1),
            table(everything, mid, -1),
            table(lambda i: i % 3 != 1, lastrow, 1),
            table(lambda i: i % 2 != 0, botleft, 1),
            table(lambda i: i % 4 != 2, last, -1),
            table(lambda i: i % 2 != 1, lastcol, 1),
        ]
    return out


def large_instances(h, w, level):
    """The fixed instance set of a large board (cached: the driver asks for it once per shard)."""
    key = (h, w, level)
    if key in _LARGE:
        return _LARGE[key]
    empty = [[-1] * (w + 1) for _ in range(h + 1)]
    out = []
    grids = patterns(h, w)
    if h * w <= 16:
        out.append(empty)  # the clue-free board, and a lone clue on the far corner / last row / last column
        for py, px, v in ((h, w, 1), (h, w // 2, 2), (h // 2, w, 0), (h, w, 0), (h, w, 2))[: 1 if level == 0 else 5]:
            t = [row[:] for row in empty]
            t[py][px] = v
            out.append(t)
        grids = spaced(search(h, w, empty), 6)[1:-1] + grids  # first = all slash, last = all backslash: in patterns()
    # one grid per board on the quick tier (rotating through the list with the board size), three on the thorough tier
    r = (h + 2 * w) % len(grids)
    chosen = [grids[r]] if level == 0 else [grids[(r + j * max(1, len(grids) // 3)) % len(grids)] for j in range(3)]
    for g in chosen:
        for t in variants(full_clues(h, w, g), level):
            if t in out:
                continue
            try:
                _SOLS[repr(t)] = search(h, w, t, DENSE_CAP, NODE_CAP)
            except TooMany:
                continue
            out.append(t)
    _LARGE[key] = [{"height": h, "width": w, "problem": t} for t in out]
    return _LARGE[key]


class Gokigen(base.Rule):
    name = "gokigen"

    def shapes(self, tier):
        s = [(1, 1), (1, 2), (2, 1), (1, 3), (3, 1), (2, 2), (2, 3), (3, 2), (3, 3)]
        if tier != "quick":
            s += [(1, 4), (4, 1), (2, 4), (4, 2), (3, 4), (4, 3)]
        big = [(5, 5), (6, 6), (4, 6), (6, 4), (1, 12), (12, 1), (2, 10), (10, 2)]
        if tier != "quick":
            big = [(4, 4)] + big + [(4, 5), (5, 4), (5, 6), (6, 5), (7, 7), (3, 8), (8, 3), (1, 16), (16, 1), (2, 12), (12, 2), (5, 8), (8, 5)]
        return s + [("large", h, w, 0 if tier == "quick" else 1) for h, w in big]

    def instances(self, shape, cap):
        if shape[0] == "large":
            for p in large_instances(shape[1], shape[2], shape[3]):
                yield p
            return
        h, w = shape
        lays, k = base.layouts((h + 1) * (w + 1), -1, [0, 1, 2, 3, 4], cap)
        for pts in lays:
            yield {"height": h, "width": w, "problem": base.grid(pts, h + 1, w + 1)}

    def call(self, p):
        from cspuz.puzzle import gokigen

        is_sat, edge_type = gokigen.solve_gokigen(p["height"], p["width"], p["problem"])
        return is_sat, base.sols_of(edge_type)

    def readings(self, p):
        h, w = p["height"], p["width"]
        if h * w > 12:
            key = repr(p["problem"])  # answers computed while the instance set was built (same function)
            return [_SOLS[key] if key in _SOLS else search(h, w, p["problem"])]
        clues = []
        for py in range(h + 1):
            for px in range(w + 1):
                c = p["problem"][py][px]
                if c >= 0:
                    clues.append((py * (w + 1) + px, c))
        out = []
        for col, deg in candidates(h, w):
            if all(deg[k] == c for k, c in clues):
                out.append(col)
        return [out]

    def example(self):
        prob = [
            [-1, -1, -1, -1, -1, -1, -1, -1], [-1, 3, -1, 2, 3, -1, 3, -1], [-1, -1, 1, -1, -1, 1, -1, -1], [-1, -1, -1, -1, 3, 2, -1, -1],
            [-1, 3, -1, 3, 2, -1, 3, -1], [-1, -1, 1, -1, -1, 1, -1, -1], [-1, 3, -1, -1, 3, -1, 3, -1], [-1, -1, -1, -1, -1, -1, -1, -1],
        ]
        return {"height": 7, "width": 7, "problem": prob}, "cspuz/puzzle/gokigen.py _main() (puzsq pid=7862, 7x7; checked by solvability only: too large to enumerate)"


def brute(h, w, prob):
    """The small-board oracle (filter of all loop-free grids), for selftest()."""
    clues = [(py * (w + 1) + px, prob[py][px]) for py in range(h + 1) for px in range(w + 1) if prob[py][px] >= 0]
    return [col for col, deg in candidates(h, w) if all(deg[k] == c for k, c in clues)]


def selftest():
    """search() against the brute-force filter: clue-free boards, every single clue, and the dense family."""
    for h, w in ((1, 1), (1, 2), (2, 1), (1, 5), (5, 1), (2, 2), (2, 3), (3, 2), (3, 3), (2, 5), (5, 2), (3, 4), (4, 3), (4, 4)):
        empty = [[-1] * (w + 1) for _ in range(h + 1)]
        tables = [empty]
        for py in range(h + 1):
            for px in range(w + 1):
                for v in range(5):
                    t = [row[:] for row in empty]
                    t[py][px] = v
                    tables.append(t)
        allc = [col for col, deg in candidates(h, w)]
        for g in spaced(allc, 4) + patterns(h, w)[:3]:
            assert acyclic(h, w, g)
            tables += variants(full_clues(h, w, g), 1)
        for t in tables:
            assert sorted(search(h, w, t)) == sorted(brute(h, w, t)), (h, w, t)
    for g in patterns(6, 6) + patterns(4, 7):
        hh, ww = (6, 6) if len(g) == 36 else (4, 7)
        assert acyclic(hh, ww, g) and search(hh, ww, full_clues(hh, ww, g)) == [g]  # a complete clue table fixes the grid
    # the published 7x7 example has exactly one answer (as a published puzzle must)
    ex = RULE.example()[0]
    assert len(search(7, 7, ex["problem"])) == 1


RULE = Gokigen()
