"""Gokigen Naname (Slant).  Problem: problem[y][x] for the (height+1) x (width+1) lattice points; -1 = no clue, 0..4 = clue.

Rules (Nikoli "Gokigen Naname"): draw exactly one diagonal in every cell.  A clue on a lattice point is the number of
diagonals that end in that point (at most four inside, two on an edge, one in a corner).  The diagonals must not form a
closed loop (the graph on the lattice points whose edges are the drawn diagonals is a forest).

Answer keys: edge_type[y][x], row-major (h*w bools); True = "\\" (joins point (y, x) with (y+1, x+1)), False = "/" (joins
point (y, x+1) with (y+1, x)) - the convention stated in gokigen.py ("false: /, true: \\") and used by its printer.
Well-formed = every point value in {-1, 0, 1, 2, 3, 4}; a clue larger than the number of cells around its point is a
legal, unsolvable, problem.
"""

from . import base

_CAND = {}


def diagonal(y, x, backslash):
    """The two lattice points joined by the diagonal of cell (y, x)."""
    return ((y, x), (y + 1, x + 1)) if backslash else ((y, x + 1), (y + 1, x))


def acyclic(h, w, col):
    parent = {}

    def find(a):
        while parent.get(a, a) != a:
            a = parent[a]
        return a

    for i in range(h * w):
        a, b = diagonal(i // w, i % w, col[i])
        ra, rb = find(a), find(b)
        if ra == rb:
            return False
        parent[ra] = rb
    return True


def candidates(h, w):
    """All slant grids without a closed loop, each with its per-point degree table; clue independent, cached per shape."""
    if (h, w) not in _CAND:
        out = []
        for col in base.colorings(h * w):
            if acyclic(h, w, col):
                deg = [0] * ((h + 1) * (w + 1))
                for i in range(h * w):
                    for py, px in diagonal(i // w, i % w, col[i]):
                        deg[py * (w + 1) + px] += 1
                out.append((col, deg))
        _CAND[(h, w)] = out
    return _CAND[(h, w)]


class Gokigen(base.Rule):
    name = "gokigen"

    def shapes(self, tier):
        s = [(1, 1), (1, 2), (2, 1), (1, 3), (3, 1), (2, 2), (2, 3), (3, 2), (3, 3)]
        if tier != "quick":
            s += [(1, 4), (4, 1), (2, 4), (4, 2), (3, 4), (4, 3)]
        return s

    def instances(self, shape, cap):
        h, w = shape
        lays, k = base.layouts((h + 1) * (w + 1), -1, [0, 1, 2, 3, 4], cap)
        for pts in lays:
            yield {"height": h, "width": w, "problem": base.grid(pts, h + 1, w + 1)}

    def call(self, p):
        from cspuz.puzzle import gokigen

        is_sat, edge_type = gokigen.solve_gokigen(p["height"], p["width"], p["problem"])
        return is_sat, base.sols_of(edge_type)

    def readings(self, p):
        h, w = p["height"], p["width"]
        clues = []
        for py in range(h + 1):
            for px in range(w + 1):
                c = p["problem"][py][px]
                if c >= 0:
                    clues.append((py * (w + 1) + px, c))
        out = []
        for col, deg in candidates(h, w):
            if all(deg[k] == c for k, c in clues):
                out.append(col)
        return [out]

    def example(self):
        prob = [
            [-1, -1, -1, -1, -1, -1, -1, -1], [-1, 3, -1, 2, 3, -1, 3, -1], [-1, -1, 1, -1, -1, 1, -1, -1], [-1, -1, -1, -1, 3, 2, -1, -1],
            [-1, 3, -1, 3, 2, -1, 3, -1], [-1, -1, 1, -1, -1, 1, -1, -1], [-1, 3, -1, -1, 3, -1, 3, -1], [-1, -1, -1, -1, -1, -1, -1, -1],
        ]
        return {"height": 7, "width": 7, "problem": prob}, "cspuz/puzzle/gokigen.py _main() (puzsq pid=7862, 7x7; checked by solvability only: too large to enumerate)"


RULE = Gokigen()
