"""Castle Wall: a single loop through cell centres (or no line at all).

Instance: arrow[y][x] is ".." (ordinary cell), "dn" with d in "^v<>" (clue cell with an arrow and a number) or any other
string such as "??" (clue cell without arrow/number); inside[y][x] is True (clue cell lies inside the loop), False (outside)
or None (unspecified) and may be non-None only on clue cells (well-formedness decided from the format).

Rules (DESIGN.md appendix A): the loop never passes through a clue cell; a clue cell marked inside / outside lies in the
interior / exterior of the loop (with no line at all every cell is outside); an arrow clue "dn" says that exactly n loop
segments (cell-to-cell unit segments) lie in the clue's row/column in direction d between the clue and the board edge.

Inside/outside is computed here by a flood fill from the board's surroundings on the doubled grid (cells at odd/odd
coordinates, segments at the midpoints), independent of the parity construction used by the solver.

Key order: the BoolGridFrame(h-1, w-1) edges (horizontal row-major, then vertical row-major); bools.

Large family (shape descriptors ("large", h, w)): boards beyond the reach of base.loops() use the exact frontier enumerator
slitherlink.enum_loops(), pruned per clue cell (no line on it; the segment count of an arrow compared once all segments of
its ray are decided, and cut as soon as it is exceeded or out of reach) with the inside / outside marks checked by the same
flood fill on every complete loop; instances: complete clue sets of seed loops (every cell off the loop becomes a clue with
an arrow - directions rotating through ^ v < > - its true count and its true inside / outside mark), thinned / altered
variants (count +1 / -1, one mark flipped, marks dropped), clue-free boards, clues on the last row / column, and two-digit
counts on boards with a side of 13 and more.
"""

from . import base
from .slitherlink import enum_loops, edge_ids, vertex_edges, loop_count, all_loops, seed_loops, dense_family, uniq, within_budget

ARROWS = "^v<>"
_CACHE = {}


def _outside_cells(h, w, info):
    """Cells (y, x) not on the loop that are reachable from outside the board without crossing the loop."""
    H, W = 2 * h + 1, 2 * w + 1
    wall = set()
    for (y, x), dirs in info.items():
        if dirs:
            wall.add((2 * y + 1, 2 * x + 1))
        if "R" in dirs:
            wall.add((2 * y + 1, 2 * x + 2))
        if "D" in dirs:
            wall.add((2 * y + 2, 2 * x + 1))
    seen = {(0, 0)}
    stack = [(0, 0)]
    while stack:
        y, x = stack.pop()
        for dy, dx in ((0, 1), (1, 0), (0, -1), (-1, 0)):
            c = (y + dy, x + dx)
            if 0 <= c[0] < H and 0 <= c[1] < W and c not in wall and c not in seen:
                seen.add(c)
                stack.append(c)
    return frozenset((y, x) for y in range(h) for x in range(w) if (2 * y + 1, 2 * x + 1) in seen)


def _cands(h, w):
    if (h, w) not in _CACHE:
        out = []
        for loop in base.loops(h, w):
            info = base.loop_degree_info(h, w, loop)
            passed = frozenset(c for c, d in info.items() if d)
            out.append((loop, info, passed, _outside_cells(h, w, info)))
        _CACHE[(h, w)] = out
    return _CACHE[(h, w)]


OLD_PATH_MAX_VERTICES = 20  # boards of the small ladder keep the original oracle (base.loops + filter)
SOLUTION_CAP = 400000
_LARGE = {}


def _ray(h, w, y, x, d):
    """Key indices of the unit segments of the clue's row / column that lie in direction d of the cell (y, x)."""
    H, V, m = edge_ids(h, w)
    if d == "^":
        return [V(yy, x) for yy in range(0, y)]
    if d == "v":
        return [V(yy, x) for yy in range(y, h - 1)]
    if d == "<":
        return [H(y, xx) for xx in range(0, x)]
    return [H(y, xx) for xx in range(x, w - 1)]


def _checks(h, w, arrow, inside):
    ve = vertex_edges(h, w)
    watches = []
    marks = []
    for y in range(h):
        for x in range(w):
            a = arrow[y][x]
            if a == "..":
                continue
            own = [e for e in ve[y * w + x] if e is not None]
            if own:
                watches.append((own, lambda E, own=own: not any(E[e] for e in own)))
            if a[0] in ARROWS:
                ray = _ray(h, w, y, x, a[0])
                n = int(a[1:])

                def count_ok(E, ray=ray, n=n):
                    used = free = 0
                    for e in ray:
                        if E[e] is None:
                            free += 1
                        elif E[e]:
                            used += 1
                    return used <= n <= used + free

                if ray:
                    watches.append((ray, count_ok))
                elif n != 0:
                    watches.append(([], None))  # a count > 0 on an empty ray: no answer at all
            if inside[y][x] is not None:
                marks.append(((y, x), inside[y][x]))
    return watches, marks


def _final(h, w, marks):
    if not marks:
        return None

    def ok(loop):
        outside = _outside_cells(h, w, base.loop_degree_info(h, w, loop))
        return all(((c in outside) != want) for c, want in marks)

    return ok


def clues_of(h, w, loop, rot=0):
    """Complete clue set of a loop: every cell off the loop, with an arrow (direction number (index + rot) mod 4 of ^ v < >),
    the true segment count of that ray and the true inside (True) / outside (False) mark; values are (arrow string, mark)."""
    info = base.loop_degree_info(h, w, loop)
    outside = _outside_cells(h, w, info)
    out = {}
    k = 0
    for y in range(h):
        for x in range(w):
            if info[(y, x)]:
                continue
            d = ARROWS[(k + rot) % 4]
            k += 1
            out[(y, x)] = (d + str(sum(1 for e in _ray(h, w, y, x, d) if loop[e])), (y, x) not in outside)
    return out


def _large_instances(h, w, thorough):
    key = (h, w, thorough)
    if key in _LARGE:
        return _LARGE[key]

    def prob(clues):
        return {
            "height": h,
            "width": w,
            "arrow": [[clues[(y, x)][0] if (y, x) in clues else ".." for x in range(w)] for y in range(h)],
            "inside": [[clues[(y, x)][1] if (y, x) in clues else None for x in range(w)] for y in range(h)],
        }

    def keep(clues):
        clues = {c: v for c, v in clues.items() if 0 <= c[0] < h and 0 <= c[1] < w}
        p = prob(clues)
        if not enumerable:
            watches, marks = _checks(h, w, p["arrow"], p["inside"])
            if any(fn is None for e, fn in watches) or not within_budget(h, w, (), watches, _final(h, w, marks)):
                return
        out.append(p)

    out = []
    # complete enumeration with the flood fill on every loop is affordable up to about 25000 loops (5 x 5, 4 x 7, 3 x 11)
    enumerable = loop_count(h, w) is not None and loop_count(h, w) <= 25000
    far = (h - 1, w - 1)
    line = min(h, w) == 1
    if enumerable:
        light = [{}, {far: ("??", False)}, {far: ("<0", None)}, {(h // 2, w // 2): ("??", True)}, {(h - 1, w // 2): ("??", True)}]
        light += [{far: ("^%d" % max(h - 2, 0), None)}, {(h - 1, 0): (">%d" % max(w - 2, 0), False)}, {(h // 2, w - 1): ("<2", None), (h - 1, w // 2): ("^2", None)}]
        if thorough:
            light += [{far: ("<1", True)}, {(0, 0): ("v1", None), far: ("^1", None)}, {(h - 1, x): ("^1", False) for x in range(0, w, 2)}]
        for clues in light if thorough else (light[:6] if h == w else light[:4]):
            keep(clues)
    # two-digit counts: rays of 12 and more segments along the long side, from the first cell and from the far corner
    L = max(h, w) - 2  # longest possible count: the segment next to the clue cell is never used
    if L >= 10:
        fw, bw = (">", "<") if w > h else ("v", "^")
        two = [{(0, 0): (fw + str(L), None)}, {far: (bw + str(L), False)}, {(0, 0): (fw + "10", None)}, {far: (bw + str(L + 1), None)}]
        two += [{(0, 0): (fw + str(L), None), far: (bw + "10", None)}, {(0, 0): (fw + str(L + 2), None)}, {far: (bw + "12", None), (0, 0): ("??", False)}]
        for clues in two if thorough else two[: 3 if line else 4]:
            keep(clues)
    if enumerable:
        seeds = seed_loops(h, w, 1, longest=thorough)
    else:
        # a long seed loop leaves few cells off the loop, hence few clues and far too many answers: of six seed loops take
        # the shortest; the derived instances are kept when their exact enumeration stays within the node budget
        seeds = sorted(seed_loops(h, w, 6), key=lambda g: sum(g))[: 2 if thorough else 1]
    for j, g in enumerate(seeds):
        full = clues_of(h, w, g, rot=j)

        def bump(v, dl, c):
            n = int(v[0][1:]) + dl
            return (v[0][0] + str(n), v[1]) if n >= 0 else None

        fam = dense_family(full, h, w, bump, thorough)
        if not thorough and h != w:
            fam = fam[:2] + fam[3:5]
        for clues in fam:
            keep(clues)
        ks = sorted(full)
        if ks:
            # marks: one flipped (last clue / first clue), all dropped, only the marks (no arrows) on every 2nd clue
            extra = [dict(full, **{}) for _ in range(4)]
            extra[0][ks[-1]] = (full[ks[-1]][0], not full[ks[-1]][1])
            extra[1] = {c: (v[0], None) for c, v in full.items()}
            extra[2] = {c: ("??", v[1]) for i, (c, v) in enumerate(sorted(full.items())) if i % 2 == 0}
            extra[3][ks[0]] = (full[ks[0]][0], not full[ks[0]][1])
            for clues in extra if thorough else extra[: 2 if h == w else 1]:
                keep(clues)
    out = uniq(out)
    _LARGE[key] = out
    return out


class CastleWall(base.Rule):
    name = "castle_wall"

    def shapes(self, tier):
        s = [(1, 1), (1, 2), (2, 1), (1, 3), (3, 1), (2, 2), (2, 3), (3, 2), (3, 3)]
        if tier == "quick":
            # 3x4 / 4x3 cost ~20 s CPU each (469 layouts of ~40 ms); they are in the thorough ladder
            return s + [("large", h, w) for h, w in [(5, 5), (8, 8), (3, 10), (10, 3), (2, 13), (13, 2), (1, 13), (13, 1)]]
        s = s + [(1, 4), (4, 1), (2, 4), (4, 2), (3, 4), (4, 3), (4, 4), (3, 5), (5, 3)]
        large = [(5, 5), (8, 8), (3, 10), (10, 3), (2, 13), (13, 2), (1, 13), (13, 1)]
        large += [(6, 6), (7, 7), (4, 7), (7, 4), (5, 6), (6, 5), (10, 10), (6, 9), (9, 6), (4, 12), (12, 4), (3, 12), (12, 3), (2, 15), (15, 2)]
        return s + [("large", h, w) for h, w in large]

    def alphabet(self, shape):
        nums = (0, 1, 2) if max(shape) >= 4 else (0, 1)
        arrows = ["??"] + [d + str(n) for d in ARROWS for n in nums]
        # one letter = arrow string + "/" + inside mark (n none, i inside, o outside)
        return [a + "/" + s for a in arrows for s in "nio"]

    def instances(self, shape, cap):
        if shape[0] == "large":
            for p in _large_instances(shape[1], shape[2], cap > 1000):
                yield p
            return
        h, w = shape
        lays, k = base.layouts(h * w, "../n", self.alphabet(shape), cap)
        mark = {"n": None, "i": True, "o": False}
        for cells in lays:
            arrow = [c.split("/")[0] for c in cells]
            inside = [mark[c.split("/")[1]] for c in cells]
            yield {"height": h, "width": w, "arrow": base.grid(arrow, h, w), "inside": base.grid(inside, h, w)}

    def call(self, p):
        from cspuz.puzzle import castle_wall

        is_sat, frame = castle_wall.solve_castle_wall(p["height"], p["width"], p["arrow"], p["inside"])
        return is_sat, base.sols_of(frame)

    def readings(self, p):
        if p["height"] * p["width"] > OLD_PATH_MAX_VERTICES:
            return [self.readings_large(p)]
        return self.readings_small(p)

    def readings_large(self, p):
        h, w = p["height"], p["width"]
        watches, marks = _checks(h, w, p["arrow"], p["inside"])
        if any(fn is None for e, fn in watches):
            return []
        if not watches and loop_count(h, w) is not None:
            fin = _final(h, w, marks)
            return [t for t in all_loops(h, w) if fin is None or fin(t)]
        return enum_loops(h, w, (), watches, cap=SOLUTION_CAP, final=_final(h, w, marks))

    def readings_small(self, p):
        h, w, arrow, inside = p["height"], p["width"], p["arrow"], p["inside"]
        clues = [(y, x) for y in range(h) for x in range(w) if arrow[y][x] != ".."]
        clueset = frozenset(clues)
        out = []
        for loop, info, passed, outside in _cands(h, w):
            if passed & clueset:
                continue
            ok = True
            for y, x in clues:
                if inside[y][x] is True and (y, x) in outside:
                    ok = False
                elif inside[y][x] is False and (y, x) not in outside:
                    ok = False
                a = arrow[y][x]
                if ok and a[0] in ARROWS:
                    n = int(a[1:])
                    if a[0] == "^":
                        cnt = sum(1 for yy in range(0, y) if "D" in info[(yy, x)])
                    elif a[0] == "v":
                        cnt = sum(1 for yy in range(y + 1, h) if "U" in info[(yy, x)])
                    elif a[0] == "<":
                        cnt = sum(1 for xx in range(0, x) if "R" in info[(y, xx)])
                    else:
                        cnt = sum(1 for xx in range(x + 1, w) if "L" in info[(y, xx)])
                    if cnt != n:
                        ok = False
                if not ok:
                    break
            if ok:
                out.append(loop)
        return [out]

    def example(self):
        return None  # the module's _main() has no built-in instance


RULE = CastleWall()


def selftest():
    """The pruned large-board oracle against the original filter oracle on the small ladder: all layouts with one clue
    (two on the smallest boards) over arrows with counts 0..3, '??' and the three marks, and the dense families (complete
    clue sets, thinned, altered, marks flipped / dropped) of every loop of 4 x 4, 3 x 5, 5 x 3 and every 5th of 4 x 5."""
    r = RULE
    n = 0
    alphabet = [a + "/" + s for a in ["??"] + [d + str(k) for d in ARROWS for k in (0, 1, 2, 3)] for s in "nio"]
    mark = {"n": None, "i": True, "o": False}
    for h, w in [(1, 1), (1, 3), (3, 1), (2, 2), (2, 3), (3, 3), (3, 4), (4, 3), (4, 4), (3, 5), (5, 3)]:
        lays, k = base.layouts(h * w, "../n", alphabet, 3000)
        for cells in lays:
            arrow = [c.split("/")[0] for c in cells]
            inside = [mark[c.split("/")[1]] for c in cells]
            p = {"height": h, "width": w, "arrow": base.grid(arrow, h, w), "inside": base.grid(inside, h, w)}
            assert sorted(r.readings_small(p)[0]) == sorted(r.readings_large(p)), p
            n += 1
    for h, w, step in [(4, 4, 1), (3, 5, 1), (5, 3, 1), (4, 5, 5)]:
        for j, g in enumerate(base.loops(h, w)[1::step]):
            full = clues_of(h, w, g, rot=j)

            def bump(v, dl, c):
                k = int(v[0][1:]) + dl
                return (v[0][0] + str(k), v[1]) if k >= 0 else None

            fam = dense_family(full, h, w, bump, True)
            ks = sorted(full)
            if ks:
                d = dict(full)
                d[ks[-1]] = (full[ks[-1]][0], not full[ks[-1]][1])
                fam += [d, {c: (v[0], None) for c, v in full.items()}, {c: ("??", v[1]) for c, v in full.items()}]
            for clues in fam:
                p = {
                    "height": h,
                    "width": w,
                    "arrow": [[clues[(y, x)][0] if (y, x) in clues else ".." for x in range(w)] for y in range(h)],
                    "inside": [[clues[(y, x)][1] if (y, x) in clues else None for x in range(w)] for y in range(h)],
                }
                a = r.readings_small(p)[0]
                assert sorted(a) == sorted(r.readings_large(p)), p
                if clues == full:
                    assert g in a
                n += 1
    return n

