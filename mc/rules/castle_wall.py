"""Castle Wall: a single loop through cell centres (or no line at all).

Instance: arrow[y][x] is ".." (ordinary cell), "dn" with d in "^v<>" (clue cell with an arrow and a number) or any other
string such as "??" (clue cell without arrow/number); inside[y][x] is True (clue cell lies inside the loop), False (outside)
or None (unspecified) and may be non-None only on clue cells (well-formedness decided from the format).

Rules (DESIGN.md appendix A): the loop never passes through a clue cell; a clue cell marked inside / outside lies in the
interior / exterior of the loop (with no line at all every cell is outside); an arrow clue "dn" says that exactly n loop
segments (cell-to-cell unit segments) lie in the clue's row/column in direction d between the clue and the board edge.

Inside/outside is computed here by a flood fill from the board's surroundings on the doubled grid (cells at odd/odd
coordinates, segments at the midpoints), independent of the parity construction used by the solver.

Key order: the BoolGridFrame(h-1, w-1) edges (horizontal row-major, then vertical row-major); bools.
"""

from . import base

ARROWS = "^v<>"
_CACHE = {}


def _outside_cells(h, w, info):
    """Cells (y, x) not on the loop that are reachable from outside the board without crossing the loop."""
    H, W = 2 * h + 1, 2 * w + 1
    wall = set()
    for (y, x), dirs in info.items():
        if dirs:
            wall.add((2 * y + 1, 2 * x + 1))
        if "R" in dirs:
            wall.add((2 * y + 1, 2 * x + 2))
        if "D" in dirs:
            wall.add((2 * y + 2, 2 * x + 1))
    seen = {(0, 0)}
    stack = [(0, 0)]
    while stack:
        y, x = stack.pop()
        for dy, dx in ((0, 1), (1, 0), (0, -1), (-1, 0)):
            c = (y + dy, x + dx)
            if 0 <= c[0] < H and 0 <= c[1] < W and c not in wall and c not in seen:
                seen.add(c)
                stack.append(c)
    return frozenset((y, x) for y in range(h) for x in range(w) if (2 * y + 1, 2 * x + 1) in seen)


def _cands(h, w):
    if (h, w) not in _CACHE:
        out = []
        for loop in base.loops(h, w):
            info = base.loop_degree_info(h, w, loop)
            passed = frozenset(c for c, d in info.items() if d)
            out.append((loop, info, passed, _outside_cells(h, w, info)))
        _CACHE[(h, w)] = out
    return _CACHE[(h, w)]


class CastleWall(base.Rule):
    name = "castle_wall"

    def shapes(self, tier):
        s = [(1, 1), (1, 2), (2, 1), (1, 3), (3, 1), (2, 2), (2, 3), (3, 2), (3, 3)]
        if tier == "quick":
            return s  # 3x4 / 4x3 cost ~20 s CPU each (469 layouts of ~40 ms); they are in the thorough ladder
        return s + [(1, 4), (4, 1), (2, 4), (4, 2), (3, 4), (4, 3), (4, 4), (3, 5), (5, 3)]

    def alphabet(self, shape):
        nums = (0, 1, 2) if max(shape) >= 4 else (0, 1)
        arrows = ["??"] + [d + str(n) for d in ARROWS for n in nums]
        # one letter = arrow string + "/" + inside mark (n none, i inside, o outside)
        return [a + "/" + s for a in arrows for s in "nio"]

    def instances(self, shape, cap):
        h, w = shape
        lays, k = base.layouts(h * w, "../n", self.alphabet(shape), cap)
        mark = {"n": None, "i": True, "o": False}
        for cells in lays:
            arrow = [c.split("/")[0] for c in cells]
            inside = [mark[c.split("/")[1]] for c in cells]
            yield {"height": h, "width": w, "arrow": base.grid(arrow, h, w), "inside": base.grid(inside, h, w)}

    def call(self, p):
        from cspuz.puzzle import castle_wall

        is_sat, frame = castle_wall.solve_castle_wall(p["height"], p["width"], p["arrow"], p["inside"])
        return is_sat, base.sols_of(frame)

    def readings(self, p):
        h, w, arrow, inside = p["height"], p["width"], p["arrow"], p["inside"]
        clues = [(y, x) for y in range(h) for x in range(w) if arrow[y][x] != ".."]
        clueset = frozenset(clues)
        out = []
        for loop, info, passed, outside in _cands(h, w):
            if passed & clueset:
                continue
            ok = True
            for y, x in clues:
                if inside[y][x] is True and (y, x) in outside:
                    ok = False
                elif inside[y][x] is False and (y, x) not in outside:
                    ok = False
                a = arrow[y][x]
                if ok and a[0] in ARROWS:
                    n = int(a[1:])
                    if a[0] == "^":
                        cnt = sum(1 for yy in range(0, y) if "D" in info[(yy, x)])
                    elif a[0] == "v":
                        cnt = sum(1 for yy in range(y + 1, h) if "U" in info[(yy, x)])
                    elif a[0] == "<":
                        cnt = sum(1 for xx in range(0, x) if "R" in info[(y, xx)])
                    else:
                        cnt = sum(1 for xx in range(x + 1, w) if "L" in info[(y, xx)])
                    if cnt != n:
                        ok = False
                if not ok:
                    break
            if ok:
                out.append(loop)
        return [out]

    def example(self):
        return None  # the module's _main() has no built-in instance


RULE = CastleWall()
