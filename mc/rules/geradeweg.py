"""Geradeweg: a single loop through cell centres (or no line at all).  problem[y][x] >= 1 is a numbered cell, 0 a blank.

Rules (puzz.link / DESIGN.md appendix A): the loop passes through every numbered cell; the number is the length (counted in
cell-to-cell segments) of the straight line run(s) passing through the cell: where the loop goes straight through the
numbered cell the whole straight run containing it has that length; where it turns on the numbered cell BOTH straight runs
ending there have that length.

Key order: the BoolGridFrame(h-1, w-1) edges (horizontal row-major, then vertical row-major); bools.
"""

from . import base

STEP = {"U": (-1, 0), "D": (1, 0), "L": (0, -1), "R": (0, 1)}
_CACHE = {}


def _cands(h, w):
    """Clue-independent: per loop, per visited cell the tuple of lengths of the straight runs through it (1 or 2 entries)."""
    if (h, w) not in _CACHE:
        out = []
        for loop in base.loops(h, w):
            info = base.loop_degree_info(h, w, loop)
            runs = {}
            for (y, x), dirs in info.items():
                if not dirs:
                    continue
                lens = []
                for axis in (("L", "R"), ("U", "D")):
                    if not (dirs & set(axis)):
                        continue
                    n = 0
                    for d in axis:
                        cy, cx = y, x
                        while d in info[(cy, cx)]:
                            cy, cx = cy + STEP[d][0], cx + STEP[d][1]
                            n += 1
                    lens.append(n)
                runs[(y, x)] = tuple(lens)
            out.append((loop, runs))
        _CACHE[(h, w)] = out
    return _CACHE[(h, w)]


class Geradeweg(base.Rule):
    name = "geradeweg"

    def shapes(self, tier):
        s = [(1, 1), (1, 2), (2, 1), (1, 3), (3, 1), (2, 2), (2, 3), (3, 2), (3, 3)]
        if tier == "quick":
            return s + [(3, 4), (4, 3)]
        return s + [(1, 4), (4, 1), (2, 4), (4, 2), (3, 4), (4, 3), (4, 4), (2, 5), (5, 2), (3, 5), (5, 3)]

    def alphabet(self, shape):
        # 1..3 everywhere (on the small boards 2 and/or 3 exceed the longest possible run); 4 where a run of 4 fits
        return [1, 2, 3] + ([4] if max(shape) >= 5 else [])

    def instances(self, shape, cap):
        h, w = shape
        lays, k = base.layouts(h * w, 0, self.alphabet(shape), cap)
        for cells in lays:
            yield {"height": h, "width": w, "problem": base.grid(cells, h, w)}

    def call(self, p):
        from cspuz.puzzle import geradeweg

        is_sat, frame = geradeweg.solve_geradeweg(p["height"], p["width"], p["problem"])
        return is_sat, base.sols_of(frame)

    def readings(self, p):
        h, w, prob = p["height"], p["width"], p["problem"]
        clues = [((y, x), prob[y][x]) for y in range(h) for x in range(w) if prob[y][x] >= 1]
        out = []
        for loop, runs in _cands(h, w):
            ok = True
            for c, n in clues:
                r = runs.get(c)
                if r is None or any(l != n for l in r):
                    ok = False
                    break
            if ok:
                out.append(loop)
        return [out]

    def example(self):
        prob = [[0] * 10 for _ in range(10)]
        for (y, x), n in {(0, 0): 5, (1, 7): 1, (2, 3): 5, (3, 5): 2, (3, 9): 3, (4, 8): 4, (5, 1): 2, (6, 0): 2, (6, 4): 4,
                          (7, 6): 4, (8, 2): 2, (9, 9): 5}.items():
            prob[y][x] = n
        return {"height": 10, "width": 10, "problem": prob}, "cspuz/puzzle/geradeweg.py _main() (puzsq.sakura.ne.jp pid=8864)"


RULE = Geradeweg()
