"""Geradeweg: a single loop through cell centres (or no line at all).  problem[y][x] >= 1 is a numbered cell, 0 a blank.

Rules (puzz.link / DESIGN.md appendix A): the loop passes through every numbered cell; the number is the length (counted in
cell-to-cell segments) of the straight line run(s) passing through the cell: where the loop goes straight through the
numbered cell the whole straight run containing it has that length; where it turns on the numbered cell BOTH straight runs
ending there have that length.

Key order: the BoolGridFrame(h-1, w-1) edges (horizontal row-major, then vertical row-major); bools.

Large family (shape descriptors ("large", h, w)): boards beyond the reach of base.loops() use the exact frontier enumerator
slitherlink.enum_loops(), pruned per numbered cell (degree 2 once its own edges are decided; each straight run through it
compared with the number as soon as the run is closed off on both sides, and cut as soon as it is longer than the number);
instances: complete number sets of seed loops (every cell whose runs have one common length) and their thinned / altered
variants, clue-free boards, numbers on the last row / column, and two-digit numbers (runs of 10 and more) on boards with a
side of 11 and more.
"""

from . import base
from .slitherlink import enum_loops, edge_ids, vertex_edges, loop_count, all_loops, seed_loops, dense_family, uniq, within_budget

STEP = {"U": (-1, 0), "D": (1, 0), "L": (0, -1), "R": (0, 1)}
_CACHE = {}


def _cands(h, w):
    """Clue-independent: per loop, per visited cell the tuple of lengths of the straight runs through it (1 or 2 entries)."""
    if (h, w) not in _CACHE:
        out = []
        for loop in base.loops(h, w):
            info = base.loop_degree_info(h, w, loop)
            runs = {}
            for (y, x), dirs in info.items():
                if not dirs:
                    continue
                lens = []
                for axis in (("L", "R"), ("U", "D")):
                    if not (dirs & set(axis)):
                        continue
                    n = 0
                    for d in axis:
                        cy, cx = y, x
                        while d in info[(cy, cx)]:
                            cy, cx = cy + STEP[d][0], cx + STEP[d][1]
                            n += 1
                    lens.append(n)
                runs[(y, x)] = tuple(lens)
            out.append((loop, runs))
        _CACHE[(h, w)] = out
    return _CACHE[(h, w)]


OLD_PATH_MAX_VERTICES = 20  # boards of the small ladder keep the original oracle (base.loops + filter)
SOLUTION_CAP = 400000
_LARGE = {}


def _run(E, line, k):
    """line: the key indices of the consecutive edges of one row / column, k: position of a cell on it (edge j joins the
    cells j and j+1).  Returns (length of the straight run through cell k as far as decided, whether it is closed off on
    both sides); length 0 when the line does not run along this row / column through the cell."""
    n = 0
    closed = True
    j = k - 1
    while j >= 0 and E[line[j]]:
        n += 1
        j -= 1
    if j >= 0 and E[line[j]] is None:
        closed = False
    j = k
    while j < len(line) and E[line[j]]:
        n += 1
        j += 1
    if j < len(line) and E[line[j]] is None:
        closed = False
    return n, closed


def _checks(h, w, prob):
    H, V, m = edge_ids(h, w)
    ve = vertex_edges(h, w)
    checks = []
    watches = []
    for y in range(h):
        for x in range(w):
            n = prob[y][x]
            if n < 1:
                continue
            own = [e for e in ve[y * w + x] if e is not None]
            checks.append((own, lambda E, own=own: sum(1 for e in own if E[e]) == 2))
            for line, k in (([H(y, xx) for xx in range(w - 1)], x), ([V(yy, x) for yy in range(h - 1)], y)):

                def run_ok(E, line=line, k=k, n=n):
                    length, closed = _run(E, line, k)
                    if length == 0:
                        return True  # no run along this line (so far); the degree check decides whether the cell is visited
                    return length == n if closed else length <= n

                if line:
                    watches.append((line, run_ok))
    return checks, watches


def clues_of(h, w, loop):
    """Complete number set of a loop: every visited cell whose straight runs (one when it goes straight, two when it turns)
    have one common length gets that length."""
    H, V, m = edge_ids(h, w)
    out = {}
    for y in range(h):
        for x in range(w):
            lens = []
            for line, k in (([H(y, xx) for xx in range(w - 1)], x), ([V(yy, x) for yy in range(h - 1)], y)):
                n, closed = _run(loop, line, k)
                if n:
                    lens.append(n)
            if lens and len(set(lens)) == 1:
                out[(y, x)] = lens[0]
    return out


def _large_instances(h, w, thorough):
    key = (h, w, thorough)
    if key in _LARGE:
        return _LARGE[key]

    def prob(clues):
        return {"height": h, "width": w, "problem": [[clues.get((y, x), 0) for x in range(w)] for y in range(h)]}

    def keep(clues):
        if enumerable or within_budget(h, w, *_checks(h, w, prob(clues)["problem"])):
            out.append(prob(clues))

    out = []
    enumerable = loop_count(h, w) is not None
    far = (h - 1, w - 1)
    if enumerable:
        light = [{}, {far: 1}, {(h - 1, w // 2): max(w - 1, 1)}, {(h // 2, w - 1): max(h - 1, 1)}]
        if thorough or h == w:
            light += [{far: 2, (0, 0): 2}, {(h - 1, 0): 1, (0, w - 1): 1}, {(h - 1, x): 2 for x in range(0, w, 2)}, {(y, w - 1): 1 + y % 2 for y in range(h)}]
        for clues in light if thorough else (light[:6] if h == w else light[:3]):
            keep(clues)
    # two-digit numbers: runs of 10 and more along the long side, on the first and on the last line
    L = max(h, w) - 1
    if L >= 10:
        horiz = w > h
        a = (0, w // 2) if horiz else (h // 2, 0)
        b = (h - 1, w // 2 - 1) if horiz else (h // 2 - 1, w - 1)
        c = (h - 1, w - 2) if horiz else (h - 2, w - 1)
        two = [{a: L}, {b: L}, {a: L - 1}, {b: 10}, {a: L + 1}, {a: L, b: L}, {c: 10}, {a: 10, b: 11}]
        for clues in two if thorough else two[: 3 if min(h, w) == 1 else 5]:
            keep(clues)
    if enumerable:
        seeds = seed_loops(h, w, 1, longest=thorough)
    else:
        seeds = seed_loops(h, w, 2 if thorough else 1)
    for g in seeds:
        fam = dense_family(clues_of(h, w, g), h, w, lambda v, dl, c: v + dl if v + dl >= 1 else None, thorough)
        if not thorough and h != w:
            fam = fam[:2] + fam[3:5]
        for clues in fam:
            keep(clues)
    out = uniq(out)
    _LARGE[key] = out
    return out


class Geradeweg(base.Rule):
    name = "geradeweg"

    def shapes(self, tier):
        s = [(1, 1), (1, 2), (2, 1), (1, 3), (3, 1), (2, 2), (2, 3), (3, 2), (3, 3)]
        large = [(5, 5), (8, 8), (3, 11), (11, 3), (2, 12), (12, 2), (1, 12), (12, 1)]
        if tier == "quick":
            return s + [(3, 4), (4, 3)] + [("large", h, w) for h, w in large]
        large += [(6, 6), (7, 7), (4, 7), (7, 4), (5, 6), (6, 5), (10, 10), (6, 9), (9, 6), (4, 12), (12, 4), (3, 12), (12, 3), (2, 15), (15, 2)]
        s = s + [(1, 4), (4, 1), (2, 4), (4, 2), (3, 4), (4, 3), (4, 4), (2, 5), (5, 2), (3, 5), (5, 3)]
        return s + [("large", h, w) for h, w in large]

    def alphabet(self, shape):
        # 1..3 everywhere (on the small boards 2 and/or 3 exceed the longest possible run); 4 where a run of 4 fits
        return [1, 2, 3] + ([4] if max(shape) >= 5 else [])

    def instances(self, shape, cap):
        if shape[0] == "large":
            for p in _large_instances(shape[1], shape[2], cap > 1000):
                yield p
            return
        h, w = shape
        lays, k = base.layouts(h * w, 0, self.alphabet(shape), cap)
        for cells in lays:
            yield {"height": h, "width": w, "problem": base.grid(cells, h, w)}

    def call(self, p):
        from cspuz.puzzle import geradeweg

        is_sat, frame = geradeweg.solve_geradeweg(p["height"], p["width"], p["problem"])
        return is_sat, base.sols_of(frame)

    def readings(self, p):
        if p["height"] * p["width"] > OLD_PATH_MAX_VERTICES:
            return [self.readings_large(p)]
        return self.readings_small(p)

    def readings_large(self, p):
        h, w = p["height"], p["width"]
        checks, watches = _checks(h, w, p["problem"])
        if not checks and loop_count(h, w) is not None:
            return list(all_loops(h, w))
        return enum_loops(h, w, checks, watches, cap=SOLUTION_CAP)

    def readings_small(self, p):
        h, w, prob = p["height"], p["width"], p["problem"]
        clues = [((y, x), prob[y][x]) for y in range(h) for x in range(w) if prob[y][x] >= 1]
        out = []
        for loop, runs in _cands(h, w):
            ok = True
            for c, n in clues:
                r = runs.get(c)
                if r is None or any(l != n for l in r):
                    ok = False
                    break
            if ok:
                out.append(loop)
        return [out]

    def example(self):
        prob = [[0] * 10 for _ in range(10)]
        for (y, x), n in {(0, 0): 5, (1, 7): 1, (2, 3): 5, (3, 5): 2, (3, 9): 3, (4, 8): 4, (5, 1): 2, (6, 0): 2, (6, 4): 4,
                          (7, 6): 4, (8, 2): 2, (9, 9): 5}.items():
            prob[y][x] = n
        return {"height": 10, "width": 10, "problem": prob}, "cspuz/puzzle/geradeweg.py _main() (puzsq.sakura.ne.jp pid=8864)"


RULE = Geradeweg()


def selftest():
    """The pruned large-board oracle against the original filter oracle on the small ladder: all layouts with <= 2 numbers
    over 1..4 (<= 3 on the smallest boards), and the dense families of every loop of 4 x 4, 3 x 5, 5 x 3 and every 4th of 4 x 5."""
    r = RULE
    n = 0
    for h, w in [(1, 1), (1, 3), (2, 2), (2, 3), (3, 3), (3, 4), (4, 3), (4, 4), (2, 5), (5, 3)]:
        lays, k = base.layouts(h * w, 0, [1, 2, 3, 4], 2200)
        for cells in lays:
            p = {"height": h, "width": w, "problem": base.grid(cells, h, w)}
            assert sorted(r.readings_small(p)[0]) == sorted(r.readings_large(p)), p
            n += 1
    for h, w, step in [(4, 4, 1), (3, 5, 1), (5, 3, 1), (4, 5, 4)]:
        for g in base.loops(h, w)[1::step]:
            full = clues_of(h, w, g)
            runs = dict(_cands(h, w))[g]
            assert full == {c: v[0] for c, v in runs.items() if len(set(v)) == 1}
            for clues in dense_family(full, h, w, lambda v, dl, c: v + dl if v + dl >= 1 else None, True):
                p = {"height": h, "width": w, "problem": [[clues.get((y, x), 0) for x in range(w)] for y in range(h)]}
                a = r.readings_small(p)[0]
                assert sorted(a) == sorted(r.readings_large(p)), p
                if clues == full:
                    assert g in a
                n += 1
    return n

