"""Slitherlink: a single loop on the lattice (or no line at all); each clue = number of loop segments around its cell."""

from . import base


class Slitherlink(base.Rule):
    name = "slitherlink"

    def shapes(self, tier):
        s = [(1, 1), (1, 2), (2, 1), (2, 2), (1, 3), (3, 1), (2, 3), (3, 2)]
        return s + ([(3, 3)] if tier == "quick" else [(3, 3), (1, 4), (4, 1), (2, 4), (4, 2), (3, 4), (4, 3)])

    def instances(self, shape, cap):
        h, w = shape
        lays, k = base.layouts(h * w, -1, [0, 1, 2, 3, 4], cap)
        for cells in lays:
            yield {"height": h, "width": w, "problem": base.grid(cells, h, w)}

    def call(self, p):
        from cspuz.puzzle import slitherlink

        is_sat, frame = slitherlink.solve_slitherlink(p["height"], p["width"], p["problem"])
        return is_sat, base.sols_of(frame)

    def readings(self, p):
        h, w = p["height"], p["width"]
        # lattice of (h+1) x (w+1) points; key order = BoolGridFrame(h, w): horizontal (h+1) x w, vertical h x (w+1)
        idx, m = base.edge_index(h + 1, w + 1)
        out = []
        for loop in base.loops(h + 1, w + 1):
            ok = True
            for y in range(h):
                for x in range(w):
                    c = p["problem"][y][x]
                    if c >= 0:
                        n = (
                            loop[idx[frozenset([(y, x), (y, x + 1)])]]
                            + loop[idx[frozenset([(y + 1, x), (y + 1, x + 1)])]]
                            + loop[idx[frozenset([(y, x), (y + 1, x)])]]
                            + loop[idx[frozenset([(y, x + 1), (y + 1, x + 1)])]]
                        )
                        if n != c:
                            ok = False
                            break
                if not ok:
                    break
            if ok:
                out.append(loop)
        return [out]

    def example(self):
        return {"height": 4, "width": 4, "problem": [[3, -1, -1, -1], [3, -1, -1, -1], [-1, 2, 2, -1], [-1, 2, -1, 1]]}, "tests/test_serializer.py slither/4/4/dgdh2c71"


RULE = Slitherlink()
