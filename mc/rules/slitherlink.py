"""Slitherlink: a single loop on the lattice (or no line at all); each clue = number of loop segments around its cell.

Large family (shape descriptors ("large", h, w)): boards beyond the reach of base.loops() are enumerated by enum_loops(), an
exact vertex-by-vertex frontier search over the lattice (written from the definition "every vertex has degree 0 or 2 and the
used edges form at most one cycle"), pruned by the clues as soon as all edges of a clue are decided.  The enumerator and the
instance-derivation helpers below are shared by the other loop oracles (masyu, simpleloop, geradeweg, castle_wall).
"""

from . import base


# ---- exact loop enumeration for boards beyond base.loops() ---------------------------------------------------------
def edge_ids(h, w):
    """(H, V, m): H(y, x) = key index of the edge (y,x)-(y,x+1), V(y, x) = key index of (y,x)-(y+1,x), m = number of edges
    of the h x w vertex grid, in BoolGridFrame(h-1, w-1) key order (the order of base.edge_index)."""
    nh = h * (w - 1)

    def H(y, x):
        return y * (w - 1) + x

    def V(y, x):
        return nh + y * w + x

    return H, V, nh + (h - 1) * w


class _Stop(Exception):
    pass


class Budget(RuntimeError):
    pass


def enum_loops(h, w, checks=(), watches=(), stop=None, cap=None, variant=0, final=None, budget=None):
    """All edge sets of the h x w vertex grid graph that are empty or exactly one simple cycle (tuples of bools in base.loops
    key order) and pass the filters.

    Search: the vertices are visited along the short side (row-major, or column-major when w > h); at a vertex the edges to
    the already visited neighbours (up, left) are known and the edges to the right and down are chosen so that the vertex
    gets degree 0 or 2.  mate[v] is v for an untouched vertex, the other end of its path for a path end, -1 for an inner
    vertex; an edge that joins the two ends of one path closes a cycle, which is allowed only when no other path is open,
    and afterwards no further edge may be used.  Complete by construction: every branch that is cut violates the degree
    rule, creates a second cycle / a cycle beside an open path, or fails a filter.

    checks:  (edges, fn) - fn(E) is called once, at the moment all of `edges` are decided (E[k] is True/False for decided
             edges, None otherwise) and must return False to cut;
    watches: (edges, fn) - fn(E) is called every time one of `edges` gets decided (partial checks that tolerate None);
    final:   fn(loop) on complete loops;
    stop:    stop silently after that many loops (used only to pick seed loops);
    cap:     raise RuntimeError beyond that many loops (keeps an oracle call from running away);
    budget:  raise Budget after that many search nodes (used only when instances are selected, see within_budget);
    variant: 0 = canonical order of the choices; k > 0 = a fixed pseudo-random order (seed loops of large boards)."""
    nh = h * (w - 1)
    m = nh + (h - 1) * w
    n = h * w
    if w > h:
        order = [(y, x) for x in range(w) for y in range(h)]
    else:
        order = [(y, x) for y in range(h) for x in range(w)]
    pos = {}
    for i, (y, x) in enumerate(order):
        if x < w - 1:
            pos[y * (w - 1) + x] = i
        if y < h - 1:
            pos[nh + y * w + x] = i
    sched = [[] for _ in range(n)]
    for edges, fn in checks:
        sched[max([pos[e] for e in edges] or [0])].append(fn)
    for edges, fn in watches:
        for i in sorted(set(pos[e] for e in edges)):
            sched[i].append(fn)
    flip = [False] * n
    if variant:
        z = variant * 2654435761 % 4294967296
        for s in range(n):
            z = (z * 1103515245 + 12345) % 2147483648
            flip[s] = bool((z >> 16) & 1)
    E = [None] * m
    mate = list(range(n))
    out = []
    O2 = ((False, False),)
    O1 = (((True, False), (False, True)), ((False, True), (True, False)))
    O0 = (((False, False), (True, True)), ((True, True), (False, False)))
    nodes = [0]

    def link(u, v, nopen):
        a = mate[u]
        b = mate[v]
        if a == v:  # u and v are the two ends of one path: the edge closes a cycle
            if nopen != 1:
                return None
            mate[u] = -1
            mate[v] = -1
            return 0, True, ((u, a), (v, b))
        undo = ((u, a), (v, b), (a, mate[a]), (b, mate[b]))
        mate[a] = b
        mate[b] = a
        if a != u:
            mate[u] = -1
        if b != v:
            mate[v] = -1
        return nopen + (a == u) + (b == v) - 1, False, undo

    def rec(i, nopen, closed):
        if i == n:
            if closed or nopen == 0:
                t = tuple(E)
                if final is None or final(t):
                    out.append(t)
                    if stop is not None and len(out) >= stop:
                        raise _Stop()
                    if cap is not None and len(out) > cap:
                        raise RuntimeError("enum_loops: more than %d loops on %d x %d" % (cap, h, w))
            return
        y, x = order[i]
        s = y * w + x
        if budget is not None:
            nodes[0] += 1
            if nodes[0] > budget:
                raise Budget("enum_loops: more than %d search nodes on %d x %d" % (budget, h, w))
        din = (1 if (y > 0 and E[nh + (y - 1) * w + x]) else 0) + (1 if (x > 0 and E[y * (w - 1) + x - 1]) else 0)
        if closed or din == 2:
            opts = O2
        elif din == 1:
            opts = O1[flip[i]]
        else:
            opts = O0[flip[i]]
        cs = sched[i]
        for r, d in opts:
            if (r and x == w - 1) or (d and y == h - 1):
                continue
            n2 = nopen
            c2 = closed
            undo = []
            ok = True
            if r:
                res = link(s, s + 1, n2)
                if res is None:
                    ok = False
                else:
                    n2, c2, u = res
                    undo.append(u)
            if ok and d:
                res = None if c2 else link(s, s + w, n2)
                if res is None:
                    ok = False
                else:
                    n2, c2, u = res
                    undo.append(u)
            if ok:
                if x < w - 1:
                    E[y * (w - 1) + x] = r
                if y < h - 1:
                    E[nh + y * w + x] = d
                for f in cs:
                    if not f(E):
                        break
                else:
                    rec(i + 1, n2, c2)
                if x < w - 1:
                    E[y * (w - 1) + x] = None
                if y < h - 1:
                    E[nh + y * w + x] = None
            for u in reversed(undo):
                for k, val in reversed(u):
                    mate[k] = val

    try:
        rec(0, 0, False)
    except _Stop:
        pass
    return out


def within_budget(h, w, checks=(), watches=(), final=None, budget=120000, maxsol=20000):
    """True when the exact enumeration of the instance needs at most `budget` search nodes and has at most `maxsol`
    solutions.  Deterministic (node counts, not time); used to SELECT instances of the largest boards, where only clue sets
    that pin the loop down well can be enumerated - the enumeration itself is never cut short."""
    try:
        enum_loops(h, w, checks, watches, cap=maxsol, final=final, budget=budget)
    except RuntimeError:
        return False
    return True


def vertex_edges(h, w):
    """Per vertex id y*w+x the key indices (up, down, left, right) of its edges, None where the board ends."""
    H, V, m = edge_ids(h, w)
    return [
        (V(y - 1, x) if y > 0 else None, V(y, x) if y < h - 1 else None, H(y, x - 1) if x > 0 else None, H(y, x) if x < w - 1 else None)
        for y in range(h)
        for x in range(w)
    ]


def dirs_of(E, ve):
    """Directions ('U','D','L','R') of the edges of a vertex that are decided and used; ve = vertex_edges(h, w)[y*w+x]."""
    return "".join(d for d, e in zip("UDLR", ve) if e is not None and E[e])


# ---- seed loops and dense instance families -------------------------------------------------------------------------
ENUMERABLE = 100000  # clue-free boards are enumerated completely only when they have fewer loops than this
_SEEDS = {}


def loop_count(h, w):
    """Number of loops (incl. the empty one) of the h x w vertex grid when the board is small enough to enumerate completely
    (sides 1-2 x any, 3 x <= 12, 4 x <= 7, 5 x <= 6: at most 80627 loops), else None."""
    a, b = min(h, w), max(h, w)
    if not (a <= 2 or (a == 3 and b <= 12) or (a == 4 and b <= 7) or (a == 5 and b <= 6)):
        return None
    return len(all_loops(h, w))


_ALL = {}


def all_loops(h, w):
    if (h, w) not in _ALL:
        _ALL[(h, w)] = enum_loops(h, w, cap=ENUMERABLE)
    return _ALL[(h, w)]


def seed_loops(h, w, nseeds, longest=False, min_edges=None, final=None):
    """Deterministic choice of loops of the clue-free board: the first loop found under the choice orders variant = 1, 2, ...
    (nseeds distinct ones, each with at least min_edges segments and accepted by `final`), and on request - when the board
    is small enough to enumerate completely - also the (first) longest loop of the complete enumeration."""
    if min_edges is None:
        min_edges = h + w
    key = (h, w, nseeds, longest, min_edges) if final is None else None
    if key is not None and key in _SEEDS:
        return _SEEDS[key]
    fin = lambda t: sum(t) >= min_edges and (final is None or final(t))
    out = []
    v = 1
    while len(out) < nseeds and v <= 4 * nseeds + 4:
        got = enum_loops(h, w, stop=1, variant=v, final=fin)
        if got and got[0] not in out:
            out.append(got[0])
        v += 1
    if longest and loop_count(h, w) is not None:
        cands = [t for t in all_loops(h, w) if any(t) and (final is None or final(t))]
        if cands:
            t = max(cands, key=lambda t: sum(t))
            if t not in out:
                out.append(t)
    if key is not None:
        _SEEDS[key] = out
    return out


def dense_family(full, h, w, bump, thorough):
    """Clue sets derived from the complete clue set `full` ({(y, x): value}) of one solution: the full set; the full set minus
    every k-th clue (k = 2, 3; thorough also 4, 5); the full set with ONE clue changed by bump(value, +1 / -1, cell) at the
    last and first clue, a corner clue (far corner first), the middle clue and the clues nearest to the middle of the last
    row / last column (quick: the first three positions, one direction each, alternating +1 / -1; thorough: all positions,
    the first three in both directions).  bump returns the changed value or None when there is none."""
    keys = sorted(full)
    out = [dict(full)]
    for k in (2, 3, 4, 5) if thorough else (2, 3):
        if len(keys) >= k:
            out.append({c: full[c] for i, c in enumerate(keys) if i % k != k - 1})
    if keys:
        chosen = []

        def choose(cands):
            for c in cands:
                if c in full and c not in chosen:
                    chosen.append(c)
                    return

        choose([keys[-1]])
        choose([keys[0]])
        choose([(h - 1, w - 1), (0, w - 1), (h - 1, 0), (0, 0)])
        choose([keys[len(keys) // 2]])
        choose(sorted([c for c in keys if c[0] == h - 1], key=lambda c: (abs(2 * c[1] - (w - 1)), c)))
        choose(sorted([c for c in keys if c[1] == w - 1], key=lambda c: (abs(2 * c[0] - (h - 1)), c)))
        for i, c in enumerate(chosen if thorough else chosen[:3]):
            made = 0
            for dl in (1, -1) if i % 2 == 0 else (-1, 1):
                nv = bump(full[c], dl, c)
                if nv is None or nv == full[c]:
                    continue
                d = dict(full)
                d[c] = nv
                out.append(d)
                made += 1
                if made and not (thorough and i < 3):
                    break
    return out


def uniq(problems):
    """Drop repeated problems, keeping the order."""
    import json

    seen = set()
    out = []
    for p in problems:
        k = json.dumps(p, sort_keys=True)
        if k not in seen:
            seen.add(k)
            out.append(p)
    return out


_LARGE = {}

OLD_PATH_MAX_VERTICES = 20  # boards of the small ladder keep the original oracle (base.loops + filter)
SOLUTION_CAP = 400000


def _checks(h, w, prob):
    """Filters for enum_loops on the (h+1) x (w+1) lattice: per clue the exact count once its four sides are decided, and
    a partial count (not above the clue, still reachable) whenever one of them gets decided."""
    H, V, m = edge_ids(h + 1, w + 1)
    checks = []
    watches = []
    for y in range(h):
        for x in range(w):
            c = prob[y][x]
            if c >= 0:
                sides = (H(y, x), H(y + 1, x), V(y, x), V(y, x + 1))

                def exact(E, sides=sides, c=c):
                    return E[sides[0]] + E[sides[1]] + E[sides[2]] + E[sides[3]] == c

                def partial(E, sides=sides, c=c):
                    used = free = 0
                    for e in sides:
                        if E[e] is None:
                            free += 1
                        elif E[e]:
                            used += 1
                    return used <= c <= used + free

                checks.append((sides, exact))
                watches.append((sides, partial))
    return checks, watches


def clues_of(h, w, loop):
    """Complete clue set of a loop on the (h+1) x (w+1) lattice: the number of used sides of every cell."""
    H, V, m = edge_ids(h + 1, w + 1)
    return {(y, x): loop[H(y, x)] + loop[H(y + 1, x)] + loop[V(y, x)] + loop[V(y, x + 1)] for y in range(h) for x in range(w)}


def _large_instances(h, w, thorough):
    key = (h, w, thorough)
    if key in _LARGE:
        return _LARGE[key]

    def prob(clues):
        return {"height": h, "width": w, "problem": [[clues.get((y, x), -1) for x in range(w)] for y in range(h)]}

    out = []
    enumerable = loop_count(h + 1, w + 1) is not None
    if enumerable:
        # the clue-free board and light instances with clues on the far corner / last row / last column only
        far = (h - 1, w - 1)
        light = [{}, {far: 3}, {(h - 1, x): 1 for x in range(w)}, {(y, w - 1): 2 for y in range(h)}]
        if thorough or h == w:
            light += [{far: 2}, {far: 1, (0, 0): 3}, {(h - 1, 0): 3, (0, w - 1): 3}, {(h - 1, w // 2): 3, (h // 2, w - 1): 3}]
        if thorough:
            light += [{(h - 1, x): 2 for x in range(w)}, {(y, w - 1): 1 for y in range(h)}]
        for clues in light if (thorough or h == w) else light[:2]:
            out.append(prob(clues))

    def bump(v, dl, c):
        return v + dl if 0 <= v + dl <= 4 else None

    if thorough:
        seeds = seed_loops(h + 1, w + 1, 1 if enumerable else 2, longest=True)
    else:
        seeds = seed_loops(h + 1, w + 1, 1)
    for g in seeds:
        fam = dense_family(clues_of(h, w, g), h, w, bump, thorough)
        if not thorough and h != w:
            fam = fam[:2] + fam[3:5]  # non-square boards in the quick tier: full, minus every 2nd, two changed clues
        for clues in fam:
            out.append(prob(clues))
    out = uniq(out)
    _LARGE[key] = out
    return out


class Slitherlink(base.Rule):
    name = "slitherlink"

    def shapes(self, tier):
        s = [(1, 1), (1, 2), (2, 1), (2, 2), (1, 3), (3, 1), (2, 3), (3, 2)]
        s = s + ([(3, 3)] if tier == "quick" else [(3, 3), (1, 4), (4, 1), (2, 4), (4, 2), (3, 4), (4, 3)])
        # large family: dense clue sets derived from solutions, clue-free and last-row/column instances
        large = [(4, 4), (6, 6), (8, 8), (3, 6), (6, 3), (2, 10), (10, 2), (1, 12), (12, 1)]
        if tier != "quick":
            large += [(4, 5), (5, 4), (5, 5), (7, 7), (10, 10), (5, 8), (8, 5), (4, 9), (9, 4), (3, 12), (12, 3), (2, 11), (11, 2), (1, 15), (15, 1)]
        return s + [("large", h, w) for h, w in large]

    def instances(self, shape, cap):
        if shape[0] == "large":
            for p in _large_instances(shape[1], shape[2], cap > 1000):
                yield p
            return
        h, w = shape
        lays, k = base.layouts(h * w, -1, [0, 1, 2, 3, 4], cap)
        for cells in lays:
            yield {"height": h, "width": w, "problem": base.grid(cells, h, w)}

    def call(self, p):
        from cspuz.puzzle import slitherlink

        is_sat, frame = slitherlink.solve_slitherlink(p["height"], p["width"], p["problem"])
        return is_sat, base.sols_of(frame)

    def readings(self, p):
        h, w = p["height"], p["width"]
        if (h + 1) * (w + 1) > OLD_PATH_MAX_VERTICES:
            return [self.readings_large(p)]
        return [self.readings_small(p)]

    def readings_large(self, p):
        h, w = p["height"], p["width"]
        checks, watches = _checks(h, w, p["problem"])
        if not checks and loop_count(h + 1, w + 1) is not None:
            return list(all_loops(h + 1, w + 1))
        return enum_loops(h + 1, w + 1, checks, watches, cap=SOLUTION_CAP)

    def readings_small(self, p):
        h, w = p["height"], p["width"]
        # lattice of (h+1) x (w+1) points; key order = BoolGridFrame(h, w): horizontal (h+1) x w, vertical h x (w+1)
        idx, m = base.edge_index(h + 1, w + 1)
        out = []
        for loop in base.loops(h + 1, w + 1):
            ok = True
            for y in range(h):
                for x in range(w):
                    c = p["problem"][y][x]
                    if c >= 0:
                        n = (
                            loop[idx[frozenset([(y, x), (y, x + 1)])]]
                            + loop[idx[frozenset([(y + 1, x), (y + 1, x + 1)])]]
                            + loop[idx[frozenset([(y, x), (y + 1, x)])]]
                            + loop[idx[frozenset([(y, x + 1), (y + 1, x + 1)])]]
                        )
                        if n != c:
                            ok = False
                            break
                if not ok:
                    break
            if ok:
                out.append(loop)
        return out

    def example(self):
        return {"height": 4, "width": 4, "problem": [[3, -1, -1, -1], [3, -1, -1, -1], [-1, 2, 2, -1], [-1, 2, -1, 1]]}, "tests/test_serializer.py slither/4/4/dgdh2c71"


RULE = Slitherlink()


def selftest():
    """The frontier enumerator against base.loops() on every small board, and the pruned large-board oracle against the
    original filter oracle on the small ladder (all layouts with <= 1-2 clues, plus the dense families of every loop of 3 x 3
    and 2 x 4 cells and every 6th / 7th loop of 3 x 4 / 4 x 3 cells)."""
    H, V, m = edge_ids(3, 4)
    idx, m2 = base.edge_index(3, 4)
    assert m == m2 and all(idx[frozenset([(y, x), (y, x + 1)])] == H(y, x) for y in range(3) for x in range(3))
    assert all(idx[frozenset([(y, x), (y + 1, x)])] == V(y, x) for y in range(2) for x in range(4))
    for h in range(1, 6):
        for w in range(1, 6):
            if h * w <= 20:
                a = base.loops(h, w)
                for variant in (0, 1, 2):
                    b = enum_loops(h, w, variant=variant)
                    assert len(b) == len(set(b)) == len(a) and set(b) == set(a), (h, w, variant)
    assert len(enum_loops(5, 5)) == 9350 and len(enum_loops(2, 13)) == 1 + 13 * 12 // 2  # 2 x n: the rectangles
    assert len(enum_loops(6, 5)) == len(enum_loops(5, 6)) == 80627
    r = RULE
    n = 0
    for h, w in [(1, 1), (1, 3), (2, 2), (2, 3), (3, 2), (3, 3), (1, 4), (4, 2), (3, 4), (4, 3)]:
        lays, k = base.layouts(h * w, -1, [0, 1, 2, 3, 4], 1000)
        for cells in lays:
            p = {"height": h, "width": w, "problem": base.grid(cells, h, w)}
            assert sorted(r.readings_small(p)) == sorted(r.readings_large(p)), p
            n += 1
    for h, w, step in [(3, 3, 1), (2, 4, 1), (3, 4, 6), (4, 3, 7)]:
        for g in base.loops(h + 1, w + 1)[::step]:
            for clues in dense_family(clues_of(h, w, g), h, w, lambda v, dl, c: v + dl if 0 <= v + dl <= 4 else None, True):
                p = {"height": h, "width": w, "problem": [[clues.get((y, x), -1) for x in range(w)] for y in range(h)]}
                a = r.readings_small(p)
                assert sorted(a) == sorted(r.readings_large(p)), p
                if len(clues) == h * w and clues == clues_of(h, w, g):
                    assert g in a
                n += 1
    return n

