"""Yin-Yang (puzz.link "yinyang"): colour every cell black or white so that all black cells are orthogonally connected,
all white cells are orthogonally connected, and no 2x2 block is of one colour; given circles keep their colour
(`1` white, `2` black, `0` none).  A colour that does not occur at all counts as connected (DESIGN.md appendix A).

Answer keys: is_black, row-major (h*w bools).
Problem dict: {"height", "width", "problem": grid of 0 | 1 | 2}.

Two enumerators: candidates() filters all 2^(h*w) colourings (boards up to 16 cells); search() assigns the cells one by one
(along the shorter side) and gives up a branch as soon as a 2x2 block is of one colour, a given is contradicted, or a colour
has two components of which one can no longer grow (no unassigned neighbour) - all of them consequences of the rules above;
selftest() compares both on every board up to 16 cells.  readings() uses search() beyond 16 cells.

Shape ("large", h, w): the clue-free board, and dense instances derived from rule-obeying grids G of the clue-free board
(first / last / evenly spaced in enumeration order): all cells given, all minus every k-th, every k-th only, one given of
the opposite colour (first, last, middle, corner, edge cell), the last row / last column / far corner only.
Shape ("seeded", h, w): the same for boards whose clue-free enumeration is too slow (6x6 in the quick tier); the grids G
are the answers of a lightly clued board (top row half black, half white) and of the module's published example.
"""

from . import base

_CAND = {}
_FREE = {}
SMALL = 16  # boards up to this many cells are enumerated by candidates()


def candidates(h, w):
    if (h, w) in _CAND:
        return _CAND[(h, w)]
    cells = [(y, x) for y in range(h) for x in range(w)]
    out = []
    for col in base.colorings(h * w):
        black = [c for c, v in zip(cells, col) if v]
        white = [c for c, v in zip(cells, col) if not v]
        if not base.cells_connected(black) or not base.cells_connected(white):
            continue
        if base.has_2x2(black, h, w) or base.has_2x2(white, h, w):
            continue
        out.append(col)
    _CAND[(h, w)] = out
    return out


def _search_tall(h, w, fixed):
    """All is_black bit masks (bit y*w+x) of the h x w board obeying the rules, with fixed[k] in (None, False, True)."""
    n = h * w
    full = (1 << n) - 1
    notl = full & ~sum(1 << (y * w) for y in range(h))
    notr = full & ~sum(1 << (y * w + w - 1) for y in range(h))
    # cells that still have an unassigned neighbour once cells 0..i are assigned
    opn = []
    for i in range(n):
        m = 0
        for k in range(max(0, i - w + 1), i + 1):
            if k + w < n:
                m |= 1 << k
        if i % w < w - 1:
            m |= 1 << i
        opn.append(m)
    sq = [None] * n
    for y in range(1, h):
        for x in range(1, w):
            i = y * w + x
            sq[i] = (1 << i) | (1 << (i - 1)) | (1 << (i - w)) | (1 << (i - w - 1))
    earlier = [0] * n
    for i in range(n):
        if i >= w:
            earlier[i] |= 1 << (i - w)
        if i % w:
            earlier[i] |= 1 << (i - 1)

    def flood(seed, mask):
        while True:
            nxt = (seed | ((seed << 1) & notl) | ((seed >> 1) & notr) | (seed << w) | (seed >> w)) & mask
            if nxt == seed:
                return seed
            seed = nxt

    def may_connect(cells, still_open):
        """False when `cells` has two or more components and one of them has no unassigned neighbour."""
        if cells == 0:
            return True
        if flood(cells & -cells, cells) == cells:
            return True
        rest = cells
        while rest:
            comp = flood(rest & -rest, rest)
            if not comp & still_open:
                return False
            rest &= ~comp
        return True

    out = []

    def rec(i, black):
        if i == n:
            out.append(black)
            return
        done = (1 << (i + 1)) - 1
        for v in (0, 1):
            if fixed[i] is not None and fixed[i] != bool(v):
                continue
            nb = black | (v << i)
            q = sq[i]
            if q is not None:
                t = nb & q
                if t == q or t == 0:
                    continue
            same = nb if v else done & ~nb
            other = done & ~same
            if i == n - 1:
                if not may_connect(same, 0) or not may_connect(other, 0):
                    continue
            else:
                # the colour of cell i can only have got worse if cell i starts a new component; the other colour only if
                # an earlier neighbour of cell i has it (that neighbour has just lost an unassigned neighbour)
                if not same & earlier[i] and not may_connect(same, opn[i]):
                    continue
                if other & earlier[i] and not may_connect(other, opn[i]):
                    continue
            rec(i + 1, nb)

    rec(0, 0)
    return out


def search(h, w, prob=None):
    """All rule-obeying is_black tuples (row-major) of the board with givens prob (None: no givens), by pruned search."""
    fixed = [None] * (h * w)
    if prob is not None:
        for y in range(h):
            for x in range(w):
                if prob[y][x] != 0:
                    fixed[y * w + x] = prob[y][x] == 2
    # the search runs over an internal board that is at least as tall as wide, with the givens rather near its first rows
    # (a given prunes from its row on); (Y, X) of the internal board is cell at(Y, X) of the real one
    ih, iw = (h, w) if w <= h else (w, h)
    at = (lambda Y, X: (Y, X)) if w <= h else (lambda Y, X: (X, Y))
    rows = [sum(1 for X in range(iw) if fixed[at(Y, X)[0] * w + at(Y, X)[1]] is not None) for Y in range(ih)]
    if sum(c * (2 * Y - (ih - 1)) for Y, c in enumerate(rows)) > 0:  # givens mostly in the far half: search from there
        at = (lambda f: (lambda Y, X: f(ih - 1 - Y, X)))(at)
    real = [at(Y, X)[0] * w + at(Y, X)[1] for Y in range(ih) for X in range(iw)]
    pos = [0] * (h * w)
    for k, r in enumerate(real):
        pos[r] = k
    return [tuple(bool(m >> pos[r] & 1) for r in range(h * w)) for m in _search_tall(ih, iw, [fixed[r] for r in real])]


def free(h, w):
    if (h, w) not in _FREE:
        _FREE[(h, w)] = search(h, w)
    return _FREE[(h, w)]


def pick(seq, k):
    """k evenly spaced elements of seq, first and last included (all of seq when it has at most k elements)."""
    if len(seq) <= k:
        return list(seq)
    return [seq[(len(seq) - 1) * j // (k - 1)] for j in range(k)]


class YinYang(base.Rule):
    name = "yinyang"

    def shapes(self, tier):
        s = [(1, 1), (1, 2), (2, 1), (1, 3), (3, 1), (2, 2), (2, 3), (3, 2), (3, 3)]
        large = [("large", 5, 5), ("large", 6, 5), ("large", 5, 6), ("seeded", 6, 6), ("large", 2, 10), ("large", 10, 2), ("large", 1, 12), ("large", 12, 1)]
        if tier == "quick":
            # on boards up to 3x3 the 2x2 rules alone already force both colours to be connected; the smallest boards where
            # connectivity bites are 3x4 / 4x3 with >= 2 givens, reached under the quick cap by one-colour alphabets
            return s + [(3, 4), (4, 3), (3, 4, 1), (4, 3, 2)] + large
        large += [("large", 6, 6), ("large", 3, 8), ("large", 8, 3), ("large", 4, 8), ("large", 8, 4)]
        large += [("large", 1, 15), ("large", 15, 1), ("seeded", 6, 7), ("seeded", 7, 6)]
        return s + [(1, 4), (4, 1), (2, 4), (4, 2), (3, 4), (4, 3), (4, 4)] + large

    def instances(self, shape, cap):
        """shape (h, w): cap rule over 0 | 1 2; shape (h, w, c): cap rule over 0 | c (givens of one colour only);
        shape ("large" | "seeded", h, w): see the module doc (cap <= 1000 selects the short quick-tier list)."""
        if shape[0] in ("large", "seeded"):
            for cells in self.large_layouts(shape[0], shape[1], shape[2], cap <= 1000):
                yield {"height": shape[1], "width": shape[2], "problem": base.grid(cells, shape[1], shape[2])}
            return
        h, w = shape[0], shape[1]
        lays, k = base.layouts(h * w, 0, [1, 2] if len(shape) == 2 else [shape[2]], cap)
        for cells in lays:
            yield {"height": h, "width": w, "problem": base.grid(cells, h, w)}

    def large_layouts(self, kind, h, w, quick):
        n = h * w
        out = []
        if kind == "large":
            out.append([0] * n)
            sols = free(h, w)
        else:
            top = [[2 if x < w // 2 else 1 for x in range(w)]] + [[0] * w for _ in range(h - 1)]
            sols = search(h, w, top)
            ex = self.example()[0]
            if (ex["height"], ex["width"]) == (h, w):
                sols = sols + search(h, w, ex["problem"])
            # a board whose givens contradict each other only through connectivity: both border rows split the other way round
            out.append(top[0] + [0] * (n - 2 * w) + [1 if x < w // 2 else 2 for x in range(w)])
        spots = [n - 1, w - 1, n // 2, 0, n - w, (h // 2) * w + w - 1]
        gs = pick(sols, 3)
        for gi, g in enumerate(gs):
            full = [2 if b else 1 for b in g]
            var = {"full": full}
            for k in (2, 3, 4):
                var["minus%d" % k] = [0 if i % k == k - 1 else c for i, c in enumerate(full)]  # minus every k-th given
            var["third"] = [c if i % 3 == gi % 3 else 0 for i, c in enumerate(full)]  # every third given only
            var["lastrow"] = [c if i >= n - w else 0 for i, c in enumerate(full)]
            var["lastcol"] = [c if i % w == w - 1 else 0 for i, c in enumerate(full)]
            var["corner"] = [c if i == n - 1 else 0 for i, c in enumerate(full)]
            var["lastrowcol"] = [c if (i >= n - w or i % w == w - 1) else 0 for i, c in enumerate(full)]
            thin = var["minus2"]
            for j, q in enumerate(spots):  # one given of the opposite colour: in the full set, and in the thinned set
                var["flip%d" % j] = [(3 - c) if i == q else c for i, c in enumerate(full)]
                var["thinflip%d" % j] = [(3 - full[i]) if i == q else c for i, c in enumerate(thin)]
            if quick:  # every kind of variant once, spread over the grids G
                names = (["full", "thinflip0", "lastcol"], ["minus2", "lastrow", "flip2"], ["minus3", "thinflip1", "third"])[gi][: 3 if gi == 0 else 2]
            else:
                names = [k for j, k in enumerate(var) if not k.startswith(("flip", "thinflip")) or j % len(gs) == gi]
            for k in names:
                if kind == "seeded" and k == "corner":  # as slow as the clue-free board
                    continue
                if var[k] not in out:
                    out.append(var[k])
        return out

    def call(self, p):
        from cspuz.puzzle import yinyang

        is_sat, is_black = yinyang.solve_yinyang(p["height"], p["width"], p["problem"])
        return is_sat, base.sols_of(is_black)

    def readings(self, p):
        h, w = p["height"], p["width"]
        prob = p["problem"]
        if h * w > SMALL:
            return [search(h, w, prob) if any(c != 0 for row in prob for c in row) else free(h, w)]
        given = [(y * w + x, prob[y][x] == 2) for y in range(h) for x in range(w) if prob[y][x] != 0]
        out = [col for col in candidates(h, w) if all(col[k] == v for k, v in given)]
        return [out]

    def example(self):
        prob = [
            [0, 0, 0, 2, 0, 1], [0, 1, 1, 0, 0, 0], [2, 0, 1, 0, 0, 0], [0, 0, 0, 0, 2, 0], [0, 0, 0, 0, 0, 2], [0, 0, 2, 0, 0, 0],
        ]
        return {"height": 6, "width": 6, "problem": prob}, "cspuz/puzzle/yinyang.py _main() (pzv.jp/p.html?yinyang/6/6/0j40j0060220)"


def selftest():
    """search() against the filter of all colourings: every board up to 16 cells, clue-free and with a systematic family of
    givens (every rule-obeying grid thinned to every third cell, with and without one given flipped; contradictory pairs)."""
    boards = [(h, w) for h in range(1, 17) for w in range(1, 17) if h * w <= SMALL]
    checked = 0
    for h, w in boards:
        n = h * w
        cand = candidates(h, w)
        assert sorted(search(h, w)) == sorted(cand), (h, w)
        probs = []
        for gi, g in enumerate(pick(cand, 12)):
            cells = [(2 if b else 1) if i % 3 == gi % 3 else 0 for i, b in enumerate(g)]
            probs.append(cells)
            for q in (0, n - 1, n // 2):
                probs.append([(3 - (2 if g[i] else 1)) if i == q else c for i, c in enumerate(cells)])
        for a in range(n):
            probs.append([2 if i in (a, n - 1 - a) else (1 if i == (a + n // 2) % n else 0) for i in range(n)])
        for cells in probs:
            prob = base.grid(cells, h, w)
            given = [(k, c == 2) for k, c in enumerate(cells) if c != 0]
            want = [col for col in cand if all(col[k] == v for k, v in given)]
            assert sorted(search(h, w, prob)) == sorted(want), (h, w, cells)
            checked += 1
    return checked


RULE = YinYang()
