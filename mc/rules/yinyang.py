"""Yin-Yang (puzz.link "yinyang"): colour every cell black or white so that all black cells are orthogonally connected,
all white cells are orthogonally connected, and no 2x2 block is of one colour; given circles keep their colour
(`1` white, `2` black, `0` none).  A colour that does not occur at all counts as connected (DESIGN.md appendix A).

Answer keys: is_black, row-major (h*w bools).
Problem dict: {"height", "width", "problem": grid of 0 | 1 | 2}.
"""

from . import base

_CAND = {}


def candidates(h, w):
    if (h, w) in _CAND:
        return _CAND[(h, w)]
    cells = [(y, x) for y in range(h) for x in range(w)]
    out = []
    for col in base.colorings(h * w):
        black = [c for c, v in zip(cells, col) if v]
        white = [c for c, v in zip(cells, col) if not v]
        if not base.cells_connected(black) or not base.cells_connected(white):
            continue
        if base.has_2x2(black, h, w) or base.has_2x2(white, h, w):
            continue
        out.append(col)
    _CAND[(h, w)] = out
    return out


class YinYang(base.Rule):
    name = "yinyang"

    def shapes(self, tier):
        s = [(1, 1), (1, 2), (2, 1), (1, 3), (3, 1), (2, 2), (2, 3), (3, 2), (3, 3)]
        if tier == "quick":
            # on boards up to 3x3 the 2x2 rules alone already force both colours to be connected; the smallest boards where
            # connectivity bites are 3x4 / 4x3 with >= 2 givens, reached under the quick cap by one-colour alphabets
            return s + [(3, 4), (4, 3), (3, 4, 1), (4, 3, 2)]
        return s + [(1, 4), (4, 1), (2, 4), (4, 2), (3, 4), (4, 3), (4, 4)]

    def instances(self, shape, cap):
        """shape (h, w): cap rule over 0 | 1 2; shape (h, w, c): cap rule over 0 | c (givens of one colour only)."""
        h, w = shape[0], shape[1]
        lays, k = base.layouts(h * w, 0, [1, 2] if len(shape) == 2 else [shape[2]], cap)
        for cells in lays:
            yield {"height": h, "width": w, "problem": base.grid(cells, h, w)}

    def call(self, p):
        from cspuz.puzzle import yinyang

        is_sat, is_black = yinyang.solve_yinyang(p["height"], p["width"], p["problem"])
        return is_sat, base.sols_of(is_black)

    def readings(self, p):
        h, w = p["height"], p["width"]
        prob = p["problem"]
        given = [(y * w + x, prob[y][x] == 2) for y in range(h) for x in range(w) if prob[y][x] != 0]
        out = [col for col in candidates(h, w) if all(col[k] == v for k, v in given)]
        return [out]

    def example(self):
        prob = [
            [0, 0, 0, 2, 0, 1], [0, 1, 1, 0, 0, 0], [2, 0, 1, 0, 0, 0], [0, 0, 0, 0, 2, 0], [0, 0, 0, 0, 0, 2], [0, 0, 2, 0, 0, 0],
        ]
        return {"height": 6, "width": 6, "problem": prob}, "cspuz/puzzle/yinyang.py _main() (pzv.jp/p.html?yinyang/6/6/0j40j0060220)"


RULE = YinYang()
