"""Simple Loop: a single loop through cell centres that visits exactly the non-blocked cells (blocked[y][x] == 1 is a
blocked cell, 0 a free cell); a board without free cells is answered by "no line at all" (library convention).

The pivot.  solve_simpleloop(height, width, blocked, pivot) takes one distinguished cell pivot = (py, px) whose own
entry in `blocked` is NOT read: the generator leaves that cell open while it searches and lets parity decide it - a loop on
a grid has an even number of cells, so the pivot is taken to be free exactly when the number of OTHER free cells is odd
(generate_simpleloop finally writes blocked[py][px] = 1 - n_other_free % 2).  An instance is therefore well-formed for the
plain rule only when blocked[py][px] already agrees with that parity rule, which is the case iff the total number of free
cells is even; only such instances are generated (pivot positions: see instances()), and the oracle ignores the pivot.
The pivot is carried as a list [py, px] in the JSON problem and handed to the solver as a tuple (the solver compares it
with (y, x) tuples).

Key order: the BoolGridFrame(h-1, w-1) edges (horizontal row-major, then vertical row-major); bools.

Large family (shape descriptors ("large", h, w)): boards beyond the reach of base.loops() use the exact frontier enumerator
slitherlink.enum_loops() with the per-cell filter "degree 2 on a free cell, no line on a blocked cell"; instances: blocked
sets that are the complement of seed loops, thinned (every k-th blocked cell freed) and altered (one blocked cell moved,
two neighbouring cells blocked / freed - always an even number of free cells), all-free boards, blocked last row / column /
corners; the pivot rotates through the far corner, the first cell, the last row, the last column, a free and a blocked cell.
On these boards only instances whose exact enumeration stays within a fixed node budget are kept (slitherlink.within_budget).
"""

from . import base
from .slitherlink import enum_loops, vertex_edges, seed_loops, dense_family, uniq, within_budget

_CACHE = {}


def _cands(h, w):
    if (h, w) not in _CACHE:
        out = []
        for loop in base.loops(h, w):
            info = base.loop_degree_info(h, w, loop)
            out.append((loop, frozenset(c for c, d in info.items() if d)))
        _CACHE[(h, w)] = out
    return _CACHE[(h, w)]


OLD_PATH_MAX_VERTICES = 20  # boards of the small ladder keep the original oracle (base.loops + filter)
SOLUTION_CAP = 400000
_LARGE = {}


def _checks(h, w, blocked):
    ve = vertex_edges(h, w)
    checks = []
    watches = []
    for y in range(h):
        for x in range(w):
            own = [e for e in ve[y * w + x] if e is not None]
            if blocked[y][x] == 0:
                checks.append((own, lambda E, own=own: sum(1 for e in own if E[e]) == 2))
            else:
                watches.append((own, lambda E, own=own: not any(E[e] for e in own)))
    return checks, watches


def _large_instances(h, w, thorough):
    key = (h, w, thorough)
    if key in _LARGE:
        return _LARGE[key]
    cells = [(y, x) for y in range(h) for x in range(w)]
    far = (h - 1, w - 1)

    def even(bl):
        """Make the number of free cells even by toggling one cell: free the last blocked cell, or block the far corner."""
        bl = set(bl)
        if (h * w - len(bl)) % 2:
            if bl:
                bl.discard(max(bl))
            else:
                bl.add(far)
        return bl

    sets = []
    light = [set(), {far, (0, 0)}, {(h - 1, x) for x in range(w)}, {(y, w - 1) for y in range(h)}]
    if min(h, w) == 1:
        light = [set(cells), set(), {far}, set(cells) - {far, (0, 0)}]  # only the fully blocked line has an answer
    elif not thorough and h != w:
        light = light[:2]
    if thorough or h == w:
        light += [{far, (h - 1, 0)}, {(0, w - 1), (h - 1, 0)}, {(h - 1, w // 2), (h // 2, w - 1)}, set(cells), set(cells) - {far, (h - 1, w - 2)}]
    for bl in light:
        sets.append(even(bl))
    nseeds = 2 if thorough else 1
    if h * w > 42:
        # a nearly Hamiltonian seed loop leaves an open board with far too many answers: of six seed loops take the shortest
        seeds = sorted(seed_loops(h, w, 6), key=lambda g: sum(g))[:nseeds]
    else:
        seeds = seed_loops(h, w, nseeds)
    for g in seeds:
        ve = vertex_edges(h, w)
        on = set(c for c in cells if any(e is not None and g[e] for e in ve[c[0] * w + c[1]]))
        off = sorted(set(cells) - on)
        fam = dense_family({c: 1 for c in off}, h, w, lambda v, dl, c: None, thorough)
        for clues in fam:
            sets.append(even(clues))
        # one blocked cell moved: freed, and a free cell blocked instead (its neighbour on the board, else the first free cell)
        chosen = []
        for c in [off[-1] if off else None, off[0] if off else None, off[len(off) // 2] if off else None] + [c for c in (far, (0, w - 1), (h - 1, 0)) if c in off]:
            if c is not None and c not in chosen:
                chosen.append(c)
        for i, c in enumerate(chosen if thorough else chosen[:2]):
            nb = [(c[0] + dy, c[1] + dx) for dy, dx in ((0, 1), (1, 0), (0, -1), (-1, 0))]
            nb = [q for q in nb if q in on]
            f = nb[0] if (nb and i % 2 == 0) else min(on)
            sets.append((set(off) - {c}) | {f})
        # two neighbouring loop cells blocked; two neighbouring blocked cells freed
        lo = sorted(on)
        pairs = [(a, b) for a in lo for b in ((a[0], a[1] + 1), (a[0] + 1, a[1])) if b in on]
        if pairs:
            for a, b in [pairs[-1]] + ([pairs[0], pairs[len(pairs) // 2]] if thorough else []):
                sets.append(set(off) | {a, b})
        pairs = [(a, b) for a in off for b in ((a[0], a[1] + 1), (a[0] + 1, a[1])) if b in off]
        if pairs:
            for a, b in [pairs[-1]] + ([pairs[0], pairs[len(pairs) // 2]] if thorough else []):
                sets.append(set(off) - {a, b})
    out = []
    seen = []
    for bl in sets:
        if bl in seen:
            continue
        seen.append(bl)
        blocked = [[1 if (y, x) in bl else 0 for x in range(w)] for y in range(h)]
        checks, watches = _checks(h, w, blocked)
        if not within_budget(h, w, checks, watches, budget=50000):
            continue
        free = [c for c in cells if c not in bl]
        pivots = [far, (0, 0), (h - 1, w // 2), (h // 2, w - 1)] + ([free[0]] if free else []) + ([min(bl)] if bl else [])
        k = len(out)
        for pv in [pivots[k % len(pivots)]] + ([pivots[(k + 3) % len(pivots)]] if thorough and k % 4 == 0 else []):
            out.append({"height": h, "width": w, "blocked": blocked, "pivot": [pv[0], pv[1]]})
    out = uniq(out)
    _LARGE[key] = out
    return out


class SimpleLoop(base.Rule):
    name = "simpleloop"

    def shapes(self, tier):
        s = [(1, 1), (1, 2), (2, 1), (1, 3), (3, 1), (2, 2), (2, 3), (3, 2), (3, 3)]
        large = [(6, 6), (8, 8), (5, 7), (7, 5), (2, 12), (12, 2), (1, 12), (12, 1)]
        if tier == "quick":
            return s + [(3, 4), (4, 3)] + [("large", h, w) for h, w in large]
        large += [(5, 5), (7, 7), (4, 9), (9, 4), (6, 7), (7, 6), (10, 10), (6, 9), (9, 6), (3, 12), (12, 3), (2, 15), (15, 2)]
        s = s + [(1, 4), (4, 1), (2, 4), (4, 2), (3, 4), (4, 3), (4, 4), (2, 5), (5, 2), (3, 5), (5, 3)]
        return s + [("large", h, w) for h, w in large]

    def instances(self, shape, cap):
        if shape[0] == "large":
            for p in _large_instances(shape[1], shape[2], cap > 1000):
                yield p
            return
        h, w = shape
        # cap rule on the blocked grids (<= k blocked cells); each parity-consistent grid is posed with every pivot
        lays, k = base.layouts(h * w, 0, [1], cap)
        n = h * w
        lays = [cells for cells in lays if (n - sum(cells)) % 2 == 0]
        # pivots: every cell while that keeps the shape within 2 * cap instances; otherwise three per grid - the first free
        # cell, the first blocked cell, and cell number (grid index mod h*w), which rotates through all positions
        all_pivots = len(lays) * n <= 2 * cap
        for i, cells in enumerate(lays):
            if all_pivots:
                pivots = list(range(n))
            else:
                pivots = []
                for c in ([cells.index(0)] if 0 in cells else []) + ([cells.index(1)] if 1 in cells else []) + [i % n]:
                    if c not in pivots:
                        pivots.append(c)
            for c in pivots:
                yield {"height": h, "width": w, "blocked": base.grid(cells, h, w), "pivot": [c // w, c % w]}

    def call(self, p):
        from cspuz.puzzle import simpleloop

        is_sat, frame = simpleloop.solve_simpleloop(p["height"], p["width"], p["blocked"], tuple(p["pivot"]))
        return is_sat, base.sols_of(frame)

    def readings(self, p):
        if p["height"] * p["width"] > OLD_PATH_MAX_VERTICES:
            return [self.readings_large(p)]
        return self.readings_small(p)

    def readings_large(self, p):
        h, w = p["height"], p["width"]
        checks, watches = _checks(h, w, p["blocked"])
        return enum_loops(h, w, checks, watches, cap=SOLUTION_CAP)

    def readings_small(self, p):
        h, w, blocked = p["height"], p["width"], p["blocked"]
        free = frozenset((y, x) for y in range(h) for x in range(w) if blocked[y][x] == 0)
        return [[loop for loop, passed in _cands(h, w) if passed == free]]

    def example(self):
        return None  # the module's _main() has no built-in instance


RULE = SimpleLoop()


def selftest():
    """The pruned large-board oracle against the original filter oracle: every blocked grid (all 2^(h*w)) of the boards up
    to 12 cells, all grids with <= 3 blocked cells and every loop complement on 4 x 4, 3 x 5, 5 x 3, 4 x 5."""
    r = RULE
    n = 0
    for h, w in [(1, 1), (1, 3), (2, 2), (2, 3), (3, 2), (3, 3), (3, 4), (4, 3), (2, 5)]:
        for mask in range(1 << (h * w)):
            p = {"height": h, "width": w, "blocked": base.grid([mask >> k & 1 for k in range(h * w)], h, w), "pivot": [0, 0]}
            assert sorted(r.readings_small(p)[0]) == sorted(r.readings_large(p)), p
            n += 1
    for h, w in [(4, 4), (3, 5), (5, 3), (4, 5)]:
        lays, k = base.layouts(h * w, 0, [1], 1400)
        grids = [base.grid(cells, h, w) for cells in lays]
        for loop, passed in _cands(h, w):
            grids.append([[0 if (y, x) in passed else 1 for x in range(w)] for y in range(h)])
        for g in grids:
            p = {"height": h, "width": w, "blocked": g, "pivot": [0, 0]}
            assert sorted(r.readings_small(p)[0]) == sorted(r.readings_large(p)), p
            n += 1
    return n

