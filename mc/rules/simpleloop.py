"""Simple Loop: a single loop through cell centres that visits exactly the non-blocked cells (blocked[y][x] == 1 is a
blocked cell, 0 a free cell); a board without free cells is answered by "no line at all" (library convention).

The pivot.  solve_simpleloop(height, width, blocked, pivot) takes one distinguished cell pivot = (py, px) whose own
entry in `blocked` is NOT read: the generator leaves that cell open while it searches and lets parity decide it - a loop on
a grid has an even number of cells, so the pivot is taken to be free exactly when the number of OTHER free cells is odd
(generate_simpleloop finally writes blocked[py][px] = 1 - n_other_free % 2).  An instance is therefore well-formed for the
plain rule only when blocked[py][px] already agrees with that parity rule, which is the case iff the total number of free
cells is even; only such instances are generated (pivot positions: see instances()), and the oracle ignores the pivot.
The pivot is carried as a list [py, px] in the JSON problem and handed to the solver as a tuple (the solver compares it
with (y, x) tuples).

Key order: the BoolGridFrame(h-1, w-1) edges (horizontal row-major, then vertical row-major); bools.
"""

from . import base

_CACHE = {}


def _cands(h, w):
    if (h, w) not in _CACHE:
        out = []
        for loop in base.loops(h, w):
            info = base.loop_degree_info(h, w, loop)
            out.append((loop, frozenset(c for c, d in info.items() if d)))
        _CACHE[(h, w)] = out
    return _CACHE[(h, w)]


class SimpleLoop(base.Rule):
    name = "simpleloop"

    def shapes(self, tier):
        s = [(1, 1), (1, 2), (2, 1), (1, 3), (3, 1), (2, 2), (2, 3), (3, 2), (3, 3)]
        if tier == "quick":
            return s + [(3, 4), (4, 3)]
        return s + [(1, 4), (4, 1), (2, 4), (4, 2), (3, 4), (4, 3), (4, 4), (2, 5), (5, 2), (3, 5), (5, 3)]

    def instances(self, shape, cap):
        h, w = shape
        # cap rule on the blocked grids (<= k blocked cells); each parity-consistent grid is posed with every pivot
        lays, k = base.layouts(h * w, 0, [1], cap)
        n = h * w
        lays = [cells for cells in lays if (n - sum(cells)) % 2 == 0]
        # pivots: every cell while that keeps the shape within 2 * cap instances; otherwise three per grid - the first free
        # cell, the first blocked cell, and cell number (grid index mod h*w), which rotates through all positions
        all_pivots = len(lays) * n <= 2 * cap
        for i, cells in enumerate(lays):
            if all_pivots:
                pivots = list(range(n))
            else:
                pivots = []
                for c in ([cells.index(0)] if 0 in cells else []) + ([cells.index(1)] if 1 in cells else []) + [i % n]:
                    if c not in pivots:
                        pivots.append(c)
            for c in pivots:
                yield {"height": h, "width": w, "blocked": base.grid(cells, h, w), "pivot": [c // w, c % w]}

    def call(self, p):
        from cspuz.puzzle import simpleloop

        is_sat, frame = simpleloop.solve_simpleloop(p["height"], p["width"], p["blocked"], tuple(p["pivot"]))
        return is_sat, base.sols_of(frame)

    def readings(self, p):
        h, w, blocked = p["height"], p["width"], p["blocked"]
        free = frozenset((y, x) for y in range(h) for x in range(w) if blocked[y][x] == 0)
        return [[loop for loop, passed in _cands(h, w) if passed == free]]

    def example(self):
        return None  # the module's _main() has no built-in instance


RULE = SimpleLoop()
