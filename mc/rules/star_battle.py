"""Star battle: place stars in the n x n board so that every row, every column and every block holds exactly k stars and
no two stars touch, not even diagonally.

Problem dict: {"n": n, "blocks": n x n grid of block ids 0..n-1, "k": k}.  Answer keys: has_star, n x n bools row-major.
Well-formed: the block-id grid is a partition of the board into exactly n orthogonally connected blocks labelled 0..n-1.

Shape descriptor: (n, k, r, m) = "board size n, k stars, the partitions whose index in partitions(n) is = r mod m".
Quick tier takes one residue class of the 62741 partitions of the 4 x 4 board (250 of them); the thorough tier covers
all of them in 6 classes for k = 1, and one class (10457 partitions) for k = 2, where no star set satisfies even the
row / column / no-touch rules on a 4 x 4 board, so the blocks cannot matter.  Boards n <= 3 are always complete (1, 6, 258 partitions).  Odd-indexed partitions are labelled
in reverse (block id n-1-i) so that the labelling carries no meaning.

mc/graphref.connected_partitions walks all Bell(n^2) set partitions, which is out of reach for 16 cells, so this module
grows the blocks directly: the block of the smallest free cell ranges over all connected subsets of the free cells.
"""

from . import base

_PARTS = {}
_PLACEMENTS = {}


def _neighbours(n):
    nb = {c: [] for c in range(n * n)}
    for y in range(n):
        for x in range(n):
            c = y * n + x
            if x + 1 < n:
                nb[c].append(c + 1)
                nb[c + 1].append(c)
            if y + 1 < n:
                nb[c].append(c + n)
                nb[c + n].append(c)
    return nb


def partitions(n):
    """All partitions of the n x n board into exactly n orthogonally connected blocks; a partition is a list of sorted
    cell lists (cell = y*n+x) ordered by smallest cell."""
    if n in _PARTS:
        return _PARTS[n]
    nb = _neighbours(n)

    def connected(cells):
        cells = set(cells)
        start = min(cells)
        seen = {start}
        stack = [start]
        while stack:
            c = stack.pop()
            for d in nb[c]:
                if d in cells and d not in seen:
                    seen.add(d)
                    stack.append(d)
        return len(seen) == len(cells)

    def connected_subsets(seed, free):
        """Every connected subset of `free` containing `seed`, each exactly once (frontier extension with exclusion)."""
        found = []

        def rec(cur, frontier, banned):
            found.append(cur)
            banned = set(banned)
            for i, c in enumerate(frontier):
                nxt = list(frontier[i + 1 :])
                for d in nb[c]:
                    if d in free and d not in cur and d not in banned and d not in frontier and d not in nxt:
                        nxt.append(d)
                rec(cur | {c}, nxt, banned)
                banned.add(c)

        rec(frozenset([seed]), [d for d in nb[seed] if d in free], set())
        return found

    out = []

    def go(free, left, acc):
        if left == 1:
            if connected(free):
                out.append(acc + [sorted(free)])
            return
        seed = min(free)
        for s in connected_subsets(seed, free):
            rest = free - s
            if len(rest) >= left - 1:
                go(rest, left - 1, acc + [sorted(s)])

    go(frozenset(range(n * n)), n, [])
    _PARTS[n] = out
    return out


def placements(n, k):
    """All star sets with k stars in every row and column and no two stars touching (diagonals included),
    as row-major bool tuples.  Row-by-row search: a row is a set of k pairwise non-adjacent columns that touches no star
    of the previous row; column counts are tracked."""
    if (n, k) in _PLACEMENTS:
        return _PLACEMENTS[(n, k)]
    import itertools

    rows = [c for c in itertools.combinations(range(n), k) if all(b - a > 1 for a, b in zip(c, c[1:]))]
    out = []

    def rec(y, prev, colcount, acc):
        if y == n:
            if all(c == k for c in colcount):
                stars = [False] * (n * n)
                for yy, cols in enumerate(acc):
                    for x in cols:
                        stars[yy * n + x] = True
                out.append(tuple(stars))
            return
        for cols in rows:
            if any(abs(x - px) <= 1 for x in cols for px in prev):
                continue
            if any(colcount[x] >= k for x in cols):
                continue
            if any(colcount[x] + (1 if x in cols else 0) + (n - 1 - y) < k for x in range(n)):
                continue
            for x in cols:
                colcount[x] += 1
            rec(y + 1, cols, colcount, acc + [cols])
            for x in cols:
                colcount[x] -= 1

    rec(0, (), [0] * n, [])
    _PLACEMENTS[(n, k)] = out
    return out


def structured_blocks(n):
    """A few partitions of the n x n board into n connected blocks for boards too large to enumerate all of them."""
    out = []
    out.append([[y] * n for y in range(n)])  # rows
    out.append([[x for x in range(n)] for _ in range(n)])  # columns
    order = []
    for y in range(n):
        row = [(y, x) for x in range(n)]
        if y % 2:
            row.reverse()
        order += row
    snake = [[None] * n for _ in range(n)]
    for i, (y, x) in enumerate(order):
        snake[y][x] = min(n - 1, i // n)
    out.append(snake)
    # shifted snake: chunks of the boustrophedon order starting half a row later (blocks span two rows)
    sh = [[None] * n for _ in range(n)]
    off = n // 2
    for i, (y, x) in enumerate(order):
        sh[y][x] = ((i + off) // n) % n if (i + off) // n < n else n - 1
    # the first half-row chunk and the last one would both be block 0 / n-1 pieces; keep only if every block is connected
    ok = True
    for b in range(n):
        cells = [(y, x) for y in range(n) for x in range(n) if sh[y][x] == b]
        if not cells or not base.cells_connected(cells):
            ok = False
    if ok:
        out.append(sh)
    return out


def forced_blocks(n, level):
    """Layouts that *force* two stars onto touching cells (k = 2): rows as blocks, except that one block is a domino
    (horizontal: the rest of its row joins the neighbouring row; vertical: columns as blocks instead) or an L-tromino
    whose three cells pairwise touch (the rests of its two rows form one block).  No placement obeys the rules, so a
    solver that misses the no-touch rule at that very spot (and only there) reports a solution."""
    out = []

    def finish(ids):
        cells = {}
        for y in range(n):
            for x in range(n):
                cells.setdefault(ids[y][x], []).append((y, x))
        if len(cells) != n or any(not base.cells_connected(c) for c in cells.values()):
            return
        names = {b: i for i, b in enumerate(sorted(cells, key=lambda b: min(cells[b])))}
        blk = [[names[ids[y][x]] for x in range(n)] for y in range(n)]
        if blk not in out:
            out.append(blk)

    spots = [(y, x) for y in range(n) for x in range(n)]
    if level == 0:
        keep = set([0, 1, n // 2, n - 2, n - 1])
        spots = [(y, x) for (y, x) in spots if y in keep and x in keep]
    for (y, x) in spots:
        if x + 1 < n:  # horizontal domino in row y
            for nb in (y - 1, y + 1):
                if 0 <= nb < n:
                    ids = [[("r", yy if yy != y else nb)] * n for yy in range(n)]
                    ids = [list(r) for r in ids]
                    ids[y][x] = ids[y][x + 1] = ("d",)
                    finish(ids)
        if y + 1 < n:  # vertical domino in column x
            for nb in (x - 1, x + 1):
                if 0 <= nb < n:
                    ids = [[("c", xx if xx != x else nb) for xx in range(n)] for _ in range(n)]
                    ids[y][x] = ids[y + 1][x] = ("d",)
                    finish(ids)
        if y + 1 < n and x + 1 < n:  # L-trominoes inside the 2x2 square at (y, x): any two of their cells touch
            for missing in ((0, 0), (0, 1), (1, 0), (1, 1)):
                ids = [[("r", yy if yy not in (y, y + 1) else y)] * n for yy in range(n)]
                ids = [list(r) for r in ids]
                for dy in (0, 1):
                    for dx in (0, 1):
                        if (dy, dx) != missing:
                            ids[y + dy][x + dx] = ("t",)
                finish(ids)
    return out


class StarBattle(base.Rule):
    name = "star_battle"

    def shapes(self, tier):
        s = [(n, k, 0, 1) for n in (1, 2, 3) for k in (1, 2)]
        # larger boards with a few structured block layouts (the first k=2 boards with any placement are 7x7 / 8x8)
        big = [(5, 1, "structured", 0), (6, 1, "structured", 0), (7, 2, "structured", 0), (8, 2, "structured", 0)]
        if tier == "quick":
            return s + [(4, 1, 0, 251), (4, 2, 0, 251)] + big + [(9, 2, "forced", 0), (8, 2, "forced", 0)]
        big = big + [(8, 2, "forced", 1), (9, 2, "forced", 1)]
        return s + [(4, 1, r, 6) for r in range(6)] + [(4, 2, 0, 6)] + big + [(9, 2, "structured", 0), (10, 2, "structured", 0), (7, 1, "structured", 0)]

    def instances(self, shape, cap):
        n, k, r, m = shape
        if r == "structured":
            for blocks in structured_blocks(n):
                yield {"n": n, "blocks": blocks, "k": k}
            return
        if r == "forced":
            for blocks in forced_blocks(n, m):
                yield {"n": n, "blocks": blocks, "k": k}
            return
        count = 0
        for i, part in enumerate(partitions(n)):
            if i % m != r:
                continue
            if m > 1 and count >= cap:  # sampled boards obey the cap; complete boards (m == 1, <= 258 partitions) do not
                break
            count += 1
            blocks = [[None] * n for _ in range(n)]
            for b, cells in enumerate(part):
                for c in cells:
                    blocks[c // n][c % n] = b if i % 2 == 0 else n - 1 - b
            yield {"n": n, "blocks": blocks, "k": k}

    def call(self, p):
        from cspuz.puzzle import star_battle

        is_sat, has_star = star_battle.solve_star_battle(p["n"], p["blocks"], p["k"])
        return is_sat, base.sols_of(has_star)

    def readings(self, p):
        n, k = p["n"], p["k"]
        members = {}
        for y in range(n):
            for x in range(n):
                members.setdefault(p["blocks"][y][x], []).append(y * n + x)
        out = []
        for stars in placements(n, k):
            if all(sum(stars[c] for c in cells) == k for cells in members.values()):
                out.append(stars)
        return [out]

    def example(self):
        blocks = [
            [0, 0, 0, 0, 1, 1], [0, 2, 3, 0, 1, 1], [2, 2, 3, 3, 3, 1],
            [2, 1, 1, 1, 1, 1], [2, 4, 4, 1, 4, 5], [2, 2, 4, 4, 4, 5],
        ]
        return {"n": 6, "blocks": blocks, "k": 1}, "cspuz/puzzle/star_battle.py _main() (pzv.jp starbattle/6/6/1/2u9gn9c9jpmk)"


RULE = StarBattle()
