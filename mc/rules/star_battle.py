"""Star battle: place stars in the n x n board so that every row, every column and every block holds exactly k stars and
no two stars touch, not even diagonally.

Problem dict: {"n": n, "blocks": n x n grid of block ids 0..n-1, "k": k}.  Answer keys: has_star, n x n bools row-major.
Well-formed: the block-id grid is a partition of the board into exactly n orthogonally connected blocks labelled 0..n-1.

Shape descriptor: (n, k, r, m) = "board size n, k stars, the partitions whose index in partitions(n) is = r mod m".
Quick tier takes one residue class of the 62741 partitions of the 4 x 4 board (250 of them); the thorough tier covers
all of them in 6 classes for k = 1, and one class (10457 partitions) for k = 2, where no star set satisfies even the
row / column / no-touch rules on a 4 x 4 board, so the blocks cannot matter.  Boards n <= 3 are always complete (1, 6, 258 partitions).  Odd-indexed partitions are labelled
in reverse (block id n-1-i) so that the labelling carries no meaning.

mc/graphref.connected_partitions walks all Bell(n^2) set partitions, which is out of reach for 16 cells, so this module
grows the blocks directly: the block of the smallest free cell ranges over all connected subsets of the free cells.
"""

from . import base

_PARTS = {}
_PLACEMENTS = {}


def _neighbours(n):
    nb = {c: [] for c in range(n * n)}
    for y in range(n):
        for x in range(n):
            c = y * n + x
            if x + 1 < n:
                nb[c].append(c + 1)
                nb[c + 1].append(c)
            if y + 1 < n:
                nb[c].append(c + n)
                nb[c + n].append(c)
    return nb


def partitions(n):
    """All partitions of the n x n board into exactly n orthogonally connected blocks; a partition is a list of sorted
    cell lists (cell = y*n+x) ordered by smallest cell."""
    if n in _PARTS:
        return _PARTS[n]
    nb = _neighbours(n)

    def connected(cells):
        cells = set(cells)
        start = min(cells)
        seen = {start}
        stack = [start]
        while stack:
            c = stack.pop()
            for d in nb[c]:
                if d in cells and d not in seen:
                    seen.add(d)
                    stack.append(d)
        return len(seen) == len(cells)

    def connected_subsets(seed, free):
        """Every connected subset of `free` containing `seed`, each exactly once (frontier extension with exclusion)."""
        found = []

        def rec(cur, frontier, banned):
            found.append(cur)
            banned = set(banned)
            for i, c in enumerate(frontier):
                nxt = list(frontier[i + 1 :])
                for d in nb[c]:
                    if d in free and d not in cur and d not in banned and d not in frontier and d not in nxt:
                        nxt.append(d)
                rec(cur | {c}, nxt, banned)
                banned.add(c)

        rec(frozenset([seed]), [d for d in nb[seed] if d in free], set())
        return found

    out = []

    def go(free, left, acc):
        if left == 1:
            if connected(free):
                out.append(acc + [sorted(free)])
            return
        seed = min(free)
        for s in connected_subsets(seed, free):
            rest = free - s
            if len(rest) >= left - 1:
                go(rest, left - 1, acc + [sorted(s)])

    go(frozenset(range(n * n)), n, [])
    _PARTS[n] = out
    return out


def placements(n, k):
    """All star sets with k stars in every row and column and no two stars touching (diagonals included),
    as row-major bool tuples."""
    if (n, k) in _PLACEMENTS:
        return _PLACEMENTS[(n, k)]
    out = []
    for stars in base.colorings(n * n):
        ok = True
        for y in range(n):
            if sum(stars[y * n + x] for x in range(n)) != k:
                ok = False
                break
        if not ok:
            continue
        for x in range(n):
            if sum(stars[y * n + x] for y in range(n)) != k:
                ok = False
                break
        if not ok:
            continue
        cells = [(c // n, c % n) for c in range(n * n) if stars[c]]
        for i in range(len(cells)):
            for j in range(i + 1, len(cells)):
                if abs(cells[i][0] - cells[j][0]) <= 1 and abs(cells[i][1] - cells[j][1]) <= 1:
                    ok = False
        if ok:
            out.append(stars)
    _PLACEMENTS[(n, k)] = out
    return out


class StarBattle(base.Rule):
    name = "star_battle"

    def shapes(self, tier):
        s = [(n, k, 0, 1) for n in (1, 2, 3) for k in (1, 2)]
        if tier == "quick":
            return s + [(4, 1, 0, 251), (4, 2, 0, 251)]
        return s + [(4, 1, r, 6) for r in range(6)] + [(4, 2, 0, 6)]

    def instances(self, shape, cap):
        n, k, r, m = shape
        count = 0
        for i, part in enumerate(partitions(n)):
            if i % m != r:
                continue
            if m > 1 and count >= cap:  # sampled boards obey the cap; complete boards (m == 1, <= 258 partitions) do not
                break
            count += 1
            blocks = [[None] * n for _ in range(n)]
            for b, cells in enumerate(part):
                for c in cells:
                    blocks[c // n][c % n] = b if i % 2 == 0 else n - 1 - b
            yield {"n": n, "blocks": blocks, "k": k}

    def call(self, p):
        from cspuz.puzzle import star_battle

        is_sat, has_star = star_battle.solve_star_battle(p["n"], p["blocks"], p["k"])
        return is_sat, base.sols_of(has_star)

    def readings(self, p):
        n, k = p["n"], p["k"]
        members = {}
        for y in range(n):
            for x in range(n):
                members.setdefault(p["blocks"][y][x], []).append(y * n + x)
        out = []
        for stars in placements(n, k):
            if all(sum(stars[c] for c in cells) == k for cells in members.values()):
                out.append(stars)
        return [out]

    def example(self):
        blocks = [
            [0, 0, 0, 0, 1, 1], [0, 2, 3, 0, 1, 1], [2, 2, 3, 3, 3, 1],
            [2, 1, 1, 1, 1, 1], [2, 4, 4, 1, 4, 5], [2, 2, 4, 4, 4, 5],
        ]
        return {"n": 6, "blocks": blocks, "k": 1}, "cspuz/puzzle/star_battle.py _main() (pzv.jp starbattle/6/6/1/2u9gn9c9jpmk)"


RULE = StarBattle()
