"""View (semiexp, https://twitter.com/semiexp/status/1210955179270393856): write numbers into some cells of the board so that
  - all numbered cells form one orthogonally connected group (no numbered cell at all: nothing to connect),
  - every number = how many EMPTY cells are seen from its cell looking up, left, down and right, the view in each
    direction ending at the next numbered cell or at the edge of the board,
  - two orthogonally adjacent numbered cells never hold the same number,
  - the given numbers are kept.

Instance: {"height", "width", "problem"[y][x]}: -1 nothing given, >= 0 given number.
Answer keys (fixed order): nums[y][x] row-major (the number of a numbered cell; 0 for an empty cell - the module's
reporting convention for cells without a number), then has_number[y][x] row-major (bool).

Large family (shape ("large", h, w)): boards of 16 .. 36 cells and lines of 12+ cells (numbers of two digits).  grids()
walks all 2^(h*w) sets of numbered cells; fills() places the rows one after the other and drops a partial board as soon
as (a) a group of numbered cells is closed off from the rows still to come while another group exists, (b) a given number
can no longer be met (the view of a cell only grows while the rows below it stay empty), (c) two neighbours whose views
are closed hold the same number.  selftest() compares fills() with grids() + filter.
"""

from . import base

_GRIDS = {}


def grids(h, w):
    """All clue-independent legal fillings of the h x w board as (nums tuple, has tuple)."""
    if (h, w) in _GRIDS:
        return _GRIDS[(h, w)]
    out = []
    n = h * w
    for has in base.colorings(n):
        numbered = [(i // w, i % w) for i in range(n) if has[i]]
        if not base.cells_connected(numbered):
            continue
        nums = [0] * n
        for (y, x) in numbered:
            seen = 0
            for dy, dx in ((0, 1), (1, 0), (0, -1), (-1, 0)):
                yy, xx = y + dy, x + dx
                while 0 <= yy < h and 0 <= xx < w and not has[yy * w + xx]:
                    seen += 1
                    yy += dy
                    xx += dx
            nums[y * w + x] = seen
        ok = True
        for (y, x) in numbered:
            if x + 1 < w and has[y * w + x + 1] and nums[y * w + x] == nums[y * w + x + 1]:
                ok = False
                break
            if y + 1 < h and has[(y + 1) * w + x] and nums[y * w + x] == nums[(y + 1) * w + x]:
                ok = False
                break
        if ok:
            out.append((tuple(nums), tuple(has)))
    _GRIDS[(h, w)] = out
    return out


# ---- large boards: row-by-row search --------------------------------------------------------------
_FILLS = {}


def fills(h, w, prob, first=None):
    """All legal fillings that keep the given numbers, as (nums tuple, has tuple), sorted.
    first=k: only the first k fillings met by the search with the fullest rows tried first (a source of well-filled
    boards for the dense instances; never used to judge an instance)."""
    key = (h, w, tuple(tuple(r) for r in prob), first)
    if key in _FILLS:
        return _FILLS[key]
    if w > h:
        # the rules are the same read by columns: search the transposed board (its rows are the short lines)
        tp = [[prob[y][x] for y in range(h)] for x in range(w)]
        out = []
        for nums, has in fills(w, h, tp, first):
            out.append((tuple(nums[x * h + y] for y in range(h) for x in range(w)), tuple(has[x * h + y] for y in range(h) for x in range(w))))
        if first is None:
            out.sort()
        _FILLS[key] = out
        return out
    given = [y for y in range(h) for x in range(w) if prob[y][x] >= 0]
    if given and 2 * sum(given) > (h - 1) * len(given):
        # ... and the same read from the bottom: the search wants the given numbers in the rows it places first
        out = []
        for nums, has in fills(h, w, prob[::-1], first):
            out.append((tuple(nums[(h - 1 - y) * w + x] for y in range(h) for x in range(w)), tuple(has[(h - 1 - y) * w + x] for y in range(h) for x in range(w))))
        if first is None:
            out.sort()
        _FILLS[key] = out
        return out
    rowpats = []
    for y in range(h):
        need = [x for x in range(w) if prob[y][x] >= 0]
        pats = []
        for m in range(1 << w):
            pat = tuple(bool(m >> x & 1) for x in range(w))
            if all(pat[x] for x in need):
                pats.append(pat)
        if first is not None:
            pats.sort(key=lambda pat: (-sum(pat), pat))
        rowpats.append(pats)
    out = []
    rows = []

    def check(y):
        """rows 0..y are placed; returns False if no completion can be legal, else the numbers seen so far."""
        last = y == h - 1
        # (a) groups of numbered cells
        comp = {}
        ncomp = 0
        touching = set()
        for yy in range(y + 1):
            for xx in range(w):
                if rows[yy][xx] and (yy, xx) not in comp:
                    comp[(yy, xx)] = ncomp
                    stack = [(yy, xx)]
                    while stack:
                        cy, cx = stack.pop()
                        if cy == y:
                            touching.add(ncomp)
                        for dy, dx in ((0, 1), (1, 0), (0, -1), (-1, 0)):
                            ny, nx = cy + dy, cx + dx
                            if 0 <= ny <= y and 0 <= nx < w and rows[ny][nx] and (ny, nx) not in comp:
                                comp[(ny, nx)] = ncomp
                                stack.append((ny, nx))
                    ncomp += 1
        if ncomp > 1 and (last or len(touching) < ncomp):
            return False
        # (b), (c) numbers
        low = {}
        closed = {}
        for (cy, cx) in comp:
            seen = 0
            for dy, dx in ((0, 1), (0, -1), (-1, 0)):
                ny, nx = cy + dy, cx + dx
                while 0 <= ny and 0 <= nx < w and not rows[ny][nx]:
                    seen += 1
                    ny += dy
                    nx += dx
            ny = cy + 1
            while ny <= y and not rows[ny][cx]:
                seen += 1
                ny += 1
            cl = ny <= y or last
            low[(cy, cx)] = seen
            closed[(cy, cx)] = cl
            want = prob[cy][cx]
            if want >= 0 and (seen > want or (seen if cl else seen + h - 1 - y) < want):
                return False
        for (cy, cx) in comp:
            if closed[(cy, cx)]:
                for nb in ((cy, cx + 1), (cy + 1, cx)):
                    if nb in comp and closed[nb] and low[nb] == low[(cy, cx)]:
                        return False
        return low

    def rec(y):
        for pat in rowpats[y]:
            if first is not None and len(out) >= first:
                return
            rows.append(pat)
            low = check(y)
            if low is not False:
                if y == h - 1:
                    has = tuple(b for r in rows for b in r)
                    nums = tuple(low.get((i // w, i % w), 0) for i in range(h * w))
                    out.append((nums, has))
                else:
                    rec(y + 1)
            rows.pop()

    rec(0)
    if first is None:
        out.sort()
    _FILLS[key] = out
    return out


def legal(h, w, nums, has):
    """Direct transcription of the rules for one filling (used by selftest on the boards too large to list)."""
    numbered = [(i // w, i % w) for i in range(h * w) if has[i]]
    if not base.cells_connected(numbered):
        return False
    for i in range(h * w):
        y, x = i // w, i % w
        if not has[i]:
            if nums[i] != 0:
                return False
            continue
        seen = 0
        for dy, dx in ((0, 1), (1, 0), (0, -1), (-1, 0)):
            yy, xx = y + dy, x + dx
            while 0 <= yy < h and 0 <= xx < w and not has[yy * w + xx]:
                seen += 1
                yy += dy
                xx += dx
        if seen != nums[i]:
            return False
        if x + 1 < w and has[i + 1] and nums[i + 1] == nums[i]:
            return False
        if y + 1 < h and has[i + w] and nums[i + w] == nums[i]:
            return False
    return True


LARGE_QUICK = [(4, 5), (5, 4), (2, 10), (10, 2), (1, 12), (12, 1), (5, 5)]
LARGE_THOROUGH = [(4, 4), (3, 6), (6, 3), (3, 7), (7, 3), (2, 12), (12, 2), (1, 15), (15, 1), (4, 6), (6, 4), (6, 6), (7, 7)]


def _picks(n, count):
    if n <= count:
        return list(range(n))
    return sorted(set(round(i * (n - 1) / (count - 1)) for i in range(count)))


def _dense_variants(h, w, nums, has, rich):
    cells = [i for i in range(h * w) if has[i]]
    m = len(cells)

    def build(blank=None, change=None):
        g = [-1] * (h * w)
        for j, i in enumerate(cells):
            if not (blank and j % blank[0] == blank[1]):
                g[i] = nums[i]
        if change:
            i = cells[change[0] % m]
            g[i] = nums[i] + (change[1] if nums[i] + change[1] >= 0 else 1)
        return base.grid(g, h, w)

    if m == 0:
        return []
    out = [build()]
    for b in ([(2, 0), (2, 1), (3, 0), (3, 2), (4, 1)] if rich else [(2, 1)]):
        out.append(build(blank=b))
    spots = [(0, 1), (m - 1, -1), (m // 2, 1)]
    if rich:
        spots += [(0, -1), (m - 1, 1), (m // 2, -1), (m // 4, 1), (3 * m // 4, -1), (1, 1), (m - 2, -1)]
    for c in spots:
        out.append(build(change=c))
    for c in ([(1, 1), (m - 2, -1), (m // 2 | 1, -1)] if rich else [(m // 2 | 1, -1)]):
        out.append(build(blank=(2, 0), change=c))
    return out


def large_instances(h, w, rich):
    seen = set()
    for g in _large_grids(h, w, rich):
        key = repr(g)
        if key not in seen:
            seen.add(key)
            yield {"height": h, "width": w, "problem": g}


def _large_grids(h, w, rich):
    def single(y, x, v):
        g = [[-1] * w for _ in range(h)]
        if v is not None:
            g[y][x] = v
        return g

    if h * w <= 21 or min(h, w) <= 2:
        yield single(0, 0, None)  # clue-free (the larger boards have too many fillings to list)
    # one number in the far corner / on the last row / last column: the largest view (h-1)+(w-1), one more, and the ends
    # of the module's number range h+w
    top = h + w - 2
    vals = [top, top + 1] + ([top - 1, h + w, h + w + 1, 10, 11] if rich else [h + w + 1])
    if h * w > 36:
        vals = []  # 7x7 with a single large number: the module does not answer within minutes; dense instances only
    for v in vals:
        yield single(h - 1, w - 1, v)
    listable = h * w <= 21 or min(h, w) <= 2
    if vals:
        yield single(0, 0, top)
    if rich and vals:
        yield single(h - 1, 0, top)
        yield single(0, w - 1, top)
        if listable:
            yield single(h - 1, w // 2, top - 1)
            yield single(h // 2, w - 1, top - 1)
    empty = [[-1] * w for _ in range(h)]
    if listable:
        sols = fills(h, w, empty)
        sols = [s for s in sols if sum(s[1]) >= 3] or sols
        idx = _picks(len(sols), 8 if rich else 4)[1:-1]
        if not rich:
            idx = idx[:1] if h * w > 12 else idx
    else:
        sols = fills(h, w, empty, first=120)
        idx = _picks(len(sols), 4 if rich else 2)
        if not rich:
            idx = idx[:1]
    for i in idx:
        for g in _dense_variants(h, w, sols[i][0], sols[i][1], rich):
            yield g


def selftest():
    """fills() == grids() + filter of the given numbers: clue-free and with one or two clues, boards up to 4x4, both
    orientations (the wide boards go through the transposition); every filling of larger boards obeys legal()."""
    rule = View()
    cases = 0
    for h, w in [(1, 1), (1, 2), (2, 1), (1, 3), (3, 1), (2, 2), (2, 3), (3, 2), (3, 3), (1, 4), (4, 1), (2, 4), (4, 2), (1, 5), (5, 1), (3, 4), (4, 3), (4, 4)]:
        for k, p in enumerate(rule.instances((h, w), 12000)):
            if h * w >= 12 and k % 5:
                continue
            a = sorted(rule._readings_small(p))
            b = sorted(n + s for n, s in fills(h, w, p["problem"]))
            assert a == b, (p, len(a), len(b))
            cases += 1
    for h, w in [(4, 5), (5, 4), (2, 10), (3, 6)]:
        for nums, has in fills(h, w, [[-1] * w for _ in range(h)]):
            assert legal(h, w, nums, has)
    for nums, has in fills(6, 6, [[-1] * 6 for _ in range(6)], first=50):
        assert legal(6, 6, nums, has)
    return cases


class View(base.Rule):
    name = "view"

    def shapes(self, tier):
        s = [(1, 1), (1, 2), (2, 1), (1, 3), (3, 1), (2, 2), (2, 3), (3, 2), (3, 3), (1, 4), (4, 1), (2, 4), (4, 2)]
        if tier != "quick":
            s += [(1, 5), (5, 1), (3, 4), (4, 3), (4, 4)]
        s += [("large", h, w) for h, w in LARGE_QUICK]
        if tier != "quick":
            s += [("large", h, w) for h, w in LARGE_THOROUGH]
        return s

    def instances(self, shape, cap):
        if shape[0] == "large":
            for p in large_instances(shape[1], shape[2], cap > 1000):
                yield p
            return
        h, w = shape
        alphabet = [0, 1, 2, 3] if cap <= 1000 else [0, 1, 2, 3, 4, 5]
        lays, k = base.layouts(h * w, -1, alphabet, cap if h * w < 16 else cap // 4)  # 4x4: ~0.3 s per solve, single clues only
        for cells in lays:
            yield {"height": h, "width": w, "problem": base.grid(cells, h, w)}

    def call(self, p):
        from cspuz.puzzle import view

        is_sat, nums, has_number = view.solve_view(p["height"], p["width"], p["problem"])
        return is_sat, base.sols_of(nums) + base.sols_of(has_number)

    def readings(self, p):
        h, w, prob = p["height"], p["width"], p["problem"]
        if h * w > 16 or max(h, w) > 5:
            return [[n + s for n, s in fills(h, w, prob)]]
        return [self._readings_small(p)]

    def _readings_small(self, p):
        h, w, prob = p["height"], p["width"], p["problem"]
        given = [(y * w + x, prob[y][x]) for y in range(h) for x in range(w) if prob[y][x] >= 0]
        out = []
        for nums, has in grids(h, w):
            if all(has[i] and nums[i] == v for i, v in given):
                out.append(nums + has)
        return out

    def example(self):
        prob = [
            [-1, 4, -1, -1, 2, -1, -1, -1], [-1, -1, 2, -1, -1, -1, -1, -1], [-1, -1, -1, -1, -1, -1, -1, 2], [-1, -1, -1, -1, 2, -1, -1, -1],
            [-1, -1, -1, -1, -1, 2, -1, -1], [-1, -1, 1, -1, -1, 0, -1, -1], [-1, 2, -1, -1, -1, -1, -1, -1], [-1, -1, -1, 9, -1, -1, -1, 2],
        ]
        return {"height": 8, "width": 8, "problem": prob}, "cspuz/puzzle/view.py _main(): twitter.com/semiexp/status/1210955179270393856 (too large to enumerate)"


RULE = View()
