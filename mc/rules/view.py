"""View (semiexp, https://twitter.com/semiexp/status/1210955179270393856): write numbers into some cells of the board so that
  - all numbered cells form one orthogonally connected group (no numbered cell at all: nothing to connect),
  - every number = how many EMPTY cells are seen from its cell looking up, left, down and right, the view in each
    direction ending at the next numbered cell or at the edge of the board,
  - two orthogonally adjacent numbered cells never hold the same number,
  - the given numbers are kept.

Instance: {"height", "width", "problem"[y][x]}: -1 nothing given, >= 0 given number.
Answer keys (fixed order): nums[y][x] row-major (the number of a numbered cell; 0 for an empty cell - the module's
reporting convention for cells without a number), then has_number[y][x] row-major (bool).
"""

from . import base

_GRIDS = {}


def grids(h, w):
    """All clue-independent legal fillings of the h x w board as (nums tuple, has tuple)."""
    if (h, w) in _GRIDS:
        return _GRIDS[(h, w)]
    out = []
    n = h * w
    for has in base.colorings(n):
        numbered = [(i // w, i % w) for i in range(n) if has[i]]
        if not base.cells_connected(numbered):
            continue
        nums = [0] * n
        for (y, x) in numbered:
            seen = 0
            for dy, dx in ((0, 1), (1, 0), (0, -1), (-1, 0)):
                yy, xx = y + dy, x + dx
                while 0 <= yy < h and 0 <= xx < w and not has[yy * w + xx]:
                    seen += 1
                    yy += dy
                    xx += dx
            nums[y * w + x] = seen
        ok = True
        for (y, x) in numbered:
            if x + 1 < w and has[y * w + x + 1] and nums[y * w + x] == nums[y * w + x + 1]:
                ok = False
                break
            if y + 1 < h and has[(y + 1) * w + x] and nums[y * w + x] == nums[(y + 1) * w + x]:
                ok = False
                break
        if ok:
            out.append((tuple(nums), tuple(has)))
    _GRIDS[(h, w)] = out
    return out


class View(base.Rule):
    name = "view"

    def shapes(self, tier):
        s = [(1, 1), (1, 2), (2, 1), (1, 3), (3, 1), (2, 2), (2, 3), (3, 2), (3, 3), (1, 4), (4, 1), (2, 4), (4, 2)]
        if tier != "quick":
            s += [(1, 5), (5, 1), (3, 4), (4, 3), (4, 4)]
        return s

    def instances(self, shape, cap):
        h, w = shape
        alphabet = [0, 1, 2, 3] if cap <= 1000 else [0, 1, 2, 3, 4, 5]
        lays, k = base.layouts(h * w, -1, alphabet, cap if h * w < 16 else cap // 4)  # 4x4: ~0.3 s per solve, single clues only
        for cells in lays:
            yield {"height": h, "width": w, "problem": base.grid(cells, h, w)}

    def call(self, p):
        from cspuz.puzzle import view

        is_sat, nums, has_number = view.solve_view(p["height"], p["width"], p["problem"])
        return is_sat, base.sols_of(nums) + base.sols_of(has_number)

    def readings(self, p):
        h, w, prob = p["height"], p["width"], p["problem"]
        given = [(y * w + x, prob[y][x]) for y in range(h) for x in range(w) if prob[y][x] >= 0]
        out = []
        for nums, has in grids(h, w):
            if all(has[i] and nums[i] == v for i, v in given):
                out.append(nums + has)
        return [out]

    def example(self):
        prob = [
            [-1, 4, -1, -1, 2, -1, -1, -1], [-1, -1, 2, -1, -1, -1, -1, -1], [-1, -1, -1, -1, -1, -1, -1, 2], [-1, -1, -1, -1, 2, -1, -1, -1],
            [-1, -1, -1, -1, -1, 2, -1, -1], [-1, -1, 1, -1, -1, 0, -1, -1], [-1, 2, -1, -1, -1, -1, -1, -1], [-1, -1, -1, 9, -1, -1, -1, 2],
        ]
        return {"height": 8, "width": 8, "problem": prob}, "cspuz/puzzle/view.py _main(): twitter.com/semiexp/status/1210955179270393856 (too large to enumerate)"


RULE = View()
