"""R-pzpr: independent decoders of the pzpr / puzz.link body encodings
(DESIGN.md appendix C), written from the format description and not from
cspuz's combinators.  Each decoder returns the problem in the cspuz module's
problem format, or raises RefError on text outside the format.
"""

import re

B36 = "0123456789abcdefghijklmnopqrstuvwxyz"
HEX = "0123456789abcdef"
URL_RE = re.compile(r"^(https?)://([^/]+)/p(\.html)?\?([^/]+)/(\d+)/(\d+)/(.*)$")


class RefError(Exception):
    pass


def split_url(url):
    m = URL_RE.match(url)
    if not m:
        raise RefError("not a puzz.link style URL: %r" % url)
    return {"scheme": m.group(1), "host": m.group(2), "name": m.group(4), "width": int(m.group(5)), "height": int(m.group(6)), "body": m.group(7)}


def number16(body, pos, ncells, blank, question):
    """Decode `ncells` cells of the number16 encoding starting at body[pos].  Returns (values, new pos)."""
    out = []
    while len(out) < ncells:
        if pos >= len(body):
            raise RefError("number16: body too short")
        c = body[pos]
        if c in HEX:
            out.append(int(c, 16))
            pos += 1
        elif c == "-":
            if pos + 3 > len(body) or any(x not in HEX for x in body[pos + 1 : pos + 3]):
                raise RefError("number16: bad two-digit number")
            out.append(int(body[pos + 1 : pos + 3], 16))
            pos += 3
        elif c == "+":
            if pos + 4 > len(body) or any(x not in HEX for x in body[pos + 1 : pos + 4]):
                raise RefError("number16: bad three-digit number")
            out.append(int(body[pos + 1 : pos + 4], 16))
            pos += 4
        elif c == ".":
            out.append(question)
            pos += 1
        elif "g" <= c <= "z":
            out += [blank] * (ord(c) - ord("f"))
            pos += 1
        else:
            raise RefError("number16: unexpected character %r" % c)
    if len(out) > ncells:
        # pzpr tolerates a blank run that overshoots the board; only blanks may be cut off
        if any(v != blank for v in out[ncells:]):
            raise RefError("number16: value beyond the board")
        out = out[:ncells]
    return out, pos


def to_grid(vals, h, w):
    return [vals[y * w : (y + 1) * w] for y in range(h)]


def nurikabe(body, h, w):
    vals, pos = number16(body, 0, h * w, 0, -1)
    if pos != len(body):
        raise RefError("trailing characters")
    return to_grid(vals, h, w)


def sudoku(body, h, w):
    vals, pos = number16(body, 0, h * w, 0, None)
    if pos != len(body) or None in vals:
        raise RefError("trailing characters or '?'")
    return to_grid(vals, h, w)


def nurimisaki(body, h, w):
    vals, pos = number16(body, 0, h * w, -1, 0)
    if pos != len(body):
        raise RefError("trailing characters")
    return to_grid(vals, h, w)


def fourcell(body, h, w):
    """slitherlink: -1 = no clue."""
    out = []
    pos = 0
    n = h * w
    while len(out) < n:
        if pos >= len(body):
            raise RefError("4cell: body too short")
        v = B36.find(body[pos])
        c = body[pos]
        pos += 1
        if c == ".":
            raise RefError("4cell: '?' clue has no cspuz representation")
        if v < 0:
            raise RefError("4cell: unexpected character %r" % c)
        if v <= 4:
            out.append(v)
        elif v <= 9:
            out += [v - 5, -1]
        elif v <= 14:
            out += [v - 10, -1, -1]
        elif v == 15:
            raise RefError("4cell: 'f' is not used")
        else:
            out += [-1] * (v - 15)
    if any(x != -1 for x in out[n:]):
        raise RefError("4cell: clue beyond the board")
    if pos != len(body):
        raise RefError("trailing characters")
    return to_grid(out[:n], h, w)


def masyu(body, h, w):
    n = h * w
    out = []
    for c in body:
        v = B36.find(c)
        if v < 0 or v >= 27:
            raise RefError("masyu: unexpected character %r" % c)
        out += [v // 9, (v // 3) % 3, v % 3]
    need = (n + 2) // 3
    if len(body) != need:
        raise RefError("masyu: body length %d, expected %d" % (len(body), need))
    if any(x != 0 for x in out[n:]):
        raise RefError("masyu: circle beyond the board")
    return to_grid(out[:n], h, w)


def yajilin(body, h, w):
    """arrownumber16.  Cells: '..', '??', '^n' 'vn' '<n' '>n'."""
    n = h * w
    out = []
    pos = 0
    dirs = {1: "^", 2: "v", 3: "<", 4: ">"}
    while len(out) < n:
        if pos >= len(body):
            raise RefError("arrownumber16: body too short")
        c = body[pos]
        if "0" <= c <= "4":
            if pos + 2 > len(body):
                raise RefError("arrownumber16: truncated clue")
            d = int(c)
            x = body[pos + 1]
            pos += 2
            if x == ".":
                num = None
            elif x in HEX:
                num = int(x, 16)
            else:
                raise RefError("arrownumber16: bad number %r" % x)
        elif "5" <= c <= "9":
            if pos + 3 > len(body) or any(x not in HEX for x in body[pos + 1 : pos + 3]):
                raise RefError("arrownumber16: bad two-digit clue")
            d = int(c) - 5
            num = int(body[pos + 1 : pos + 3], 16)
            pos += 3
        elif "a" <= c <= "z":
            out += [".."] * (ord(c) - ord("a") + 1)
            pos += 1
            continue
        else:
            raise RefError("arrownumber16: unexpected character %r" % c)
        if d == 0 or num is None:
            out.append("??")
        else:
            out.append("%s%d" % (dirs[d], num))
    if any(x != ".." for x in out[n:]):
        raise RefError("arrownumber16: clue beyond the board")
    if pos != len(body):
        raise RefError("trailing characters")
    return to_grid(out[:n], h, w)


def border_bits(body, pos, nbits):
    nchar = (nbits + 4) // 5
    if pos + nchar > len(body):
        raise RefError("border: body too short")
    bits = []
    for c in body[pos : pos + nchar]:
        v = B36.find(c)
        if v < 0 or v >= 32:
            raise RefError("border: unexpected character %r" % c)
        bits += [(v >> k) & 1 for k in (4, 3, 2, 1, 0)]
    if any(bits[nbits:]):
        raise RefError("border: padding bits set")
    return bits[:nbits], pos + nchar


def rooms(body, pos, h, w):
    """Returns (rooms as sorted lists of (y, x), in order of first cell row-major; new pos)."""
    vb, pos = border_bits(body, pos, h * (w - 1))
    hb, pos = border_bits(body, pos, (h - 1) * w)
    parent = list(range(h * w))

    def find(a):
        while parent[a] != a:
            parent[a] = parent[parent[a]]
            a = parent[a]
        return a

    k = 0
    for y in range(h):
        for x in range(w - 1):
            if not vb[k]:
                parent[find(y * w + x)] = find(y * w + x + 1)
            k += 1
    k = 0
    for y in range(h - 1):
        for x in range(w):
            if not hb[k]:
                parent[find(y * w + x)] = find((y + 1) * w + x)
            k += 1
    # a border between two cells of the same room is not a room boundary
    k = 0
    for y in range(h):
        for x in range(w - 1):
            if vb[k] and find(y * w + x) == find(y * w + x + 1):
                raise RefError("border: redundant border")
            k += 1
    k = 0
    for y in range(h - 1):
        for x in range(w):
            if hb[k] and find(y * w + x) == find((y + 1) * w + x):
                raise RefError("border: redundant border")
            k += 1
    order = {}
    out = []
    for c in range(h * w):
        r = find(c)
        if r not in order:
            order[r] = len(out)
            out.append([])
        out[order[r]].append(divmod(c, w))
    return out, pos


def rooms_only(body, h, w):
    r, pos = rooms(body, 0, h, w)
    if pos != len(body):
        raise RefError("trailing characters")
    return r


def heyawake(body, h, w):
    r, pos = rooms(body, 0, h, w)
    vals, pos = number16(body, pos, len(r), -1, None)
    if pos != len(body) or None in vals:
        raise RefError("trailing characters or '?'")
    return r, vals


def aquarium(body, h, w):
    """body = '<border>/<numbers>': column clues then row clues, -1 = none."""
    if "/" not in body:
        raise RefError("aquarium: two body parts expected")
    b, nums = body.split("/", 1)
    r = rooms_only(b, h, w)
    vals, pos = number16(nums, 0, w + h, -1, None)
    if pos != len(nums) or None in vals:
        raise RefError("trailing characters")
    return r, vals[w:], vals[:w]  # rooms, row clues, column clues


def compass(body, h, w):
    """Returns list of (y, x, up, left, down, right) with -1 for blank arms (cspuz's tuple order)."""
    out = []
    cell = 0
    pos = 0
    while pos < len(body):
        c = body[pos]
        if "g" <= c <= "z":
            cell += ord(c) - ord("f")
            pos += 1
            continue
        arms, pos = number16(body, pos, 4, None, -1)
        if None in arms:
            raise RefError("compass: blank run inside a clue")
        if cell >= h * w:
            raise RefError("compass: clue beyond the board")
        u, d, l, r = arms
        out.append((cell // w, cell % w, u, l, d, r))
        cell += 1
    if cell > h * w:
        raise RefError("compass: blank run beyond the board")
    return out


def selftest():
    # the real-world URLs quoted in the repository decode to the problems the repository states
    nk = nurikabe("zj7n7j9n7t7i7n7zj", 10, 10)
    want = [[0] * 10 for _ in range(10)]
    for (y, x, v) in ((2, 4, 7), (3, 3, 7), (3, 8, 9), (4, 7, 7), (6, 2, 7), (6, 6, 7), (7, 5, 7)):
        want[y][x] = v
    assert nk == want
    m = masyu("0600003i06b1300600000a30600i090330", 10, 10)
    assert m[0] == [0, 0, 0, 0, 2, 0, 0, 0, 0, 0] and m[3] == [1, 0, 2, 0, 0, 1, 0, 1, 0, 0] and m[9] == [0, 0, 0, 0, 1, 0, 0, 1, 0, 0]
    s = [[3, -1, -1, -1], [3, -1, -1, -1], [-1, 2, 2, -1], [-1, 2, -1, 1]]
    assert fourcell("dgdh2c71", 4, 4) == s and fourcell("dgdh2c7b", 4, 4) == s  # cspuz's and pzpr's spelling of one problem
    r = rooms_only("93op35pb9vpq", 6, 6)
    assert r[0] == [(0, 0), (0, 1)] and r[1] == [(0, 2), (0, 3), (0, 4), (1, 0), (1, 1), (1, 2), (1, 3), (2, 1), (3, 1)] and len(r) == 9
    assert r[8] == [(5, 0), (5, 1), (5, 2)]
    rr, vals = heyawake("aa66aapv0fu0g2i3k", 6, 6)
    assert sum(len(x) for x in rr) == 36 and len(vals) == len(rr) and set(vals) <= {-1, 0, 2, 3}
    assert compass("k1.23k..6.g4..5l", 5, 4) == [(1, 1, 1, 2, -1, 3), (2, 3, -1, 6, -1, -1), (3, 1, 4, -1, -1, 5)]
    b, pos = rooms("2u9gn9c9jpmk", 0, 6, 6)
    ids = [[0, 0, 0, 0, 1, 1], [0, 2, 3, 0, 1, 1], [2, 2, 3, 3, 3, 1], [2, 1, 1, 1, 1, 1], [2, 4, 4, 1, 4, 5], [2, 2, 4, 4, 4, 5]]
    assert pos == 12 and sorted(b) == sorted(sorted((y, x) for y in range(6) for x in range(6) if ids[y][x] == k) for k in range(6))
    assert yajilin("a21b0.4fb", 2, 4) == [["..", "v1", "..", ".."], ["??", ">15", "..", ".."]]
    assert yajilin("710b", 1, 3) == [["v16", "..", ".."]] and yajilin("03a3.", 1, 3) == [["??", "..", "??"]]
    assert split_url("https://puzz.link/p?nurikabe/10/9/abc")["width"] == 10
