"""C09 — active_edges_acyclic admits exactly the forests.

E1: all labelled loop-free multigraphs (multiplicity <= 2) up to an edge bound,
several edge-list presentations, all 2^m edge subsets; edge flags as variables,
BoolArray1D, negated variables, constants, and `x | y` expressions (all
underlying assignments); the gokigen use (e and ~e on crossing diagonals).
"""

from mc import gcheck, graphref, harness, par

PID = "C09"
_CASES = []


def build(case, pattern=None):
    from cspuz import Solver, graph

    s = Solver()
    if case.get("used"):
        gcheck.junk(s)
    n, edges, form = case["n"], case["edges"], case["form"]
    m = len(edges)
    g = gcheck.make_graph(n, edges, case.get("grown"))
    if form in ("vars", "array1d"):
        e = s.bool_array(m)
        graph.active_edges_acyclic(s, e if form == "array1d" else list(e), g)
        return s, (lambda p: [gcheck.fix(v, b) for v, b in zip(e, p)])
    if form == "neg":
        e = s.bool_array(m)
        graph.active_edges_acyclic(s, [~v for v in e], g)
        return s, (lambda p: [gcheck.fix(v, not b) for v, b in zip(e, p)])
    if form == "const":
        graph.active_edges_acyclic(s, [bool(b) for b in pattern], g)
        return s, None
    if form == "or":
        x = s.bool_array(m)
        y = s.bool_array(m)
        graph.active_edges_acyclic(s, [a | b for a, b in zip(x, y)], g)
        return s, (x, y)
    if form == "paired":
        # gokigen style: edges 2k and 2k+1 carry v and ~v of one variable (odd tail edge: its own variable)
        k = (m + 1) // 2
        v = s.bool_array(k)
        flags = [v[i // 2] if i % 2 == 0 else ~v[i // 2] for i in range(m)]
        graph.active_edges_acyclic(s, flags, g)
        return s, v
    raise ValueError(form)


def run_layers(part, case):
    from cspuz import graph

    n, edges, m = case["n"], case["edges"], len(case["edges"])

    def post(s, g):
        e = s.bool_array(m)
        graph.active_edges_acyclic(s, e, g)
        return list(e)

    menu = [[False] * m, [True] * m, [k < 3 for k in range(m)], [k >= 3 for k in range(m)], [k != 0 for k in range(m)], [k != m - 1 for k in range(m)]]
    gcheck.run_two_layers(part, "acyclic[two-layers]", case, post, m, lambda p: graphref.edges_acyclic(n, [e for e, b in zip(edges, p) if b]), menu)
    part.add("scale", (n, m))


def run_case(part, case, prange=None):
    if case.get("layers"):
        run_layers(part, case)
        return
    n, edges, form = case["n"], case["edges"], case["form"]
    m = len(edges)
    key = "acyclic[%s]" % form
    if form != "const":
        try:
            s, callers = build(case)
        except Exception as e:
            part.violation(key + ":build-raises-" + type(e).__name__, case, {"exception": repr(e)[:300]})
            return
    if form == "paired":
        v = callers
        for vals in gcheck.patterns(len(v)):
            pattern = tuple(vals[i // 2] if i % 2 == 0 else (not vals[i // 2]) for i in range(m))
            exp = graphref.edges_acyclic(n, [e for e, b in zip(edges, pattern) if b])
            gcheck.judge(part, key, case, pattern, exp, s, [gcheck.fix(a, b) for a, b in zip(v, vals)])
    else:
        pats = [tuple(bool(b) for b in pt) for pt in case["patterns"]] if "patterns" in case else gcheck.patterns(m, prange)
        for pattern in pats:
            exp = graphref.edges_acyclic(n, [e for e, b in zip(edges, pattern) if b])
            if form == "const":
                try:
                    s, callers = build(case, pattern)
                except Exception as e:
                    c = dict(case)
                    c["pattern"] = list(pattern)
                    part.violation(key + ":build-raises-" + type(e).__name__, c, {"exception": repr(e)[:300]})
                    continue
                gcheck.judge(part, key, case, pattern, exp, s, [])
            elif form == "or":
                x, y = callers
                # all (x, y) with x|y == pattern: 3 choices per active edge; bound: all-x, all-y, both, alternating
                for mode in range(4):
                    xv, yv = [], []
                    for i, b in enumerate(pattern):
                        if not b:
                            xv.append(False), yv.append(False)
                        else:
                            c = mode if mode < 3 else (i % 3)
                            xv.append(c in (0, 2)), yv.append(c in (1, 2))
                    fixes = [gcheck.fix(a, b) for a, b in zip(x, xv)] + [gcheck.fix(a, b) for a, b in zip(y, yv)]
                    gcheck.judge(part, key, case, pattern, exp, s, fixes)
            else:
                gcheck.judge(part, key, case, pattern, exp, s, callers(pattern))
    if "patterns" in case:
        part.add("scale", (n, m))
        return
    part.add("graphs", (n, tuple(edges)))
    part.count("subsets", 1 << m)


def cases_for(tier):
    out = []
    bounds = [(1, 0), (2, 3), (3, 4), (4, 5)] if tier == "quick" else [(1, 0), (2, 4), (3, 6), (4, 6)]
    for n, maxe in bounds:
        for edges in graphref.multigraphs(n, maxe, 2 if n > 2 else 3):
            for var in (0, 1, 2, 3):
                if var and len(edges) < 2 and var != 1:
                    continue
                if var and not edges:
                    continue
                if n == 4 and var in (2, 3) and tier == "quick":
                    continue
                es = graphref.orient(edges, var)
                forms = ["vars", "array1d", "neg", "const", "or", "paired"] if (var == 0 and len(edges) <= 4) else ["vars"]
                for form in forms:
                    out.append({"form": form, "n": n, "edges": es})
    # the same Graph object and Solver used for two independent edge layers
    for n, es in gcheck.layer_graphs():
        out.append({"form": "vars", "n": n, "edges": list(es), "layers": 2, "patterns": []})
    # many more vertices than edges: every multigraph with a few edges on 6..9 vertices (isolated vertices in every position)
    for n, maxe in ([(6, 3), (7, 2), (8, 2)] if tier == "quick" else [(6, 4), (7, 3), (8, 3), (9, 2)]):
        for es in graphref.sparse_multigraphs(n, maxe, 2):
            if es:
                out.append({"form": "vars", "n": n, "edges": graphref.orient(es, 3 if len(es) % 2 else 0)})
    # structured mid-sized graphs, all 2^m edge patterns (quick: m <= 9)
    for name, n, es in graphref.zoo():
        if len(es) > (9 if tier == "quick" else 12):
            continue
        out.append({"form": "vars", "n": n, "edges": es, "name": name})
    if tier != "quick":
        pairs = graphref.all_pairs(5)
        import itertools

        for k in range(0, 8):
            for es in itertools.combinations(pairs, k):
                out.append({"form": "vars", "n": 5, "edges": list(es)})
    return out


def scale_cases(tier):
    """Deep forests on larger graphs (deterministic, not exhaustive)."""
    out = []
    big = [(4, 4), (3, 6), (6, 3), (1, 14)] if tier == "quick" else [(4, 4), (3, 6), (6, 3), (5, 5), (4, 7), (1, 24), (6, 6)]
    for h, w in big:
        edges = graphref.orient(graphref.grid_edges(h, w), 3)
        eidx = {frozenset(e): k for k, e in enumerate(edges)}
        cell = lambda c: c[0] * w + c[1]  # noqa: E731
        ham = graphref.boustrophedon(h, w)
        path = [eidx[frozenset((cell(a), cell(b)))] for a, b in zip(ham, ham[1:])]
        m = len(edges)

        def pat(idxs):
            st = set(idxs)
            return [k in st for k in range(m)]

        pats = [pat(path), pat([]), pat(range(m)), pat(path[: len(path) // 2] + path[len(path) // 2 + 1 :])]
        extra = [k for k in range(m) if k not in set(path)]
        for k in extra[:3] + extra[-2:]:
            pats.append(pat(path + [k]))  # one chord closes a cycle
        # comb: first column + every row
        comb = [eidx[frozenset((cell((y, 0)), cell((y + 1, 0))))] for y in range(h - 1)] + [eidx[frozenset((cell((y, x)), cell((y, x + 1))))] for y in range(h) for x in range(w - 1)]
        pats.append(pat(comb))
        out.append({"form": "vars", "n": h * w, "edges": edges, "patterns": pats})
    for n in ((130, 300) if tier == "quick" else (65, 129, 130, 257, 300, 600)):
        path = [(i, i + 1) for i in range(n - 1)]
        out.append({"form": "vars", "n": n, "edges": path, "patterns": [[True] * (n - 1), [i % 3 != 0 for i in range(n - 1)]]})
        cyc = [(i, (i + 1) % n) for i in range(n)]
        out.append({"form": "vars", "n": n, "edges": graphref.orient(cyc, 3), "patterns": [[True] * n, [True] * (n - 1) + [False], [i != n // 2 for i in range(n)]]})
    for n in ((12, 16) if tier == "quick" else (12, 16, 24, 30)):
        cyc = [(i, (i + 1) % n) for i in range(n)]
        out.append({"form": "vars", "n": n, "edges": cyc, "patterns": [[True] * n, [True] * (n - 1) + [False], [False] + [True] * (n - 1), [i % 2 == 0 for i in range(n)]]})
    return out


def _small(c):
    """Cases cheap enough to repeat on a Solver that is already in use."""
    if "shape" in c:
        return (c["shape"][0] + 1) * (c["shape"][1] + 1) <= 9
    return c.get("n", 9) <= 3 and len(c.get("edges", ())) <= 4


def prepare(tier):
    global _CASES
    base_cases = cases_for(tier)
    used = [dict(c, used=True) for c in base_cases[:: (7 if tier == "quick" else 3)] if _small(c)]
    # Graph objects with a history: some edges added only after the object has been used by other constraints
    for c in base_cases[:: (5 if tier == "quick" else 2)]:
        if "edges" in c and "shape" not in c and 2 <= len(c["edges"]) <= 5 and c.get("n", 9) <= 4:
            used.append(dict(c, grown=1))
            used.append(dict(c, grown=len(c["edges"]) - 1))
            used.append(dict(c, grown=len(c["edges"])))  # fully built, then used - also by calls that are refused -, then used again
    _CASES = base_cases + used + scale_cases(tier)
    return _CASES


def worker(shard, part):
    gcheck.BRUTE_LIMIT = _BRUTE[0]
    lo, hi, plo, phi = shard
    for case in _CASES[lo:hi]:
        run_case(part, case, None if plo is None else (plo, phi))
    if lo < len(_CASES) and (lo // 7) % 40 == 0:
        part.sample(_CASES[lo])


def _describe(shard):
    lo, hi, plo, phi = shard
    c = _CASES[lo]
    return "%d case(s) %s %s" % (hi - lo, (plo, phi), {k: (v if not isinstance(v, (list, tuple)) or len(v) < 6 else "[%d]" % len(v)) for k, v in c.items()})


worker.describe = _describe


_BRUTE = [300]


def main(tier, seed, only=None):
    _BRUTE[0] = 300 if tier == "quick" else 5000
    cases = prepare(tier)
    run = harness.Run(
        PID,
        tier,
        seed,
        "exploration",
        "all labelled loop-free multigraphs: %s (multiplicity <= 2, 3 for n=2)%s, in up to 4 edge-list presentations; all 2^m "
        "edge subsets; flags as variables / BoolArray1D / negated variables / constants / x|y (4 decompositions per subset) / "
        "gokigen-style paired v,~v.  Scale family (not exhaustive): Hamiltonian paths, combs, single chords and cycles on grid graphs up to 4x4/3x6 (thorough 6x6) and cycles C12..C30, paths and cycles on 130 / 300 (thorough 600) vertices.  Oracle: union-find acyclicity of the active multigraph (two active parallel edges = cycle)."
        % (
            "n<=4 with <=5 edges" if tier == "quick" else "n<=4 with <=6 edges",
            "" if tier == "quick" else ", all simple graphs on 5 vertices with <= 7 edges",
        ),
    )
    run.assumptions = ["implementation under test = encoding + cspuz z3 backend", "loops are outside the property's quantifier"]
    shards = gcheck.split_shards(cases, lambda c: 30 * len(c['patterns']) if 'patterns' in c else (1 << len(c['edges'])) * (4 if c['form'] == 'or' else 1), 500)
    first, rest = gcheck.heavy_first(shards, _CASES)
    par.run_shards(run, worker, rest, seed, first=first)
    cov = {
        "evaluations": run.c("evaluations"),
        "distinct_nontrivial": sum(1 << len(g[1]) for g in run.total.sets.get("graphs", ())),
        "graphs": run.n("graphs"),
        "cases": len(cases),
        "exhaustive": True,
    }
    return run.finish(cov)


def replay(case):
    part = harness.Partial()
    pattern = case.get("pattern")
    c = {k: v for k, v in case.items() if k != "pattern"}
    c["edges"] = [tuple(e) for e in c["edges"]]
    run_case(part, c)
    mine = [v for v in part.violations if pattern is None or v.case.get("pattern") == pattern]
    return (not mine), (mine[0].detail if mine else "agrees with the oracle")
