"""C08 — not_adjacent / not_adjacent_and_not_segmenting match their graph definitions.

E1: all labelled simple graphs with <= 4 (5) vertices, all grid shapes up to a
cell bound including every 1xN and Nx1, all 2^n activity patterns; three-way
differential for the segmenting constraint: definition (R-graph), explicit
graph route, specialised grid route.
"""

from mc import gcheck, graphref, harness, par

PID = "C08"
_CASES = []


def oracle(n, edges, pattern, segmenting):
    if any(pattern[u] and pattern[v] for u, v in edges):
        return False
    if not segmenting:
        return True
    return graphref.induced_connected(n, edges, [v for v in range(n) if not pattern[v]])


def build(case):
    from cspuz import Solver, graph

    s = Solver()
    if case.get("used"):
        gcheck.junk(s)
    fn = graph.active_vertices_not_adjacent_and_not_segmenting if case["seg"] else graph.active_vertices_not_adjacent
    route = case["route"]
    if case.get("before"):
        gcheck.warm_grid(tuple(case["before"]))
    if route == "grid":
        h, w = case["shape"]
        a = s.bool_array((h, w))
        fn(s, a)
        return s, list(a)
    if route == "grid-as-graph":
        h, w = case["shape"]
        a = s.bool_array(h * w)
        # the documented grid graph, built by the library's own helper, given explicitly
        fn(s, a, graph._grid_graph(h, w))
        return s, list(a)
    g = gcheck.make_graph(case["n"], case["edges"], case.get("grown"))
    a = s.bool_array(case["n"])
    ff = case.get("flagform")
    if ff in ("const", "mixed"):
        # the pattern (or every second entry of it) given as plain Python bools, as the docstring allows
        from cspuz.array import BoolArray1D
        from cspuz.expr import BoolVar

        vals = [bool(case["consts"][v]) if (ff == "const" or v % 2) else a[v] for v in range(case["n"])]
        fn(s, BoolArray1D(vals) if (case["seg"] or case.get("as_array")) else vals, g)
        return s, vals
    if ff == "nested":
        from cspuz.array import BoolArray1D

        sel = s.bool_var()
        fn(s, BoolArray1D([(x & sel) | (x & ~sel) for x in a]), g)  # activity given as nested expressions equivalent to the variables
    elif ff == "neg":
        from cspuz.array import BoolArray1D

        fn(s, BoolArray1D([~x for x in a]), g)  # the caller fixes the inverted values
    elif case.get("aslist") and not case["seg"]:
        fn(s, list(a), g)
    else:
        fn(s, a, g)
    return s, list(a)


def shape_class(case):
    if "shape" not in case:
        return "graph"
    h, w = case["shape"]
    if h == 1 and w == 1:
        return "1x1"
    if h == 1 or w == 1:
        return "single-line"
    return "2d"


_IND = {}


def independent_sets(h, w):
    """All patterns with no two orthogonally adjacent active cells (row-major tuples of bools)."""
    if (h, w) in _IND:
        return _IND[(h, w)]
    rows = [r for r in range(1 << w) if not (r & (r >> 1))]
    out = []

    def rec(y, prev, acc):
        if y == h:
            out.append(tuple(bool(acc[yy] >> x & 1) for yy in range(h) for x in range(w)))
            return
        for r in rows:
            if not (r & prev):
                rec(y + 1, r, acc + [r])

    rec(0, 0, [])
    _IND[(h, w)] = out
    return out


_CHAINS = {}


def diagonal_chains(h, w, budget=200000):
    """Long chains of diagonally touching cells hanging from the border (first cell on the border, no other border cell,
    no orthogonal contact, no diagonal contact between non-consecutive cells): the patterns that need the deepest ranks in
    the grid specialisation.  Deterministic depth-first search with a node budget; returns the longest chains found from
    a few starting cells."""
    if (h, w) in _CHAINS:
        return _CHAINS[(h, w)]
    best = {}
    starts = [(0, 0), (0, w // 2), (h // 2, 0), (0, 1)]
    for st in starts:
        nodes = [0]
        top = [[st]]

        def ok(cell, chain):
            y, x = cell
            if not (0 < y < h - 1 and 0 < x < w - 1):
                return False
            for k, (cy, cx) in enumerate(chain):
                dy, dx = abs(cy - y), abs(cx - x)
                if dy + dx == 1 or (dy, dx) == (0, 0):
                    return False
                if dy == 1 and dx == 1 and k != len(chain) - 1:
                    return False
            return True

        def rec(chain):
            nodes[0] += 1
            if nodes[0] > budget:
                return
            if len(chain) > len(top[0]):
                top[0] = list(chain)
            y, x = chain[-1]
            for dy, dx in ((1, 1), (1, -1), (-1, 1), (-1, -1)):
                c = (y + dy, x + dx)
                if ok(c, chain):
                    chain.append(c)
                    rec(chain)
                    chain.pop()

        rec([st])
        best[st] = top[0]
    out = sorted(best.values(), key=len, reverse=True)[:2]
    _CHAINS[(h, w)] = out
    return out


def run_layers(part, case):
    from cspuz import graph

    n, edges = case["n"], case["edges"]
    fn = graph.active_vertices_not_adjacent_and_not_segmenting if case["seg"] else graph.active_vertices_not_adjacent

    def post(s, g):
        a = s.bool_array(n)
        fn(s, a, g)
        return list(a)

    menu = [[False] * n, [v == 0 for v in range(n)], [v == n - 1 for v in range(n)], [v in (0, n - 1) for v in range(n)], [v % 3 == 0 for v in range(n)], [v in (1, 4) for v in range(n)]]
    gcheck.run_two_layers(part, "%s[two-layers]" % ("segmenting" if case["seg"] else "not_adjacent"), case, post, n, lambda p: oracle(n, edges, p, case["seg"]), menu)
    part.add("restricted", ("layers", n, len(edges)))


def run_constforms(part, case, prange=None):
    from cspuz.expr import BoolVar

    n, edges = case["n"], case["edges"]
    key = "%s[graph,%s]" % ("segmenting" if case["seg"] else "not_adjacent", case["flagform"])
    for pattern in gcheck.patterns(n, prange):
        exp = oracle(n, edges, pattern, case["seg"])
        try:
            s, vals = build(dict(case, consts=list(pattern)))
        except Exception as e:
            part.violation(key + ":build-raises-" + type(e).__name__, dict(case, pattern=list(pattern)), {"exception": repr(e)[:300], "expected_sat": exp})
            continue
        gcheck.judge(part, key, case, pattern, exp, s, [gcheck.fix(v, b) for v, b in zip(vals, pattern) if isinstance(v, BoolVar)])
    part.add("graphs", (n, tuple(edges)))


def run_case(part, case, prange=None):
    if case.get("layers"):
        run_layers(part, case)
        return
    if case.get("flagform") in ("const", "mixed"):
        run_constforms(part, case, prange)
        return
    if "shape" in case:
        h, w = case["shape"]
        n = h * w
        edges = graphref.grid_edges(h, w)
    else:
        n, edges = case["n"], case["edges"]
    key = "%s[%s,%s]" % ("segmenting" if case["seg"] else "not_adjacent", case["route"], shape_class(case))
    try:
        s, a = build(case)
    except Exception as e:
        part.violation(key + ":build-raises-" + type(e).__name__, case, {"exception": repr(e)[:300]})
        return
    if case.get("family") == "chains":
        for chain in diagonal_chains(h, w):
            for ln in range(len(chain), 1, -1):
                cells = set(chain[:ln])
                pattern = tuple((y, x) in cells for y in range(h) for x in range(w))
                exp = oracle(n, edges, pattern, case["seg"])
                gcheck.judge(part, key + "{diagonal-chains}", case, pattern, exp, s, [gcheck.fix(v, b) for v, b in zip(a, pattern)])
            # the same chain closed back to the border (it then cuts off a corner region)
            last = chain[-1]
        part.add("restricted", (h, w, "chains"))
        return
    if case.get("family") == "independent":
        # restricted family on larger boards: only the patterns that pass the (separately verified) adjacency rule,
        # i.e. exactly the ones on which the connectivity / rank part of the encoding decides
        lst = independent_sets(h, w)
        lo, hi = prange if prange else (0, len(lst))
        for pattern in lst[lo:hi]:
            exp = oracle(n, edges, pattern, case["seg"])
            gcheck.judge(part, key + "{independent-sets}", case, pattern, exp, s, [gcheck.fix(v, b) for v, b in zip(a, pattern)])
        part.add("restricted", (h, w, lo, hi))
        return
    pats = [tuple(bool(b) for b in p) for p in case["patterns"]] if "patterns" in case else gcheck.patterns(n, prange)
    for pattern in pats:
        exp = oracle(n, edges, pattern, case["seg"])
        gcheck.judge(part, key, case, pattern, exp, s, [gcheck.fix(v, (not b) if case.get("flagform") == "neg" else b) for v, b in zip(a, pattern)])
    if "patterns" in case:
        part.add("restricted", ("history", tuple(case.get("shape", ())), tuple(case.get("before", ()))))
    else:
        part.add("graphs", (n, tuple(edges)))


def cases_for(tier):
    out = []
    maxn = 4 if tier == "quick" else 5
    for n in range(1, maxn + 1):
        for edges in graphref.simple_graphs(n):
            for var in ((0, 1) if n <= 4 else (0,)):
                if var and not edges:
                    continue
                es = graphref.orient(edges, var)
                for seg in (False, True):
                    out.append({"route": "graph", "n": n, "edges": es, "seg": seg})
                if var == 0 and n <= 3:
                    out.append({"route": "graph", "n": n, "edges": es, "seg": False, "aslist": True})
    # structured mid-sized graphs (cycles sharing a vertex, degree-4 trees, isolated vertices, cubic graphs), all 2^n patterns
    for name, n, es in graphref.zoo():
        if tier == "quick" and n > 7 and "merge-order" not in name:
            continue
        for seg in (False, True):
            out.append({"route": "graph", "n": n, "edges": es, "seg": seg, "name": name})
    # the pattern given as Python constants (all of it / every second entry)
    for n in range(1, 5):
        for edges in graphref.simple_graphs(n):
            for seg in (False, True):
                for ff in ("const", "mixed"):
                    out.append({"route": "graph", "n": n, "edges": list(edges), "seg": seg, "flagform": ff, "as_array": bool(len(edges) % 2)})
    for name, n, es in graphref.zoo():
        if n <= 6 and not name.endswith("~relabelled"):
            for seg in (False, True):
                out.append({"route": "graph", "n": n, "edges": list(es), "seg": seg, "flagform": "mixed"})
    # activity given as expressions; two layers on one Graph object and Solver; board histories
    for n, es in gcheck.layer_graphs():
        for seg in (False, True):
            for ff in ("nested", "neg"):
                if n <= 4 or ff == "nested":
                    out.append({"route": "graph", "n": n, "edges": list(es), "seg": seg, "flagform": ff})
            out.append({"route": "graph", "n": n, "edges": list(es), "seg": seg, "layers": 2, "patterns": []})
    for a, b in gcheck.grid_history_pairs(tier):
        h, w = b
        cells = [(y, x) for y in range(h) for x in range(w)]
        pats = [[False] * (h * w), [c in ((0, 0), (h - 1, w - 1)) for c in cells], [(y + x) % 2 == 0 for (y, x) in cells], [x == w // 2 and y % 2 == 0 for (y, x) in cells],
                [y == h // 2 and x % 2 == 0 for (y, x) in cells], [(y, x) in ((0, 1), (1, 0)) for (y, x) in cells]]
        for route in ("grid", "grid-as-graph"):
            out.append({"route": route, "shape": [h, w], "seg": True, "before": list(a), "patterns": pats})
    maxcells = 9 if tier == "quick" else 12
    shapes = graphref.grid_shapes(maxcells)
    if tier != "quick":
        shapes += [(1, 13), (13, 1), (1, 14), (14, 1)]
    for h, w in shapes:
        for seg in (False, True):
            out.append({"route": "grid", "shape": [h, w], "seg": seg})
            if h * w <= (8 if tier == "quick" else 10):
                out.append({"route": "grid-as-graph", "shape": [h, w], "seg": seg})
    big = [(3, 5), (5, 3), (4, 4), (4, 5), (5, 4)] if tier == "quick" else [(3, 5), (5, 3), (4, 4), (4, 5), (5, 4), (3, 7), (7, 3), (4, 6), (6, 4), (5, 5), (2, 9), (9, 2)]
    for h, w in big:
        out.append({"route": "grid", "shape": [h, w], "seg": True, "family": "independent"})
    # (wide and tall boards as well: a zig-zag chain in the middle rows of a 4xN board is far longer than either side of a square one)
    for h, w in ([(6, 6), (7, 7), (8, 8), (6, 9), (4, 10), (10, 4), (4, 12), (5, 11)] if tier == "quick" else [(6, 6), (7, 7), (8, 8), (6, 9), (9, 6), (10, 10), (12, 12), (4, 10), (10, 4), (4, 12), (12, 4), (5, 11), (11, 5), (4, 16), (16, 4), (5, 16), (16, 5), (5, 20)]):
        out.append({"route": "grid", "shape": [h, w], "seg": True, "family": "chains"})
    return out


def _small(c):
    """Cases cheap enough to repeat on a Solver that is already in use."""
    if "shape" in c:
        return (c["shape"][0] + 1) * (c["shape"][1] + 1) <= 9
    return c.get("n", 9) <= 3 and len(c.get("edges", ())) <= 4


def prepare(tier):
    global _CASES
    base_cases = cases_for(tier)
    used = [dict(c, used=True) for c in base_cases[:: (7 if tier == "quick" else 3)] if _small(c)]
    # Graph objects with a history: some edges added only after the object has been used by other constraints
    for c in base_cases[:: (5 if tier == "quick" else 2)]:
        if "edges" in c and "shape" not in c and 2 <= len(c["edges"]) <= 5 and c.get("n", 9) <= 4:
            used.append(dict(c, grown=1))
            used.append(dict(c, grown=len(c["edges"]) - 1))
            used.append(dict(c, grown=len(c["edges"])))  # fully built, then used - also by calls that are refused -, then used again
    _CASES = base_cases + used
    return _CASES


def worker(shard, part):
    gcheck.BRUTE_LIMIT = _BRUTE[0]
    lo, hi, plo, phi = shard
    for case in _CASES[lo:hi]:
        run_case(part, case, None if plo is None else (plo, phi))
    if lo < len(_CASES) and (lo // 3) % 60 == 0:
        part.sample(_CASES[lo])


def _describe(shard):
    lo, hi, plo, phi = shard
    c = _CASES[lo]
    return "%d case(s) %s %s" % (hi - lo, (plo, phi), {k: (v if not isinstance(v, (list, tuple)) or len(v) < 6 else "[%d]" % len(v)) for k, v in c.items()})


worker.describe = _describe


_BRUTE = [300]


def main(tier, seed, only=None):
    _BRUTE[0] = 300 if tier == "quick" else 5000
    cases = prepare(tier)
    run = harness.Run(
        PID,
        tier,
        seed,
        "exploration",
        "all labelled simple graphs n<=%d (n<=4 in 2 edge orientations), all grid shapes with <= %d cells incl. every 1xN / Nx1%s; "
        "all 2^n patterns; not_adjacent (graph form with BoolArray1D and list, grid form) and not_adjacent_and_not_segmenting "
        "(graph route, specialised grid route, and the grid graph passed explicitly); restricted family: on larger boards (up to %s) ALL patterns without two adjacent active cells, and on boards up to 8x8 (thorough 12x12) every prefix of the longest diagonal chains hanging from the border.  Oracle: no edge with both ends active "
        "(+ inactive vertices induce a connected subgraph)." % (4 if tier == "quick" else 5, 9 if tier == "quick" else 12, "" if tier == "quick" else ", 1x13, 1x14 and transposes", "4x5" if tier == "quick" else "4x6, 5x5, 3x7, 2x9"),
    )
    run.assumptions = ["implementation under test = encoding + cspuz z3 backend", "empty inactive set counts as connected (as in C04)"]
    shards = gcheck.split_shards(cases, lambda c: 40 * max(1, len(c['patterns'])) if 'patterns' in c else 60 if c.get('family') == 'chains' else len(independent_sets(*c['shape'])) if c.get('family') else 1 << (c['n'] if 'n' in c else c['shape'][0] * c['shape'][1]), 400)
    first, rest = gcheck.heavy_first(shards, _CASES)
    par.run_shards(run, worker, rest, seed, first=first)
    cov = {
        "evaluations": run.c("evaluations"),
        "distinct_nontrivial": sum(1 << g[0] for g in run.total.sets.get("graphs", ())),
        "graphs": run.n("graphs"),
        "cases": len(cases),
        "exhaustive": True,
    }
    return run.finish(cov)


def replay(case):
    part = harness.Partial()
    pattern = case.get("pattern")
    c = {k: v for k, v in case.items() if k != "pattern"}
    if "edges" in c:
        c["edges"] = [tuple(e) for e in c["edges"]]
    run_case(part, c)
    mine = [v for v in part.violations if pattern is None or v.case.get("pattern") == pattern]
    return (not mine), (mine[0].detail if mine else "agrees with the oracle")
