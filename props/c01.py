"""C01 — find_answer decides satisfiability and leaves a genuine model in .sol.

E1: every expression tree with <= k operator nodes over a closed leaf set,
built through every DSL constructor (mc/progs.py), solved through the real
Solver.find_answer / Z3Backend and compared with the brute-force solution set
computed by the reference evaluator (mc/refsem.py).
E2: breadth-first search over incremental sessions (declare / ensure /
find_answer) with a canonical-state dedup; every find_answer of every history
is checked against the oracle and against a fresh Solver given the same program.
"""

import collections
import itertools

from mc import harness, par, progs, refsem

PID = "C01"
BACKEND = "z3"

DOMAINS_STD = ((-1, 1), (0, 2))
DOMAIN_VARIANTS = [((2, 2), (-3, -1)), ((-40, 40), (0, 2)), ((0, 0), (-25, 30)), ((-2, -2), (5, 5))]

_TERMS = {}  # stratum name -> list of (kind, src)


def build_strata(tier):
    m_full, m_red, m_min = {}, {}, {}
    S = collections.OrderedDict()

    def add(name, leaves, memo, ks):
        lst = []
        for k in ks:
            for kind in ("bool", "int"):
                lst += [(kind, s) for s in progs.terms(kind, k, leaves, memo)]
        S[name] = lst

    add("full-k01", progs.FULL, m_full, (0, 1))
    if tier == "quick":
        add("min-k2", progs.MIN, m_min, (2,))
    else:
        add("full-k2", progs.FULL, m_full, (2,))
        add("red-k2", progs.RED, m_red, (2,))
        add("tiny-k3", progs.TINY, {}, (3,))
    return S


def tree_ops(e, acc):
    from cspuz.expr import Expr

    if isinstance(e, Expr):
        acc.add(e.op.name)
        for o in e.operands:
            tree_ops(o, acc)
    return acc


def check_program(part, variables, constraints, case, solver, strat, sols=None):
    """Run find_answer on `solver` (already holding the program) and judge it.
    `sols` may be supplied when the reference solution set is known by construction."""
    if sols is None:
        sols = refsem.solutions(variables, constraints)
    sat = bool(sols)
    part.count("evaluations")
    part.outcome("%s:%s" % (strat, "SAT" if sat else "UNSAT"))
    for v in variables:
        v.sol = "stale"
    ops = set()
    for c in constraints:
        tree_ops(c, ops)
    sig = "+".join(sorted(ops - {"VAR"}))[:80]
    try:
        res = solver.find_answer(backend=BACKEND)
    except Exception as e:
        part.violation("raises-%s:%s" % (type(e).__name__, sig), case, {"exception": repr(e)[:300], "oracle_sat": sat})
        return None
    if res is not True and res is not False:
        part.violation("non-bool-result:" + sig, case, {"result": repr(res)})
        return None
    if res != sat:
        part.violation(
            "wrong-verdict-%s:%s" % ("sat" if res else "unsat", sig), case, {"find_answer": res, "oracle_solutions": len(sols)}
        )
        return res
    if res:
        model = tuple(v.sol for v in variables)
        bad_type = [i for i, v in enumerate(variables) if not refsem.sol_typed_ok(v, v.sol)]
        if bad_type:
            part.violation("sol-type-or-bounds:" + sig, case, {"sol": repr(model)})
        elif model not in set(sols):
            part.violation("model-not-a-solution:" + sig, case, {"sol": repr(model), "n_solutions": len(sols)})
    return res


def table_expr(variables, sols):
    """DNF of a solution set, built from raw nodes (no DSL sugar)."""
    from cspuz.expr import BoolExpr, BoolVar, Op

    disj = []
    for s in sols:
        conj = []
        for v, val in zip(variables, s):
            if isinstance(v, BoolVar):
                conj.append(v if val else BoolExpr(Op.NOT, [v]))
            else:
                conj.append(BoolExpr(Op.EQ, [v, val]))
        disj.append(BoolExpr(Op.AND, conj))
    return BoolExpr(Op.OR, disj)


def run_term(part, kind, src, domains, strat, deep):
    from cspuz import Solver
    from cspuz.expr import BoolExpr, Op, Expr

    s = Solver()
    ns = progs.namespace(s, domains)
    case = {"form": "term", "kind": kind, "src": src, "domains": [list(d) for d in domains]}
    try:
        root = eval(src, ns)
    except Exception as e:
        # the DSL refused to build the tree (or Python itself did for literal-only operands):
        # construction is C12's subject; a Python-pure source is simply not a cspuz program
        if progs.python_pure(src):
            part.count("skipped_python_pure")
            return
        if isinstance(e, AttributeError) and ("'bool' object has no attribute" in str(e) or "'int' object has no attribute" in str(e)):
            part.count("skipped_method_on_python_literal")  # e.g. (True).then(b0): not a DSL form
            return
        part.violation("construction-raises-%s" % type(e).__name__, case, {"exception": repr(e)[:300]})
        return
    if not progs.admissible(kind, root):
        if progs.python_pure(src) or root is NotImplemented:
            part.count("skipped_not_a_program")
            return
        part.violation("construction-wrong-kind", case, {"root": repr(type(root))})
        return
    if not isinstance(root, Expr):
        part.count("python_folded_roots")
    variables = list(s.variables)
    # source-level oracle: the same text evaluated with plain Python values (never sees a cspuz tree)
    table = []
    for env in refsem.assignments(variables):
        tup = tuple(env[v.id] for v in variables)
        try:
            table.append((tup, env, progs.ref_value(src, *tup)))
        except TypeError:
            part.count("skipped_ill_typed_source")
            return
    for tup, env, want in table:
        got = refsem.ev(root, env)
        if got != want or type(got) is not type(want):
            part.violation(
                "constructor-builds-wrong-tree:%s" % "+".join(sorted(tree_ops(root, set()) - {"VAR"}))[:60],
                case,
                {"assignment": list(tup), "tree_value": got, "source_value": want},
            )
            return
    if kind == "bool":
        neg = BoolExpr(Op.NOT, [root]) if isinstance(root, Expr) else (not root)
        goals = [("pos", root, [t for t, _, v in table if v is True]), ("neg", neg, [t for t, _, v in table if v is False])]
    else:
        vals = sorted(set(v for _, _, v in table))
        targets = [vals[0], vals[-1], vals[-1] + 1] if len(vals) > 1 else [vals[0], vals[0] - 1]
        if deep and len(vals) > 2:
            mid = vals[1:-1]
            targets += mid if len(mid) <= 6 else [mid[0], mid[len(mid) // 2], mid[-1]]
        goals = [("eq%d" % t, root == t, [tp for tp, _, v in table if v == t]) for t in targets]
        if deep:
            goals.append(("lt", root < vals[-1], [tp for tp, _, v in table if v < vals[-1]]))
    for gname, g, sols in goals:
        s.constraints = []
        s.ensure(g)
        c = dict(case)
        c["goal"] = gname
        check_program(part, variables, list(s.constraints), c, s, strat, sols=sols)
    # denotation: the tree must agree with the reference on *every* assignment, whatever model z3 prefers
    nassign = len(table)
    if kind == "bool" and nassign <= 200:
        pos = [t for t, _, v in table if v is True]
        s.constraints = []
        s.ensure(BoolExpr(Op.XOR, [root if isinstance(root, Expr) else bool(root), table_expr(variables, pos)]))
        c = dict(case)
        c["goal"] = "denotation"
        # root XOR (DNF of the reference solution set of root) has no solution by construction
        check_program(part, variables, list(s.constraints), c, s, strat, sols=[])
    if isinstance(root, Expr):
        part.count("cspuz_trees")


def hash_of(text):
    """Deterministic small hash (Python's hash() of str is salted unless PYTHONHASHSEED is fixed; do not rely on it)."""
    h = 0
    for ch in text:
        h = (h * 131 + ord(ch)) % 1000003
    return h


def run_scale(part, n):
    """Large flat operators and deep chains with every variable pinned, so that the expected verdict is known by
    construction (no enumeration): thresholds around 32 / 64 / 128 / 256."""
    from cspuz import Solver, alldifferent, count_true, fold_and, fold_or
    from cspuz.array import BoolArray1D, IntArray1D

    def solve(build):
        s = Solver()
        c = build(s)
        try:
            return s.find_answer(backend=BACKEND), s
        except Exception as e:
            return e, s

    def expect(name, build, want):
        part.count("evaluations")
        part.count("scale_programs")
        got, s = solve(build)
        if got is not want:
            part.violation("scale:%s" % name, {"form": "scale", "n": n, "program": name}, {"find_answer": repr(got)[:200], "expected": want})
        else:
            part.add("scale", (name, n))

    def pinned_bools(s, vals):
        xs = [s.bool_var() for _ in vals]
        for x, v in zip(xs, vals):
            s.ensure(x if v else ~x)
        return xs

    def pinned_ints(s, vals):
        xs = [s.int_var(min(vals) - 1, max(vals) + 1) for _ in vals]
        for x, v in zip(xs, vals):
            s.ensure(x == v)
        return xs

    alltrue = [True] * n
    # count_true over n pinned booleans: == n satisfiable, == n - 1 not; the last operand matters
    expect("count_true==n", lambda s: s.ensure(count_true(pinned_bools(s, alltrue)) == n), True)
    expect("count_true==n-1", lambda s: s.ensure(count_true(pinned_bools(s, alltrue)) == n - 1), False)
    expect("count_true(last-only)==1", lambda s: s.ensure(count_true(pinned_bools(s, [False] * (n - 1) + [True])) == 1), True)
    expect("array.count_true>=n", lambda s: s.ensure(BoolArray1D(pinned_bools(s, alltrue)).count_true() >= n), True)
    expect("fold_or(last-only)", lambda s: s.ensure(fold_or(pinned_bools(s, [False] * (n - 1) + [True]))), True)
    expect("fold_or(none)", lambda s: s.ensure(fold_or(pinned_bools(s, [False] * n))), False)
    expect("fold_and(all)", lambda s: s.ensure(fold_and(pinned_bools(s, alltrue))), True)
    expect("fold_and(last-false)", lambda s: s.ensure(fold_and(pinned_bools(s, [True] * (n - 1) + [False]))), False)
    expect("array.fold_and(last-false)", lambda s: s.ensure(BoolArray1D(pinned_bools(s, [True] * (n - 1) + [False])).fold_and()), False)
    vals = list(range(n))
    expect("alldifferent(distinct)", lambda s: s.ensure(alldifferent(pinned_ints(s, vals))), True)
    if n >= 2:
        expect("alldifferent(last==first)", lambda s: s.ensure(alldifferent(pinned_ints(s, vals[:-1] + [0]))), False)
        expect("array.alldifferent(last==first)", lambda s: s.ensure(IntArray1D(pinned_ints(s, vals[:-1] + [0])).alldifferent()), False)
    # flat sum via Python's sum() = left-deep chain of binary +, depth n (deeper than the interpreter's recursion limit for n >= ~450)
    if True:
        ones = [1] * n

        def chain(s, target):
            xs = pinned_ints(s, ones)
            acc = xs[0]
            for x in xs[1:]:
                acc = acc + x
            s.ensure(acc == target)

        expect("chain-sum==n", lambda s: chain(s, n), True)
        expect("chain-sum==n-1", lambda s: chain(s, n - 1), False)

        def chain_and(s, last):
            xs = pinned_bools(s, [True] * (n - 1) + [last])
            acc = xs[0]
            for x in xs[1:]:
                acc = acc & x
            s.ensure(acc)

        expect("chain-and(all)", lambda s: chain_and(s, True), True)
        expect("chain-and(last-false)", lambda s: chain_and(s, False), False)
    # many constraints / many variables in one program (declaration order interleaved)
    def many(s, bad):
        for i in range(n):
            b = s.bool_var()
            v = s.int_var(0, 3)
            s.ensure(b == (v >= 2))
            s.ensure(v == (i % 4))
            if bad and i == n - 1:
                s.ensure(b != ((i % 4) >= 2))

    expect("many-constraints", lambda s: many(s, False), True)
    expect("many-constraints(last-contradicts)", lambda s: many(s, True), False)


def run_pair(part, src1, src2, strat):
    from cspuz import Solver

    s = Solver()
    ns = progs.namespace(s, DOMAINS_STD)
    case = {"form": "pair", "src": [src1, src2], "domains": [list(d) for d in DOMAINS_STD]}
    try:
        r1, r2 = eval(src1, ns), eval(src2, ns)
    except Exception:
        part.count("skipped_pair_construction")
        return
    if not (progs.admissible("bool", r1) and progs.admissible("bool", r2)):
        part.count("skipped_not_a_program")
        return
    # every way of handing constraints to ensure(): single, list, varargs, tuple, one-shot iterators, nested
    form = (hash_of(src1) + hash_of(src2)) % 7
    if form == 0:
        s.ensure(r1)
        s.ensure([r2])
    elif form == 1:
        s.ensure(r1, r2)
    elif form == 2:
        s.ensure((c for c in (r1, r2)))
    elif form == 3:
        s.ensure(map(lambda c: c, [r1, r2]))
    elif form == 4:
        s.ensure([r1, (c for c in [r2])])
    elif form == 5:
        s.ensure((r1, [r2]), [])
    else:
        s.ensure(iter([r1]), iter((r2,)))
    case["posting_form"] = form
    if len(s.constraints) != 2:
        part.violation("ensure:lost-or-duplicated-constraints[form%d]" % form, case, {"posted": 2, "stored": len(s.constraints)})
        return
    variables = list(s.variables)
    sols = []
    for env in refsem.assignments(variables):
        tup = tuple(env[v.id] for v in variables)
        try:
            if progs.ref_value(src1, *tup) is True and progs.ref_value(src2, *tup) is True:
                sols.append(tup)
        except TypeError:
            part.count("skipped_ill_typed_source")
            return
    check_program(part, variables, list(s.constraints), case, s, strat, sols=sols)


# ------------------------------------------------------------------ sessions
DECLS = {"B": None, "I0": (-1, 1), "I1": (0, 2), "I2": (2, 2)}
MAX_VARS = 3
MAX_CONS = 3


def templates(bools, ints):
    """Constraint templates instantiated on the variables that exist so far.
    Returns list of (name, builder) where builder(vars by name) -> constraint."""
    from cspuz import alldifferent, count_true, fold_and, fold_or

    out = []
    if bools:
        bl = bools[-1]
        bp = bools[0]
        out.append(("bL", lambda: bl))
        out.append(("~bL|bP", lambda: ~bl | bp))
        out.append(("cnt1", lambda: count_true(bools) == 1))
    if ints:
        il = ints[-1]
        ip = ints[0]
        out.append(("iL>=1", lambda: il >= 1))
        out.append(("iL+iP==2", lambda: il + ip == 2))
        out.append(("alldiff", lambda: alldifferent(ints)))
        out.append(("iL!=iL", lambda: il != il))
    if bools and ints:
        bl = bools[-1]
        il = ints[-1]
        out.append(("bL->iL==lo", lambda: bl.then(il == il.lo)))
        out.append(("bL.cond", lambda: bl.cond(il, 0 - il) < 0))
    out.append(("False", lambda: False))
    out.append(("and[]", lambda: fold_and([])))
    out.append(("or[]|cnt0", lambda: fold_or([]) | (count_true([]) == 0)))
    return out


class Session(object):
    """A real Solver driven by an event history."""

    def __init__(self):
        from cspuz import Solver

        self.s = Solver()
        self.kinds = []
        self.cons = []  # names, instantiated: (name, var ids at instantiation)
        self.ever_solved = False

    def bools(self):
        from cspuz.expr import BoolVar

        return [v for v in self.s.variables if isinstance(v, BoolVar)]

    def ints(self):
        from cspuz.expr import IntVar

        return [v for v in self.s.variables if isinstance(v, IntVar)]

    def enabled(self):
        ev = []
        if len(self.kinds) < MAX_VARS:
            ev += list(DECLS)
        if len(self.cons) < MAX_CONS:
            ev += ["E:" + n for n, _ in templates(self.bools(), self.ints())]
        ev.append("F")
        # solve() in the same session: registers every variable declared so far as an answer key (once each) and solves;
        # the find_answer that follows must not be disturbed by the None / decided values solve() leaves behind
        if self.kinds:
            ev.append("S")
        return ev

    def apply(self, ev, part=None, hist=None):
        if ev in DECLS:
            if DECLS[ev] is None:
                self.s.bool_var()
            else:
                self.s.int_var(*DECLS[ev])
            self.kinds.append(ev)
        elif ev.startswith("E:"):
            name = ev[2:]
            for n, build in templates(self.bools(), self.ints()):
                if n == name:
                    self.s.ensure(build())
                    self.cons.append((name, len(self.kinds)))
                    break
            else:
                raise harness_error("template %s not enabled" % name)
        elif ev == "S":
            import warnings

            for v in self.s.variables:
                if not self.s.is_answer_key[v.id]:
                    self.s.add_answer_key(v)
            variables = list(self.s.variables)
            try:
                with warnings.catch_warnings():
                    warnings.simplefilter("ignore")
                    r = self.s.solve(backend=BACKEND)
            except Exception as e:
                if part is not None:
                    part.violation("session-solve-raises-" + type(e).__name__, {"form": "session", "history": list(hist)}, {"exception": repr(e)[:200]})
                r = None
            if part is not None and r is not None:
                sols = refsem.solutions(variables, list(self.s.constraints))
                part.count("evaluations")
                part.count("session_solves")
                facts = refsem.exact_facts(variables, sols, [True] * len(variables)) if sols else None
                got = [v.sol for v in variables] if r else None
                if (r is True) != bool(sols) or (sols and got != facts):
                    part.violation("session-solve-wrong-facts", {"form": "session", "history": list(hist)}, {"returned": r, "sol": repr(got), "expected": repr(facts)})
            self.ever_solved = True
        elif ev == "F":
            if part is not None:
                self.judge(part, hist)
            else:
                try:
                    self.s.find_answer(backend=BACKEND)
                except Exception:
                    pass
            self.ever_solved = True

    def judge(self, part, hist):
        from cspuz import Solver

        case = {"form": "session", "history": list(hist)}
        variables = list(self.s.variables)
        res = check_program(part, variables, list(self.s.constraints), case, self.s, "session")
        part.count("session_solves")
        # differential: a fresh Solver given the same program by a solve-free history
        fresh = Session()
        for e in hist:
            if e not in ("F", "S"):
                fresh.apply(e)
        try:
            res2 = fresh.s.find_answer(backend=BACKEND)
        except Exception:
            res2 = "raises"
        if res is not None and res2 != res:
            part.violation("session-differs-from-fresh", case, {"in_session": res, "fresh": res2})

    def canon(self):
        return (tuple(self.kinds), tuple(sorted(self.cons)), self.ever_solved, tuple(self.s.is_answer_key))


def harness_error(msg):
    return RuntimeError(msg)


def build(hist):
    ses = Session()
    for e in hist:
        ses.apply(e)
    return ses


def session_worker_prefix(prefix, depth, part):
    """BFS restricted to histories starting with `prefix` (parallelisation by first events)."""
    seen = {build(prefix).canon()}
    frontier = collections.deque([list(prefix)])
    transitions = 0
    maxd = len(prefix)
    while frontier:
        hist = frontier.popleft()
        if len(hist) >= depth:
            continue
        base = build(hist)
        for ev in base.enabled():
            nxt = build(hist)
            nxt.apply(ev, part, hist + [ev])
            transitions += 1
            k = nxt.canon()
            if k not in seen:
                seen.add(k)
                frontier.append(hist + [ev])
                maxd = max(maxd, len(hist) + 1)
    for k in seen:
        part.add("states", k)
    part.count("transitions", transitions)
    part.maxi("depth", maxd)
    part.sample({"session_prefix": list(prefix), "states_below": len(seen)})


# ------------------------------------------------------------------- driver
# ------------------------------------------------------------------ aliasing
def alias_scenarios():
    """Programs in which an expression object (or a list handed to a constructor / helper / ensure) is *reused or changed
    by the caller after it was posted*: augmented assignment on a posted sum, a clause list extended after a node was
    built from it, one sub-expression object inside several constraints, a compound item given to a fold helper and
    used again.  Each scenario is written twice: `alias=True` performs those steps on shared objects, `alias=False`
    builds every constraint from fresh expressions; both must denote the same program."""
    from cspuz import count_true, fold_and, fold_or
    from cspuz.expr import BoolExpr, IntExpr, Op

    def decl(s):
        x, y, z = s.int_var(0, 3), s.int_var(0, 3), s.int_var(0, 3)
        b, c, d = s.bool_var(), s.bool_var(), s.bool_var()
        return x, y, z, b, c, d

    out = []

    def sc(name):
        def reg(fn):
            out.append((name, fn))
            return fn
        return reg

    for k1, k2 in ((2, 5), (2, 4), (6, 6), (0, 3)):
        @sc("iadd[%d,%d]" % (k1, k2))
        def _(s, alias, k1=k1, k2=k2):
            x, y, z, b, c, d = decl(s)
            if alias:
                acc = x + y
                s.ensure(acc == k1)
                acc += z
                s.ensure(acc == k2)
            else:
                s.ensure((x + y) == k1)
                s.ensure((x + y + z) == k2)

        @sc("isub[%d,%d]" % (k1, k2))
        def _(s, alias, k1=k1, k2=k2):
            x, y, z, b, c, d = decl(s)
            if alias:
                acc = x + y
                keep = acc
                acc -= z
                s.ensure(acc == k2 - 4, keep == k1)
            else:
                s.ensure(((x + y) - z) == k2 - 4, (x + y) == k1)

    for neg in (False, True):
        @sc("ior[%s]" % neg)
        def _(s, alias, neg=neg):
            x, y, z, b, c, d = decl(s)
            if alias:
                e = b | c
                s.ensure(~e if neg else e)
                e |= d
                s.ensure(e)
            else:
                s.ensure(~(b | c) if neg else (b | c))
                s.ensure(b | c | d)

        @sc("iand[%s]" % neg)
        def _(s, alias, neg=neg):
            x, y, z, b, c, d = decl(s)
            if alias:
                e = b & c
                s.ensure(e if neg else ~e)
                e &= d
                s.ensure(~e)
            else:
                s.ensure((b & c) if neg else ~(b & c))
                s.ensure(~(b & c & d))

        @sc("clause-list-extended[%s]" % neg)
        def _(s, alias, neg=neg):
            x, y, z, b, c, d = decl(s)
            if alias:
                lits = [b, c]
                e = BoolExpr(Op.OR, lits)
                s.ensure(BoolExpr(Op.NOT, [e]) if neg else e)
                lits.append(d)
                s.ensure(BoolExpr(Op.OR, lits))
                lits.reverse()
                lits.pop()
            else:
                e = BoolExpr(Op.OR, [b, c])
                s.ensure(BoolExpr(Op.NOT, [e]) if neg else e)
                s.ensure(BoolExpr(Op.OR, [b, c, d]))

        @sc("fold-item-reused[%s]" % neg)
        def _(s, alias, neg=neg):
            x, y, z, b, c, d = decl(s)
            if alias:
                e = (b | c) if not neg else (b & c)
                f = fold_or(e, d) if not neg else fold_and(e, d)
                s.ensure(~e if not neg else e)
                s.ensure(f if not neg else ~f)
                s.ensure(count_true(e, d) == (1 if not neg else 1))
            else:
                e1 = (b | c) if not neg else (b & c)
                s.ensure(~e1 if not neg else e1)
                f = fold_or((b | c), d) if not neg else fold_and((b & c), d)
                s.ensure(f if not neg else ~f)
                s.ensure(count_true((b | c) if not neg else (b & c), d) == 1)

    @sc("sub-terms-reordered")
    def _(s, alias):
        x, y, z, b, c, d = decl(s)
        if alias:
            terms = [x, y]
            e = IntExpr(Op.SUB, terms)
            s.ensure(e == 3)
            terms.reverse()
            terms.append(z)
            s.ensure(IntExpr(Op.ADD, terms) == 4)
        else:
            s.ensure(IntExpr(Op.SUB, [x, y]) == 3)
            s.ensure(IntExpr(Op.ADD, [y, x, z]) == 4)

    @sc("shared-subexpression")
    def _(s, alias):
        x, y, z, b, c, d = decl(s)
        if alias:
            t = x + y
            s.ensure(t >= 2)
            s.ensure((t + z) == 4, b.then(t == 3))
            s.ensure(t <= 3, (t == 2) | b)
        else:
            s.ensure((x + y) >= 2)
            s.ensure(((x + y) + z) == 4, b.then((x + y) == 3))
            s.ensure((x + y) <= 3, ((x + y) == 2) | b)

    @sc("ensure-list-changed-afterwards")
    def _(s, alias):
        x, y, z, b, c, d = decl(s)
        if alias:
            cons = [b, x >= 1]
            s.ensure(cons)
            cons.append(~b)
            cons[0] = c
        else:
            s.ensure(b, x >= 1)

    @sc("same-constraint-posted-twice")
    def _(s, alias):
        x, y, z, b, c, d = decl(s)
        if alias:
            e = (x + y) == 3
            s.ensure(e)
            s.ensure(e | b)
            s.ensure(~b | e)
        else:
            s.ensure((x + y) == 3)
            s.ensure(((x + y) == 3) | b)
            s.ensure(~b | ((x + y) == 3))

    return out


def run_alias(part):
    from cspuz import Solver

    for name, fn in alias_scenarios():
        case = {"form": "alias", "scenario": name}
        ref = Solver()
        try:
            fn(ref, False)
        except Exception as e:
            raise RuntimeError("aliasing scenario %s (reference form) failed: %r" % (name, e))
        sols = refsem.solutions(list(ref.variables), list(ref.constraints))
        s = Solver()
        try:
            fn(s, True)
        except Exception as e:
            part.violation("alias:%s:construction-raises-%s" % (name.split("[")[0], type(e).__name__), case, {"exception": repr(e)[:200]})
            continue
        check_program(part, list(s.variables), list(s.constraints), case, s, "alias", sols=sols)
        part.count("cspuz_trees")
        part.add("alias", name)


def worker(shard, part):
    what = shard[0]
    if what == "alias":
        run_alias(part)
        return
    if what == "terms":
        _, strat, lo, hi, domains, deep = shard
        lst = _TERMS[strat]
        for kind, src in lst[lo:hi]:
            run_term(part, kind, src, domains, strat, deep)
        if lo % 5000 == 0 and lo < len(lst):
            part.sample({"term": lst[lo][1], "kind": lst[lo][0], "domains": domains, "stratum": strat})
    elif what == "pairs":
        _, strat, lo, hi = shard
        lst = _TERMS[strat]
        n = len(lst)
        for idx in range(lo, hi):
            a, b = divmod(idx, n)
            run_pair(part, lst[a], lst[b], strat)
    elif what == "session":
        _, prefix, depth = shard
        session_worker_prefix(prefix, depth, part)
    elif what == "scale":
        run_scale(part, shard[1])


def prepare(tier):
    global _TERMS
    strata = build_strata(tier)
    _TERMS = dict(strata)
    # pair stratum: conjunctions of two 1-operator boolean constraints
    leaves = progs.MIN if tier == "quick" else progs.RED
    memo = {}
    pair_terms = progs.terms("bool", 1, leaves, memo) + progs.terms("bool", 0, leaves, memo)
    _TERMS["pairs"] = pair_terms
    return strata, pair_terms


def main(tier, seed, only=None):
    strata, pair_terms = prepare(tier)
    shards = []
    CH = 250
    for name, lst in strata.items():
        deep = name == "full-k01"
        for lo in range(0, len(lst), CH):
            shards.append(("terms", name, lo, min(len(lst), lo + CH), DOMAINS_STD, deep))
    # domain variants on the complete <=1-operator stratum
    for dv in DOMAIN_VARIANTS:
        lst = strata["full-k01"]
        for lo in range(0, len(lst), CH):
            shards.append(("terms", "full-k01", lo, min(len(lst), lo + CH), dv, False))
    npairs = len(pair_terms) ** 2
    for lo in range(0, npairs, 1500):
        shards.append(("pairs", "pairs", lo, min(npairs, lo + 1500)))
    for n in ((1, 2, 3, 31, 32, 33, 64, 65, 127, 128, 129, 200, 255, 256, 257, 1100) if tier == "quick" else (1, 2, 3, 15, 16, 17, 31, 32, 33, 63, 64, 65, 100, 127, 128, 129, 200, 255, 256, 257, 300, 400, 511, 512, 513, 1100, 3000)):
        shards.append(("scale", n))
    shards.append(("alias",))
    depth = 5 if tier == "quick" else 6
    # sessions: parallelise over the first two events
    first = build([]).enabled()
    for e1 in first:
        for e2 in build([e1]).enabled():
            shards.append(("session", (e1, e2), depth))
    if only:
        shards = [s for s in shards if s[0] == only or (len(s) > 1 and s[1] == only)]

    run = harness.Run(
        PID,
        tier,
        seed,
        "model_checking",
        "E1: all expression trees with k operator nodes built through every DSL constructor (dunder and reflected forms, "
        "cond/then in method and function form, count_true/fold_and/fold_or/alldifferent with 0-3 operands, array folds) "
        "over leaf sets FULL={i0,i1,-1,0,2 | b0,b1,True,False} (k<=1%s), RED={i0,i1,2 | b0,b1,True} and MIN={i0,1 | b0,False} "
        "(%s); each boolean root asserted, negated and checked for its whole truth table, each integer root compared with "
        "its min/max/max+1 (k<=1: every) attained value; <=1-operator stratum repeated under 4 more domain pairs "
        "(singleton, negative, wide); conjunctions of every ordered pair of <=1-operator boolean terms posted through 7 forms of ensure() (single, varargs, list, tuple, generator, "
        "map, nested iterators).  Scale family (not exhaustive): flat count_true / fold_or / fold_and / alldifferent and left-deep + / & chains over n pinned "
        "variables for n around 32, 64, 128, 256 (thorough 512), where the expected verdict is known by construction.  Aliasing: %d scripted programs in which a posted expression object, or a list given to a node constructor / fold helper / ensure, is reused or changed by the caller afterwards (augmented assignment, extended clause lists, shared sub-expressions), each compared with the same program built from fresh objects.  E2: BFS over sessions "
        "of declare/ensure/find_answer/solve events to depth %d (<= %d variables, <= %d constraints) with canonical-state dedup; "
        "each find_answer judged against brute-force solutions and against a fresh Solver.  Non-trivial = programs whose "
        "tree reached the backend (not folded by Python), counted per verdict." % (", k=2" if tier != "quick" else "", "k=2 quick; FULL k=2, RED k=2 and TINY={i0 | b0} k=3 thorough", len(alias_scenarios()), depth, MAX_VARS, MAX_CONS),
    )
    run.assumptions = [
        "backend under test: cspuz's Z3Backend on z3-solver as installed (the only backend runnable offline); sugar family is C03",
        "oracle: brute-force enumeration of declared domains with mc/refsem.py (n-ary SUB = left fold, empty AND true, empty OR false, ALLDIFF pairwise)",
        "session canonical state = (declaration order of kinds, multiset of posted templates, ever-solved flag); sound because "
        "find_answer rebuilds the backend from Solver.variables/constraints; the fresh-Solver differential is what exposes a change breaking that premise",
    ]
    par.run_shards(run, worker, shards, seed)
    sat = sum(v for k, v in run.total.outcomes.items() if k.endswith(":SAT"))
    unsat = sum(v for k, v in run.total.outcomes.items() if k.endswith(":UNSAT"))
    cov = {
        "states": run.n("states"),
        "transitions": run.c("transitions"),
        "traces_validated_against_impl": run.c("session_solves"),
        "evaluations": run.c("evaluations"),
        "distinct_nontrivial": run.c("cspuz_trees"),
        "programs_sat": sat,
        "programs_unsat": unsat,
        "max_depth": run.c("max:depth"),
        "bound": "operator nodes <= %s; session depth %d" % ("2 (3 on the one-variable-per-kind leaf set)" if tier != "quick" else "2", depth),
        "exhaustive": True,
        "shards": len(shards),
    }
    return run.finish(cov)


def replay(case):
    part = harness.Partial()
    if case["form"] == "term":
        doms = tuple(tuple(d) for d in case["domains"])
        run_term(part, case["kind"], case["src"], doms, "replay", True)
        mine = [v for v in part.violations if v.case.get("goal") == case.get("goal")] or part.violations
    elif case["form"] == "alias":
        run_alias(part)
        mine = [v for v in part.violations if v.case.get("scenario") == case.get("scenario")]
    elif case["form"] == "pair":
        run_pair(part, case["src"][0], case["src"][1], "replay")
        mine = part.violations
    else:
        hist = case["history"]
        ses = build(hist[:-1])
        ses.apply(hist[-1], part, hist)
        mine = part.violations
    return (not mine), (mine[0].detail if mine else "agrees with the oracle")
