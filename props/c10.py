"""C10 — crossable loop/path constraint admits exactly single self-crossing trails.

E1: BoolGridFrame sizes up to 12 (17) segments, ALL segment subsets,
single_cycle off/on (and the alias), auxiliary / native encoding; for admitted
subsets a second solve forces the two returned arrays.
"""

from mc import gcheck, graphref, harness, par
from props.c06 import frame_edges

PID = "C10"
_CASES = []


def oracle(h, w, segs, pattern, single_cycle):
    """Returns (admitted, visited flags, cross flags) for the lattice of an h x w frame."""
    W = w + 1
    npts = (h + 1) * W
    at = [[] for _ in range(npts)]  # per point: list of (direction, segment index)
    for k, (a, y, x, (p, q)) in enumerate(segs):
        if not pattern[k]:
            continue
        if a == "h":
            at[p].append(("R", k))
            at[q].append(("L", k))
        else:
            at[p].append(("D", k))
            at[q].append(("U", k))
    active = [k for k in range(len(segs)) if pattern[k]]
    parent = {k: k for k in active}

    def find(a):
        while parent[a] != a:
            parent[a] = parent[parent[a]]
            a = parent[a]
        return a

    ok = True
    vis = [False] * npts
    cross = [False] * npts
    for p in range(npts):
        d = len(at[p])
        y, x = divmod(p, W)
        interior = 0 < y < h and 0 < x < w
        vis[p] = d > 0
        if d == 0:
            continue
        if d == 3 or (d == 4 and not interior) or (single_cycle and d == 1):
            ok = False
            continue
        if d == 4:
            cross[p] = True
            byd = dict(at[p])
            parent[find(byd["L"])] = find(byd["R"])
            parent[find(byd["U"])] = find(byd["D"])
        elif d == 2:
            parent[find(at[p][0][1])] = find(at[p][1][1])
    if ok and len(set(find(k) for k in active)) > 1:
        ok = False
    return ok, vis, cross


def build(case):
    from cspuz import BoolGridFrame, Solver, graph

    s = Solver()
    if case.get("used"):
        gcheck.junk(s)
    h, w = case["shape"]
    consts = case.get("consts")  # frame from caller-built arrays: segments at odd positions are Python constants
    if consts is not None:
        from cspuz.array import BoolArray2D

        segs = frame_edges(h, w)
        cells_h, cells_v = [], []
        for k, (a, y, x, _) in enumerate(segs):
            v = bool(consts[k]) if k % 2 else s.bool_var()
            (cells_h if a == "h" else cells_v).append(v)
        fr = BoolGridFrame(s, h, w, horizontal=BoolArray2D(cells_h, (h + 1, w)), vertical=BoolArray2D(cells_v, (h, w + 1)))
    else:
        fr = BoolGridFrame(s, h, w)
    kw = {}
    # "intflags": the same options given as 1 / 0 instead of True / False (truthiness, not identity, is what callers rely on)
    flag = (lambda b: int(b)) if case.get("intflags") else (lambda b: b)
    if case["ugp"] != "default":
        kw["use_graph_primitive"] = flag(case["ugp"])
    if case["api"] == "alias":
        passed, cross = graph.active_edges_single_cycle_crossable(s, fr, **kw)
    else:
        passed, cross = graph.active_edges_connected_crossable(s, fr, single_cycle=flag(case["cycle"]), **kw)
    evars = [fr.horizontal[y, x] if a == "h" else fr.vertical[y, x] for a, y, x, _ in frame_edges(h, w)]
    return s, evars, passed, cross


def run_constframe(part, case, prange=None):
    """Frames built from caller-supplied arrays in which every second segment is a Python constant (a pre-drawn or
    forbidden segment): rebuilt for every pattern."""
    from cspuz.expr import BoolVar

    h, w = case["shape"]
    segs = frame_edges(h, w)
    cyc = case["cycle"]
    key = "crossable[%s,aux,const-frame]" % ("cycle" if cyc else "path")
    for pattern in gcheck.patterns(len(segs), prange):
        exp, vis, crs = oracle(h, w, segs, pattern, cyc)
        try:
            s, evars, passed, cross = build(dict(case, consts=list(pattern)))
        except Exception as e:
            part.violation(key + ":build-raises-" + type(e).__name__, dict(case, pattern=list(pattern)), {"exception": repr(e)[:300]})
            continue
        fixes = [gcheck.fix(v, b) for v, b in zip(evars, pattern) if isinstance(v, BoolVar)]
        gcheck.judge(part, key, case, pattern, exp, s, fixes)
    part.add("scale", (h, w, cyc, "const-frame"))


def run_case(part, case, prange=None):
    from cspuz.expr import BoolExpr, Op

    if case.get("constframe"):
        run_constframe(part, case, prange)
        return
    h, w = case["shape"]
    segs = frame_edges(h, w)
    cyc = case["cycle"] or case["api"] == "alias"
    prim = case["ugp"] is True or (case["ugp"] == "default" and case["cfg"])
    key = "crossable[%s,%s]" % ("cycle" if cyc else "path", "native" if prim else "aux")
    with gcheck.GraphConfig(use_graph_primitive=bool(case["cfg"])):
        try:
            s, evars, passed, cross = build(case)
        except Exception as e:
            part.violation(key + ":build-raises-" + type(e).__name__, case, {"exception": repr(e)[:300]})
            return
        part.count("evaluations")
        if tuple(passed.shape) != (h + 1, w + 1) or tuple(cross.shape) != (h + 1, w + 1):
            part.violation(key + ":result-shape", case, {"passed": repr(passed.shape), "cross": repr(cross.shape)})
            return
        nat = gcheck.count_native(s.constraints)
        if nat != (1 if prim else 0):
            part.violation(key + ":encoding-choice", case, {"native_operators": nat})
        pv, cv = list(passed), list(cross)
        pats = [tuple(bool(b) for b in pt) for pt in case["patterns"]] if "patterns" in case else gcheck.patterns(len(segs), prange)
        for pattern in pats:
            exp, vis, crs = oracle(h, w, segs, pattern, cyc)
            fixes = [gcheck.fix(v, b) for v, b in zip(evars, pattern)]
            got = gcheck.judge(part, key + ("{cross}" if any(crs) and exp else ""), case, pattern, exp, s, fixes)
            if exp and any(crs):
                part.count("admitted_with_crossing")
            if got and exp:
                differs = BoolExpr(Op.OR, [BoolExpr(Op.XOR, [a, b]) for a, b in zip(pv + cv, vis + crs)])
                part.count("evaluations")
                try:
                    if gcheck.decide(s, fixes + [differs]) is not False:
                        c = dict(case)
                        c["pattern"] = list(pattern)
                        part.violation(key + ":returned-arrays-not-forced", c, {"visited": vis, "cross": crs})
                except Exception as e:
                    c = dict(case)
                    c["pattern"] = list(pattern)
                    part.violation(key + ":raises-" + type(e).__name__, c, {"exception": repr(e)[:300]})
    if "patterns" in case:
        part.add("scale", (h, w, cyc, str(case["ugp"])))
    else:
        part.add("frames", (h, w))


def scale_cases(tier):
    from props.c06 import region_boundary

    out = []
    big = [(3, 3), (4, 4), (3, 5)] if tier == "quick" else [(3, 3), (4, 4), (3, 5), (5, 5), (4, 7), (6, 6)]
    for h, w in big:
        allc = [(y, x) for y in range(h) for x in range(w)]
        perimeter = region_boundary(h, w, allc)
        corridor = region_boundary(h, w, graphref.serpentine(h, w))
        xor = lambda a, b: [p != q for p, q in zip(a, b)]  # noqa: E731
        orr = lambda a, b: [p or q for p, q in zip(a, b)]  # noqa: E731
        pats = [perimeter, corridor, [False] * len(perimeter)]
        # figure eights: two cell squares touching at an interior point (their boundaries cross there)
        pats.append(orr(region_boundary(h, w, [(0, 0)]), region_boundary(h, w, [(1, 1)])))
        pats.append(orr(region_boundary(h, w, [(0, 0), (0, 1), (1, 0)]), region_boundary(h, w, [(1, 1), (1, 2), (2, 1), (2, 2)])) if h >= 3 and w >= 3 else perimeter)
        # two rectangles overlapping in one cell: their boundaries cross twice -> two separate strands
        if h >= 3 and w >= 3:
            pats.append(orr(region_boundary(h, w, [(0, 0), (0, 1), (1, 0), (1, 1)]), region_boundary(h, w, [(1, 1), (1, 2), (2, 1), (2, 2)])))
            pats.append(orr(perimeter, region_boundary(h, w, [(1, 1)])))  # disjoint cycles
        k = perimeter.index(True)
        broken = list(perimeter)
        broken[k] = False
        pats.append(broken)
        for cycle in (False, True):
            for ugp in (False, True):
                out.append({"shape": [h, w], "cycle": cycle, "api": "main", "ugp": ugp, "cfg": False, "patterns": pats})
    # large family: the auxiliary split graph of a 7x7 frame has more than 256 nodes
    for k in ((7,) if tier == "quick" else (7, 8, 10)):
        orr = lambda a, b: [p_ or q for p_, q in zip(a, b)]  # noqa: E731
        allc = [(y, x) for y in range(k) for x in range(k)]
        pats = [region_boundary(k, k, allc), orr(region_boundary(k, k, [(0, 0)]), region_boundary(k, k, [(k - 1, k - 1)])), region_boundary(k, k, [(k - 1, k - 1)]),
                orr(region_boundary(k, k, [(k - 2, k - 2)]), region_boundary(k, k, [(k - 1, k - 1)])), orr(region_boundary(k, k, [(0, k - 1)]), region_boundary(k, k, [(k - 1, 0)])),
                region_boundary(k, k, graphref.serpentine(k, k))]
        for cycle in (False, True):
            for ugp in (False, True):
                out.append({"shape": [k, k], "cycle": cycle, "api": "main", "ugp": ugp, "cfg": False, "patterns": pats})
    # weaves: the longest self-crossing closed strands of mid-sized frames (found by a complete scan of the cycle space,
    # tools/gen_weaves.py; only the inputs are stored, the oracle judges them here), each also opened and with a spur
    import json
    import os

    weaves = json.load(open(os.path.join(harness.VERIF, "mc", "data", "weaves.json")))
    boards = ["3x3", "3x4", "4x3", "4x4", "4x5", "5x4"] if tier == "quick" else sorted(weaves)
    for name in boards:
        h, w = (int(t) for t in name.split("x"))
        pats = []
        for k, entry in enumerate(weaves[name]):
            pat = [bool(b) for b in entry["pattern"]]
            pats.append(pat)
            if k < 2 or tier != "quick":
                opened = list(pat)
                opened[pat.index(True)] = False
                pats.append(opened)
                if False in pat:
                    spur = list(pat)
                    spur[len(pat) - 1 - pat[::-1].index(False)] = True
                    pats.append(spur)
        for cycle in (False, True):
            for ugp in (False, True):
                if tier == "quick" and h * w >= 20 and ugp:
                    continue
                out.append({"shape": [h, w], "cycle": cycle, "api": "main", "ugp": ugp, "cfg": False, "patterns": pats, "family": "weave"})
    return out


def cases_for(tier):
    out = []
    frames = [(0, 0), (1, 0), (0, 1), (1, 1), (1, 2), (2, 1), (2, 2)]
    if tier != "quick":
        frames += [(0, 3), (3, 0), (1, 3), (3, 1), (1, 4), (4, 1)]  # (17-segment frames: ~3 CPU hours each, run during development only)
    for h, w in frames:
        m = (h + 1) * w + h * (w + 1)
        for cycle, api in ((False, "main"), (True, "main"), (True, "alias")):
            for ugp, cfg in ((False, False), (True, False), ("default", True)):
                if api == "alias" and ugp != False:  # noqa: E712
                    continue
                if (ugp, cfg) == ("default", True) and m > 7:
                    continue
                if tier == "quick" and m >= 12 and (api == "alias" or (ugp is True and cycle)):
                    continue
                if m >= 17 and (ugp is not False or api == "alias"):
                    continue
                # the two 17-segment frames (131072 subsets, two solves each: ~3 CPU hours per (frame, mode)) are split:
                # closed strands on 2x3, open ones on 3x2
                if m >= 17 and (cycle != ((h, w) == (2, 3)) or (h, w) == (3, 2)):
                    continue  # (the 3x2 frame with open strands would add another ~3 CPU hours; its 2^17 subsets are covered for C06)
                out.append({"shape": [h, w], "cycle": cycle, "api": api, "ugp": ugp, "cfg": cfg})
    return out


def _small(c):
    """Cases cheap enough to repeat on a Solver that is already in use."""
    if "shape" in c:
        return (c["shape"][0] + 1) * (c["shape"][1] + 1) <= 6
    return c.get("n", 9) <= 3 and len(c.get("edges", ())) <= 4


def prepare(tier):
    global _CASES
    base_cases = cases_for(tier)
    used = [dict(c, used=True) for c in base_cases[:: (7 if tier == "quick" else 3)] if _small(c)]
    for (h, w) in ([(1, 1), (0, 3), (1, 2), (2, 1), (0, 4)] if tier == "quick" else [(1, 1), (0, 3), (3, 0), (1, 2), (2, 1), (0, 4), (1, 3), (3, 1), (2, 2)]):
        for cycle in (False, True):
            used.append({"shape": [h, w], "cycle": cycle, "api": "main", "ugp": False, "cfg": False, "constframe": True})
    # an explicit use_graph_primitive=False must win over a global default of True
    used += [dict(c, cfg=True) for c in base_cases if c["api"] == "main" and c["ugp"] is False and nseg(c) <= 7]
    used += [dict(c, intflags=True) for c in base_cases if c["api"] == "main" and c["ugp"] != "default" and nseg(c) <= (7 if tier == "quick" else 12) and nseg(c) >= 4]
    _CASES = base_cases + used + scale_cases(tier)
    return _CASES


def nseg(c):
    h, w = c["shape"]
    return (h + 1) * w + h * (w + 1)


def worker(shard, part):
    gcheck.BRUTE_LIMIT = _BRUTE[0]
    lo, hi, plo, phi = shard
    for case in _CASES[lo:hi]:
        run_case(part, case, None if plo is None else (plo, phi))
    if plo in (None, 0):
        part.sample(_CASES[lo])


def _describe(shard):
    lo, hi, plo, phi = shard
    c = _CASES[lo]
    return "%d case(s) %s %s" % (hi - lo, (plo, phi), {k: (v if not isinstance(v, (list, tuple)) or len(v) < 6 else "[%d]" % len(v)) for k, v in c.items()})


worker.describe = _describe


_BRUTE = [300]


def main(tier, seed, only=None):
    _BRUTE[0] = 300 if tier == "quick" else 5000
    cases = prepare(tier)
    run = harness.Run(
        PID,
        tier,
        seed,
        "exploration",
        "BoolGridFrame sizes %s; ALL 2^m segment subsets; single_cycle off/on and the single_cycle_crossable alias; auxiliary and "
        "native connectivity encodings (17-segment frames: auxiliary only, the 2x3 frame with single_cycle on only).  Scale family (not exhaustive): the 7x7 frame (thorough 10x10) with loops in opposite corners, and on frames up to 4x4 / 3x5 (thorough 6x6) the perimeter, the serpentine "
        "boundary, figure eights, two overlapping rectangles (two strands), disjoint cycles, an open perimeter; weaves: the longest self-crossing closed strands of the 3x3 .. 4x5 (thorough 5x5) frames from a complete scan of the cycle space, each also opened / with a spur; options also given as 1 / 0.  Oracle: per-point degree rule (0/1/2/4, no 1 for "
        "cycles, 4 only at interior points) and one strand in the segment graph where the two straight pairs pass through each other "
        "at 4-way points; for every admitted subset OR(returned != expected) over both returned arrays must be UNSAT."
        % ("0x0 .. 2x2 (<= 12 segments)" if tier == "quick" else "0x0 .. 2x2, 0x3, 1x3, 1x4, 2x3 and transposes (<= 17 segments)"),
    )
    run.assumptions = ["encoding + cspuz z3 backend under test; native route via R-native", "3x3 and larger frames rest on the small-scope argument (local degree rules + connectivity of the split graph)"]
    shards = gcheck.split_shards(cases, lambda c: 40 * len(c['patterns']) if 'patterns' in c else 1 << nseg(c), 128 if tier == "quick" else 512)
    first, rest = gcheck.heavy_first(shards, _CASES)
    par.run_shards(run, worker, rest, seed, first=first)
    cov = {
        "evaluations": run.c("evaluations"),
        "distinct_nontrivial": sum(1 << ((h + 1) * w + h * (w + 1)) for h, w in run.total.sets.get("frames", ())),
        "frames": run.n("frames"),
        "cases": len(cases),
        "exhaustive": True,
    }
    return run.finish(cov)


def replay(case):
    part = harness.Partial()
    pattern = case.get("pattern")
    c = {k: v for k, v in case.items() if k != "pattern"}
    run_case(part, c)
    mine = [v for v in part.violations if pattern is None or v.case.get("pattern") == pattern]
    return (not mine), (mine[0].detail if mine else "agrees with the oracle")
