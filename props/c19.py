"""C19 — problem generation is sound and reproducible under the deterministic PRNG.

E2 + E3.  (A) neighbour soundness: BFS over the problems reachable through the
real build_neighbor_generator for a family of builder patterns, with the raw
PRNG output scripted (reduced domain D, pairwise-complete sweep of consecutive
draws); invariant per produced neighbour.  (B) generate_problem with solver
callback, uniqueness test, pretest and PRNG all driven by a choice tape.  (C)
raw-draw -> result mapping of randint / choice / shuffle / random for every raw
value at reduced domain sizes.  (D) reproducibility: same seed, different
global `random` state and a differently behaving but equally answering solver
callback must give the same candidate sequence and result.
"""

import copy
import os
import sys
import itertools
import random as pyrandom
from fractions import Fraction

from mc import graphref, harness, par, tape

PID = "C19"


class Horizon(Exception):
    pass


class SweepRng(object):
    """Raw source whose k-th output is (offset + k*stride) mod D: over all (offset, stride) every pair of consecutive
    draws takes every pair of values."""

    def __init__(self, offset, stride, D):
        self.k = 0
        self.offset, self.stride, self.D = offset, stride, D

    def next(self):
        v = (self.offset + self.k * self.stride) % self.D
        self.k += 1
        if self.k > 100000:
            raise Horizon()
        return v


class TapeRng(object):
    def __init__(self, tp, D, max_draws):
        self.tp, self.D, self.max_draws, self.n = tp, D, max_draws, 0
        self.raw = []

    def next(self):
        self.n += 1
        if self.n > self.max_draws:
            raise Horizon()
        v = self.tp.choose(self.D)
        self.raw.append(v)
        return v


class PrngEnv(object):
    """Installs a scripted raw source behind cspuz.generator.deterministic_random and enables it."""

    def __init__(self, rng, D):
        self.rng, self.D = rng, D

    def __enter__(self):
        from cspuz.generator import deterministic_random as dr
        from cspuz.generator import srandom

        self.saved = (dr._rng, dr._XORSHIFT_DOMAIN_SIZE, srandom._use_deterministic_prng)
        srandom.use_deterministic_prng(True, 0)
        dr._rng = self.rng
        dr._XORSHIFT_DOMAIN_SIZE = self.D
        return self

    def __exit__(self, *a):
        from cspuz.generator import deterministic_random as dr
        from cspuz.generator import srandom

        dr._rng, dr._XORSHIFT_DOMAIN_SIZE, srandom._use_deterministic_prng = self.saved


def freeze(p):
    if isinstance(p, (list, tuple)):
        return tuple(freeze(x) for x in p)
    return p


# ------------------------------------------------------------------ (A) patterns
def patterns(tier):
    from cspuz.generator import ArrayBuilder2D, Choice, SegmentationBuilder2D

    out = []
    out.append(("choice-list", lambda: [Choice([0, 1, 2], 0), Choice([0, 1], 1), Choice(["a", "b", "c"], "a")],
                {"kind": "choices", "sets": {(0,): [0, 1, 2], (1,): [0, 1], (2,): ["a", "b", "c"]}}))
    out.append(("choice-pair", lambda: [Choice([0, 1, 2], 0), Choice([0, 1], 0)], {"kind": "choices", "sets": {(0,): [0, 1, 2], (1,): [0, 1]}}))
    out.append(("nested", lambda: ([Choice([0, 1], 0), 7], (Choice([0, 1, 2], 2), [Choice([5, 6], 5)])),
                {"kind": "choices", "sets": {(0, 0): [0, 1], (0, 1): None, (1, 0): [0, 1, 2], (1, 1, 0): [5, 6]}}))
    for (h, w) in ((1, 2), (2, 2), (1, 3), (2, 3)) + (((3, 3),) if tier != "quick" else ()):
        for opts in ({}, {"symmetry": True}, {"disallow_adjacent": True}, {"disallow_adjacent": True, "symmetry": True},
                     {"disallow_adjacent": [(-1, -1), (1, 1), (0, 1), (0, -1)]}, {"use_move": True}, {"use_move": True, "symmetry": True}):
            if (h, w) == (3, 3) and opts not in ({}, {"symmetry": True}, {"disallow_adjacent": True}):
                continue
            name = "array%dx%d%s" % (h, w, "".join("," + k + ("" if v is True else "*") for k, v in sorted(opts.items())))
            out.append((name, (lambda h=h, w=w, opts=opts: ArrayBuilder2D(h, w, [0, 1, 2], default=0, **opts)), {"kind": "array", "h": h, "w": w, "opts": opts}))
    # a user-supplied initial board with givens that are not in the choice list (pre-filled cells)
    for opts in ({"disallow_adjacent": True}, {"disallow_adjacent": True, "symmetry": True}, {"symmetry": True}, {}):
        tag = "".join("," + k for k in sorted(opts))
        out.append(("array2x3-givens" + tag, (lambda opts=opts: ArrayBuilder2D(2, 3, [0, 1, 2], default=0, initial=[[9, 0, 0], [0, 0, 9]], **opts)),
                    {"kind": "array", "h": 2, "w": 3, "opts": opts, "default": 0, "alphabet": [0, 1, 2, 9]}))
        out.append(("array1x3-givens" + tag, (lambda opts=opts: ArrayBuilder2D(1, 3, [0, 1], default=0, initial=[[0, 9, 0]], **opts)),
                    {"kind": "array", "h": 1, "w": 3, "opts": opts, "default": 0, "alphabet": [0, 1, 9]}))

    def fresh_board(h, w, make):
        return [[make() for _ in range(w)] for _ in range(h)]

    for opts in ({"symmetry": True}, {"symmetry": True, "disallow_adjacent": True}, {}):
        tag = "".join("," + k for k in sorted(opts))
        # values outside the small-int cache; the default object and the cells of the initial board are distinct objects
        out.append(("array2x3-bigints" + tag, (lambda opts=opts: ArrayBuilder2D(2, 3, [int("999"), int("1000"), int("1001")], default=int("999"),
                                                                         initial=fresh_board(2, 3, lambda: int("999")), **opts)),
                    {"kind": "array", "h": 2, "w": 3, "opts": opts, "default": 999, "alphabet": [999, 1000, 1001]}))
        out.append(("array1x3-strings" + tag, (lambda opts=opts: ArrayBuilder2D(1, 3, ["".join([".", "."]), "".join(["^", "1"]), "".join(["v", "2"])], default="".join([".", "."]),
                                                                         initial=fresh_board(1, 3, lambda: "".join([".", "."])), **opts)),
                    {"kind": "array", "h": 1, "w": 3, "opts": opts, "default": "..", "alphabet": ["..", "^1", "v2"]}))
    out.append(("array2x2-in-tuple", lambda: (ArrayBuilder2D(2, 2, [0, 1], default=0), Choice([3, 4], 3)), {"kind": "tuple-array"}))
    for (h, w) in ((2, 2), (2, 3)):
        out.append(("segmentation%dx%d" % (h, w), (lambda h=h, w=w: (SegmentationBuilder2D(h, w, min_block_size=1, max_block_size=3), [Choice([-1, 0, 1], -1) for _ in range(h)])),
                    {"kind": "segmentation", "h": h, "w": w}))
    return out


def leaves(p, path=()):
    if isinstance(p, (list, tuple)):
        for i, x in enumerate(p):
            for y in leaves(x, path + (i,)):
                yield y
    else:
        yield path, p


def shape_of(p):
    if isinstance(p, list):
        return ("L", tuple(shape_of(x) for x in p))
    if isinstance(p, tuple):
        return ("T", tuple(shape_of(x) for x in p))
    return "."


def check_neighbor(meta, cur, nxt):
    """None if `nxt` is a legal neighbour of `cur` for this pattern family, else a reason."""
    kind = meta["kind"]
    if kind in ("choices",):
        if shape_of(cur) != shape_of(nxt):
            return "container-structure-changed"
        for (pa, a), (pb, b) in zip(leaves(cur), leaves(nxt)):
            if a != b:
                allowed = meta["sets"].get(pa)
                if allowed is None:
                    return "constant-leaf-changed"
                if b not in allowed:
                    return "value-outside-the-choice-set"
        return None
    if kind == "array":
        return check_array(meta, cur, nxt, [0, 1, 2])
    if kind == "tuple-array":
        if not isinstance(nxt, tuple) or len(nxt) != 2:
            return "container-structure-changed"
        if nxt[1] != cur[1]:
            if nxt[0] != cur[0] or nxt[1] not in (3, 4):
                return "two-fields-changed-or-foreign-value"
            return None
        return check_array({"h": 2, "w": 2, "opts": {}}, cur[0], nxt[0], [0, 1])
    if kind == "segmentation":
        if not isinstance(nxt, tuple) or len(nxt) != 2:
            return "container-structure-changed"
        h, w = meta["h"], meta["w"]
        seg_changed = freeze_seg(nxt[0]) != freeze_seg(cur[0])
        clue_diff = sum(1 for a, b in zip(cur[1], nxt[1]) if a != b)
        if seg_changed and clue_diff:
            return "two-fields-changed"
        if not seg_changed and clue_diff != 1:
            return "differs-at-%d-positions" % clue_diff
        if any(v not in (-1, 0, 1) for v in nxt[1]):
            return "foreign-value"
        cells = sorted(tuple(c) for b in nxt[0] for c in b)
        if cells != [(y, x) for y in range(h) for x in range(w)]:
            return "segmentation-not-a-partition"
        edges = graphref.grid_edges(h, w)
        for b in nxt[0]:
            if not (1 <= len(b) <= 3) or not graphref.induced_connected(h * w, edges, [y * w + x for (y, x) in b]):
                return "segmentation-block-invalid"
        return None
    return "unknown-pattern"


def freeze_seg(blocks):
    return tuple(sorted(tuple(sorted(map(tuple, b))) for b in blocks))


def symmetric(grid, h, w, default=0):
    return all((grid[y][x] != default) == (grid[h - 1 - y][w - 1 - x] != default) for y in range(h) for x in range(w))


def adjacent_pairs(grid, h, w, offsets, default=0):
    n = 0
    for y in range(h):
        for x in range(w):
            if grid[y][x] == default:
                continue
            for dy, dx in offsets:
                y2, x2 = y + dy, x + dx
                if 0 <= y2 < h and 0 <= x2 < w and grid[y2][x2] != default:
                    n += 1
    return n


def check_array(meta, cur, nxt, alphabet):
    h, w, opts = meta["h"], meta["w"], meta["opts"]
    default = meta.get("default", 0)
    alphabet = meta.get("alphabet", alphabet)
    if not (isinstance(nxt, list) and len(nxt) == h and all(isinstance(r, list) and len(r) == w for r in nxt)):
        return "array-shape-changed"
    if any(v not in alphabet for r in nxt for v in r):
        return "foreign-value"
    diff = [(y, x) for y in range(h) for x in range(w) if cur[y][x] != nxt[y][x]]
    if opts.get("symmetry") and symmetric(cur, h, w, default) and not symmetric(nxt, h, w, default):
        return "point-symmetry-lost"
    da = opts.get("disallow_adjacent")
    if da and not opts.get("use_move"):
        offsets = [(-1, 0), (1, 0), (0, -1), (0, 1)] if da is True else da
        # a value-setting update must not create a new adjacent pair of non-default cells
        sets_value = any(nxt[y][x] != default and cur[y][x] == default for (y, x) in diff)
        if sets_value and adjacent_pairs(nxt, h, w, offsets, default) > adjacent_pairs(cur, h, w, offsets, default):
            return "adjacent-non-default-cells-created"
    return None


def run_pattern(part, name, make, meta, D, state_cap):
    from cspuz.generator import build_neighbor_generator
    from cspuz.generator import segmentation as seg

    from cspuz.generator import srandom as _sr

    case = {"pattern": name}
    saved_seg = {k: getattr(seg, k) for k in ("random", "srandom") if hasattr(seg, k)}
    saved_shuffle = _sr.shuffle
    # the order in which the same neighbour set is yielded is not observable by this invariant; (B) explores it
    _sr.shuffle = lambda seq: None
    try:
        with PrngEnv(SweepRng(0, 1, D), D):
            # segmentation draws through its own module-level source: script it as well (same sweep object semantics)
            from props.c18 import Scripted

            for k in saved_seg:
                setattr(seg, k, Scripted(0))
            pattern = make()
            initial, gen = build_neighbor_generator(pattern)
        seen = {freeze(initial): initial}
        produced = []  # (object, snapshot) of everything handed out
        frontier = [initial]
        depth = 0
        while frontier and len(seen) < state_cap:
            depth += 1
            nxt_frontier = []
            for cur in frontier:
                snap = copy.deepcopy(cur)
                for offset in range(D):
                    for stride in range(D):
                        for k in saved_seg:
                            setattr(seg, k, Scripted(offset * D + stride))
                        with PrngEnv(SweepRng(offset, stride, D), D):
                            try:
                                neigh = list(gen(cur))
                            except Horizon:
                                part.count("sweeps_cut_by_horizon")
                                continue
                            except Exception as e:
                                part.violation("neighbor-generator-raises-" + type(e).__name__, dict(case, current=snap), {"exception": repr(e)[:200]})
                                continue
                        part.count("generator_runs")
                        if cur != snap:
                            part.violation("current-problem-mutated", dict(case, current=snap), {"now": copy.deepcopy(cur)})
                            return
                        for nb in neigh:
                            part.count("transitions")
                            why = check_neighbor(meta, cur, nb)
                            if why:
                                part.violation("neighbor:" + why + "[" + meta["kind"] + "]", dict(case, current=snap, neighbor=copy.deepcopy(nb)), {})
                                continue
                            key = freeze(nb) if meta["kind"] != "segmentation" else (freeze_seg(nb[0]), freeze(nb[1]))
                            if key not in seen:
                                seen[key] = nb
                                produced.append((nb, copy.deepcopy(nb)))
                                nxt_frontier.append(nb)
            frontier = nxt_frontier
            if depth >= (3 if meta["kind"] == "segmentation" else 99):
                break
        for obj, snap in produced:
            if obj != snap:
                part.violation("earlier-problem-mutated", dict(case), {"was": snap, "now": obj})
                break
        for k in seen:
            part.add("states", (name, k))
        part.maxi("depth", depth)
        if frontier and len(seen) >= state_cap:
            part.count("patterns_capped")
    finally:
        _sr.shuffle = saved_shuffle
        for k, v in saved_seg.items():
            setattr(seg, k, v)


# ------------------------------------------------------------------ (B) generate_problem
ANSWERS = ["unsat", "sat-nonunique-0", "sat-nonunique-1", "sat-nonunique-2", "sat-unique"]


def run_generate(part, name, make, meta, max_steps, max_dev, D):
    from cspuz.generator import generate_problem

    case = {"generate": name, "max_steps": max_steps}

    def one(tp):
        log = []
        rng = TapeRng(tp, D, 400)

        def solver(problem):
            a = ANSWERS[tp.choose(len(ANSWERS))]
            log.append((copy.deepcopy(problem), a, problem))
            if a == "unsat":
                return (False, None, None)
            return (True, int(a[-1]) if a != "sat-unique" else 3, a == "sat-unique")

        def pretest(problem):
            ok = tp.choose(2) == 0
            log.append((copy.deepcopy(problem), "pretest-" + ("pass" if ok else "reject"), problem))
            return ok

        with PrngEnv(rng, D):
            try:
                pattern = make()
                res = generate_problem(solver, builder_pattern=pattern, score=lambda s, u: s, uniqueness=lambda s, u: u, pretest=pretest,
                                       max_steps=max_steps, clue_penalty=lambda p: 0)
            except Horizon:
                return ("horizon", None, log)
            except tape.ReplayDivergence:
                raise
            except Exception as e:
                return ("raises", e, log)
        return ("ok", res, log)

    n = 0
    it = tape.explore(one, max_deviations=max_dev)
    while True:
        try:
            choices, (st, res, log) = next(it)
        except StopIteration:
            break
        except tape.ReplayDivergence as e:
            # replaying a recorded prefix took a different path: generate_problem consulted a source of randomness that is
            # neither the scripted deterministic PRNG nor one of the scripted callbacks
            part.violation("generate_problem:nondeterminism-outside-the-deterministic-prng", case, {"divergence": str(e)})
            break
        n += 1
        part.count("transitions")
        c = dict(case, tape=choices)
        if st == "horizon":
            part.count("executions_cut_by_horizon")
            continue
        if st == "raises":
            part.violation("generate_problem-raises-" + type(res).__name__, c, {"exception": repr(res)[:200]})
            continue
        solved = [(p, a, obj) for (p, a, obj) in log if not a.startswith("pretest")]
        uniques = [k for k, (p, a, obj) in enumerate(solved) if a == "sat-unique"]
        part.outcome("generate:" + ("returned" if res is not None else "none"))
        if res is None:
            if uniques:
                part.violation("generate_problem:none-although-a-unique-problem-was-seen", c, {"unique_at": uniques[0]})
            continue
        if not uniques:
            part.violation("generate_problem:returned-a-problem-that-was-not-accepted", c, {"returned": res})
            continue
        first = solved[uniques[0]]
        if res != first[0] or uniques[0] != len(solved) - 1:
            part.violation("generate_problem:not-the-first-unique-problem", c, {"returned": res, "first_unique": first[0], "calls": len(solved)})
            continue
        # pretest-rejected problems must not reach the solver
        for k, (p, a, obj) in enumerate(log):
            if a == "pretest-reject" and k + 1 < len(log) and not log[k + 1][1].startswith("pretest") and log[k + 1][2] is obj:
                part.violation("generate_problem:pretest-rejected-problem-was-solved", c, {"problem": p})
        # every problem handed to the callback is a neighbour of the initial problem or of an earlier SAT problem
        with PrngEnv(SweepRng(0, 1, D), D):
            from cspuz.generator import build_neighbor_generator

            initial, _ = build_neighbor_generator(make())
        bases = [initial]
        for (p, a, obj) in solved:
            if not any(check_neighbor(meta, b, p) is None for b in bases):
                part.violation("generate_problem:callback-got-a-non-neighbour", c, {"problem": p})
                break
            if a.startswith("sat"):
                bases.append(p)
        for (p, a, obj) in log:
            if obj != p:
                part.violation("generate_problem:problem-mutated-after-being-handed-out", c, {"was": p, "now": copy.deepcopy(obj)})
                break
    part.count("generate_executions", n)


# ------------------------------------------------------------------ (C) PRNG mapping
def dist_of(fn, D, max_draws=3):
    """Exact distribution of fn() over the scripted raw source: dict result -> Fraction, plus cut-off mass."""
    dist = {}
    cut = Fraction(0)

    def one(tp):
        rng = TapeRng(tp, D, max_draws)
        with PrngEnv(rng, D):
            try:
                r = fn()
            except Horizon:
                return ("horizon", None, rng.n - 1)
            except tape.ReplayDivergence:
                raise
            except Exception as e:
                return ("raises", e, rng.n)
        return ("ok", r, rng.n)

    err = None
    nexec = 0
    for choices, (st, r, ndraw) in tape.explore(one):
        nexec += 1
        wgt = Fraction(1, D ** ndraw)
        if st == "horizon":
            cut += wgt
        elif st == "raises":
            err = r
        else:
            key = freeze(r)
            dist[key] = dist.get(key, Fraction(0)) + wgt
    return dist, cut, err, nexec


def run_prng(part, D):
    from cspuz.generator import srandom

    # randint: exact uniformity over [a, b], conditional on the draws not being cut off
    for a in range(-3, 4):
        for wdt in range(1, D + 1):
            b = a + wdt - 1
            case = {"prng": "randint", "a": a, "b": b, "D": D}
            rejecting = D % wdt != 0
            depth = 7 if (rejecting and D % wdt <= 2 and D <= 16) else 2  # <= 2 rejected raw values: the redraw tree stays small
            dist, cut, err, nexec = dist_of(lambda: srandom.randint(a, b), D, depth)
            part.count("transitions", nexec)
            if err is not None:
                part.violation("randint:raises-" + type(err).__name__, case, {"exception": repr(err)[:200]})
                continue
            total = sum(dist.values())
            want = {v: total / wdt for v in range(a, b + 1)}
            if dist != want:
                key = "randint:" + ("outside-the-range" if any(k < a or k > b for k in dist) else "not-uniform")
                part.violation(key, case, {"distribution": {str(k): str(v) for k, v in sorted(dist.items())}})
            else:
                part.add("nontrivial", ("randint", D, a, b))
            # rejection: the raw values >= limit must redraw (mass of accepted first draws == limit / D)
            limit = D - D % wdt
            first = {}
            for x in range(D):
                rng = SweepRng(x, 0 if x < limit else 1, D)  # constant stream; for rejected values step on
                with PrngEnv(rng, D):
                    try:
                        r = srandom.randint(a, b)
                    except Exception as e:
                        part.violation("randint:raises-" + type(e).__name__, dict(case, raw=x), {"exception": repr(e)[:200]})
                        continue
                if (rng.k == 1) != (x < limit):
                    part.violation("randint:rejection-rule", dict(case, raw=x), {"draws": rng.k, "limit": limit})
                first[x] = r
    # invalid domains
    for a, b in ((1, 0), (0, D)):
        part.count("transitions")
        with PrngEnv(SweepRng(0, 1, D), D):
            try:
                srandom.randint(a, b)
                part.violation("randint:invalid-domain-accepted", {"prng": "randint", "a": a, "b": b, "D": D}, {})
            except ValueError:
                pass
            except Exception as e:
                part.violation("randint:raises-" + type(e).__name__, {"prng": "randint", "a": a, "b": b, "D": D}, {"exception": repr(e)[:200]})
    # choice
    for n in range(1, 6):
        seq = ["c%d" % i for i in range(n)]
        dist, cut, err, nexec = dist_of(lambda: srandom.choice(seq), D, 2)
        part.count("transitions", nexec)
        total = sum(dist.values())
        if err is not None or dist != {s: total / n for s in seq}:
            part.violation("choice:not-uniform", {"prng": "choice", "n": n, "D": D}, {"distribution": {str(k): str(v) for k, v in dist.items()}, "error": repr(err)})
        else:
            part.add("nontrivial", ("choice", D, n))
    part.count("transitions")
    with PrngEnv(SweepRng(0, 1, D), D):
        try:
            srandom.choice([])
            part.violation("choice:empty-accepted", {"prng": "choice", "n": 0, "D": D}, {})
        except ValueError:
            pass
        except Exception as e:
            part.violation("choice:raises-" + type(e).__name__, {"prng": "choice", "n": 0, "D": D}, {"exception": repr(e)[:200]})
    # shuffle: every permutation equally often (only where no rejection occurs: (i+1) | D for all i < n)
    for n in range(0, 5):
        if any(D % (i + 1) for i in range(1, n)):
            continue

        def sh():
            s = list(range(n))
            srandom.shuffle(s)
            return s

        dist, cut, err, nexec = dist_of(sh, D, max(1, n))
        part.count("transitions", nexec)
        perms = {tuple(p): Fraction(1, len(list(itertools.permutations(range(n))))) for p in itertools.permutations(range(n))}
        if err is not None or dist != perms:
            part.violation("shuffle:not-uniform", {"prng": "shuffle", "n": n, "D": D}, {"distinct": len(dist), "error": repr(err)})
        else:
            part.add("nontrivial", ("shuffle", D, n))
    # random(): D equally spaced values in [0, 1)
    dist, cut, err, nexec = dist_of(lambda: srandom.random(), D, 1)
    part.count("transitions", nexec)
    want = {float(x) / D: Fraction(1, D) for x in range(D)}
    if err is not None or dist != want or any(not (0.0 <= k < 1.0) for k in dist):
        part.violation("random:not-uniform-on-[0,1)", {"prng": "random", "D": D}, {"values": sorted(dist)[:10]})
    else:
        part.add("nontrivial", ("random", D))


def run_real_prng(part):
    """The real XorShift source (full 2^32 domain): results stay inside the requested range for extreme ranges, long
    shuffles are permutations, and equal seeds give equal streams whatever Python's global random state is."""
    from cspuz.generator import deterministic_random as dr
    from cspuz.generator import srandom

    ranges = [(3, 5), (-7, -7), (0, 2 ** 32 - 1), (-2 ** 31, 2 ** 31 - 1), (10 ** 9, 10 ** 9 + 2 ** 32 - 1), (255, 257), (0, 2 ** 31), (-5, 2 ** 31 + 3)]
    for seed_value in range(4):
        streams = []
        for py_seed in (1, 2):
            pyrandom.seed(py_seed)
            srandom.use_deterministic_prng(True, seed_value)
            out = []
            try:
                for (a, b) in ranges:
                    for _ in range(300):
                        part.count("transitions")
                        v = srandom.randint(a, b)
                        out.append(v)
                        if not (a <= v <= b) or isinstance(v, bool) or not isinstance(v, int):
                            part.violation("randint:outside-the-range(real-prng)", {"prng": "real", "a": a, "b": b, "seed": seed_value}, {"value": v})
                            return
                lst = list(range(300))
                srandom.shuffle(lst)
                if sorted(lst) != list(range(300)):
                    part.violation("shuffle:not-a-permutation(real-prng)", {"prng": "real", "seed": seed_value}, {})
                out.append(tuple(lst))
                for _ in range(300):
                    c = srandom.choice(lst)
                    f = srandom.random()
                    out.append((c, f))
                    if c not in range(300) or not (0.0 <= f < 1.0):
                        part.violation("choice-or-random:out-of-range(real-prng)", {"prng": "real", "seed": seed_value}, {"choice": c, "random": f})
                        return
                for (a, b) in ((1, 0), (0, 2 ** 32)):
                    try:
                        srandom.randint(a, b)
                        part.violation("randint:invalid-domain-accepted(real-prng)", {"prng": "real", "a": a, "b": b}, {})
                    except ValueError:
                        pass
            finally:
                srandom.use_deterministic_prng(False)
            streams.append(out)
        if streams[0] != streams[1]:
            part.violation("reproducibility:stream-depends-on-global-random-state", {"prng": "real", "seed": seed_value}, {})
        else:
            part.add("nontrivial", ("real-prng", seed_value))


# ------------------------------------------------------------------ (D) reproducibility
def repro_configs():
    from cspuz.generator import ArrayBuilder2D, Choice, SegmentationBuilder2D

    return [
        ("choices", lambda: [Choice([0, 1, 2], 0) for _ in range(4)]),
        ("array", lambda: ArrayBuilder2D(2, 3, [0, 1, 2], default=0)),
        ("array-sym", lambda: ArrayBuilder2D(3, 3, [0, 1, 2], default=0, symmetry=True)),
        ("array-move", lambda: ArrayBuilder2D(2, 3, [0, 1, 2], default=0, use_move=True, initial=[[0, 1, 2], [0, 0, 1]])),
        ("segmentation", lambda: (SegmentationBuilder2D(2, 3, min_block_size=1, max_block_size=3), [Choice([-1, 0, 1], -1) for _ in range(2)])),
        ("segmentation-tight", lambda: SegmentationBuilder2D(3, 3, min_num_blocks=2, max_num_blocks=4, min_block_size=2, max_block_size=5)),
    ]


def run_repro(part, name, make, seed_value):
    from cspuz.generator import generate_problem, srandom

    def flat(p):
        if isinstance(p, (list, tuple)):
            return sum((flat(x) for x in p), [])
        return [p]

    def run(py_seed, noisy):
        log = []

        def solver(problem):
            log.append(copy.deepcopy(problem))
            if noisy:
                pyrandom.random()  # a backend that itself consumes Python's global PRNG
            vals = [v for v in flat(problem) if isinstance(v, int)]
            s = sum(vals) + len(log)
            return (s % 5 != 0, s % 4, (s % 11 == 10))

        pyrandom.seed(py_seed)
        srandom.use_deterministic_prng(True, seed_value)
        try:
            res = generate_problem(solver, builder_pattern=make(), score=lambda s, u: s, uniqueness=lambda s, u: u, max_steps=6)
        finally:
            srandom.use_deterministic_prng(False)
        return log, res

    case = {"repro": name, "seed": seed_value}
    part.count("transitions", 3)
    try:
        l1, r1 = run(1, False)
        l2, r2 = run(2, True)
        l3, r3 = run(1, False)
    except Exception as e:
        part.violation("reproducibility:raises-" + type(e).__name__, case, {"exception": repr(e)[:200]})
        return
    if (l1, r1) != (l3, r3):
        part.violation("reproducibility:same-everything-differs", case, {"calls": [len(l1), len(l3)]})
    elif (l1, r1) != (l2, r2):
        k = next((i for i, (a, b) in enumerate(zip(l1, l2)) if a != b), min(len(l1), len(l2)))
        part.violation("reproducibility:depends-on-global-random-state[%s]" % name.split("-")[0], case, {"first_difference_at_call": k, "calls": [len(l1), len(l2)]})
    else:
        part.add("nontrivial", ("repro", name, seed_value))
        part.outcome("repro:identical")


XPROC_CONFIGS = ["strings-symmetry", "strings-plain", "tuples-symmetry-adjacent", "strings-move", "choice-strings", "segmentation+strings"]


def run_xproc(part, name, seed_value):
    """The same seeded generation in fresh interpreters that differ only in PYTHONHASHSEED (string / tuple choice values
    hash differently in each): candidate sequence and result must be identical."""
    import json
    import subprocess

    script = os.path.join(harness.VERIF, "mc", "scripts", "repro_child.py")
    outs = []
    case = {"repro": "cross-interpreter:" + name, "seed": seed_value}
    for hs in ("0", "1", "2", "3"):
        env = dict(os.environ, PYTHONHASHSEED=hs)
        part.count("transitions")
        r = subprocess.run([sys.executable, script, harness.REPO, name, str(seed_value)], capture_output=True, text=True, env=env, timeout=300)
        if r.returncode != 0:
            part.violation("reproducibility:child-raises", dict(case, hashseed=hs), {"stderr": r.stderr[-300:]})
            return
        outs.append(json.loads(r.stdout.strip().splitlines()[-1]))
    if any(o != outs[0] for o in outs[1:]):
        k = next(i for i, o in enumerate(outs) if o != outs[0])
        part.violation("reproducibility:depends-on-the-interpreter's-hash-seed", case, {"hashseeds": ["0", str(k)], "results": [outs[0]["result"], outs[k]["result"]],
                                                                                          "calls": [len(outs[0]["calls"]), len(outs[k]["calls"])]})
    else:
        part.add("nontrivial", ("xproc", name, seed_value))
        part.outcome("repro:identical")


def worker(shard, part):
    what = shard[0]
    if what == "xproc":
        run_xproc(part, shard[2], shard[3])
        return
    pats = {n: (mk, meta) for n, mk, meta in patterns(shard[1])}
    if what == "neighbors":
        _, tier, name, D, cap = shard
        run_pattern(part, name, pats[name][0], pats[name][1], D, cap)
        part.sample({"pattern": name, "raw domain": D})
    elif what == "generate":
        _, tier, name, steps, dev, D = shard
        run_generate(part, name, pats[name][0], pats[name][1], steps, dev, D)
        part.sample({"generate_problem on": name, "max_steps": steps, "deviation bound": dev})
    elif what == "prng":
        if shard[2] == "real":
            run_real_prng(part)
        else:
            run_prng(part, shard[2])
    elif what == "repro":
        cfgs = dict(repro_configs())
        run_repro(part, shard[2], cfgs[shard[2]], shard[3])


def main(tier, seed, only=None):
    shards = []
    for name, mk, meta in patterns(tier):
        D = 6 if ("3x3" in name or "segmentation" in name or "bigints" in name or (tier == "quick" and "2x3" in name)) else 12
        shards.append(("neighbors", tier, name, D, 900 if tier == "quick" else 25000))
    for name in ("choice-pair", "array1x2", "array1x2,symmetry"):
        for steps in (1, 2) if tier == "quick" else (1, 2, 3):
            shards.append(("generate", tier, name, steps, 3 if (tier == "quick" or steps == 3) else 4, 4))
    for D in (8, 12, 16, 60):
        shards.append(("prng", tier, D))
    shards.append(("prng", tier, "real"))
    for name, _ in repro_configs():
        for s in range(8):
            shards.append(("repro", tier, name, s))
    for name in XPROC_CONFIGS:
        for sv in ((0, 5) if tier == "quick" else (0, 1, 2, 5, 7)):
            shards.append(("xproc", tier, name, sv))
    if only:
        shards = [s for s in shards if s[0] == only]
    run = harness.Run(
        PID, tier, seed, "model_checking",
        "(A) BFS over problems reachable through the real build_neighbor_generator for: Choice lists, nested lists/tuples, ArrayBuilder2D "
        "2x2/1x3/2x3%s over {0,1,2} with none / symmetry / disallow_adjacent (bool and custom offsets) / both / use_move / use_move+symmetry, "
        "an array inside a tuple, SegmentationBuilder2D fields; raw PRNG output scripted at domain D=12 (6) as (offset + k*stride) mod D "
        "for all D^2 (offset, stride), so that every pair of consecutive draws takes every value pair; invariant per neighbour and "
        "immutability of all earlier problems.  (B) generate_problem with callback answer, uniqueness, pretest and raw PRNG on a choice tape, "
        "max_steps<=%d, <= %d deviations from the default answers.  (C) randint/choice/shuffle/random: exact distribution over every raw value "
        "at D in {8,12,16,60} for a in -3..3 and every width <= D; with the real 2^32 source: range membership for extreme ranges, 300-element shuffles, stream equality across global random states.  (D) 6 builder configurations x seeds 0..7 run under two global random "
        "states with a quiet and a PRNG-consuming callback; 6 configurations over string / tuple choice values in four fresh interpreters that differ only in PYTHONHASHSEED." % (", 3x3" if tier != "quick" else "", 2 if tier == "quick" else 3, 3 if tier == "quick" else 4),
    )
    run.assumptions = [
        "the code is parametric in the raw domain size; uniformity is shown for the mapping raw draw -> result at reduced sizes, XorShift's own equidistribution is outside the property",
        "draws inside shuffle(cands) only permute the order in which the same neighbour set is yielded, which invariant (A) cannot observe; the order is "
        "explored by the tape in (B)",
        "use_move updates are exempt from the adjacency rule (the property restricts it to value-setting updates)",
    ]
    par.run_shards(run, worker, shards, seed, shard_limit=900 if tier == "quick" else 3600)
    cov = {
        "states": run.n("states"),
        "transitions": run.c("transitions"),
        "traces_validated_against_impl": run.c("generator_runs") + run.c("generate_executions"),
        "generate_executions": run.c("generate_executions"),
        "max_depth": run.c("max:depth"),
        "evaluations": run.c("transitions"),
        "distinct_nontrivial": run.n("states") + run.n("nontrivial"),
        "patterns_capped": run.c("patterns_capped"),
        "bound": "deviations <= %d in (B); BFS to fixpoint or state cap in (A)" % (3 if tier == "quick" else 4),
    }
    return run.finish(cov)


def replay(case):
    part = harness.Partial()
    tier = "thorough"
    pats = {n: (mk, meta) for n, mk, meta in patterns(tier)}
    if "pattern" in case:
        name = case["pattern"]
        run_pattern(part, name, pats[name][0], pats[name][1], 6 if ("3x3" in name or "segmentation" in name) else 12, 25000)
    elif "generate" in case:
        name = case["generate"]
        run_generate(part, name, pats[name][0], pats[name][1], case["max_steps"], 4, 4)
        part.violations = [v for v in part.violations if v.case.get("tape") == case.get("tape")] or part.violations
    elif case.get("prng") == "real":
        run_real_prng(part)
    elif "prng" in case:
        run_prng(part, case["D"])
        part.violations = [v for v in part.violations if all(v.case.get(k) == case.get(k) for k in case)]
    elif str(case.get("repro", "")).startswith("cross-interpreter:"):
        run_xproc(part, case["repro"].split(":", 1)[1], case["seed"])
    else:
        run_repro(part, case["repro"], dict(repro_configs())[case["repro"]], case["seed"])
    return (not part.violations), (part.violations[0].detail if part.violations else "holds")
