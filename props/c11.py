"""C11 — bundled puzzle solvers agree with the puzzles' published rules.

E1 per puzzle: all boards of a shape ladder x all clue layouts by the cap rule;
oracle = independent rule module (mc/rules/<puzzle>.py) that enumerates ALL
rule-obeying answers; required: is_sat == (solutions exist) and every answer-key
cell is reported decided exactly when all solutions agree on it.
"""

import importlib
import json

from mc import harness, par
from mc.rules import base

PID = "C11"
import os


def enabled():
    path = os.path.join(harness.VERIF, "mc", "rules", "enabled.txt")
    return [l.strip() for l in open(path) if l.strip() and not l.startswith("#")]


PUZZLES = enabled()


def rule(name):
    return importlib.import_module("mc.rules." + name).RULE


def shape_class(p):
    h, w = p.get("height"), p.get("width")
    if h is None or w is None:
        return "n=%s" % p.get("n", "?")
    if h == 1 or w == 1:
        return "single-line"
    return "square" if h == w else "non-square"


def judge(part, r, p):
    part.count("evaluations")
    case = {"puzzle": r.name, "problem": p}
    try:
        readings = r.readings(p)
    except Exception as e:  # an oracle failure is a harness error, never a verdict
        raise RuntimeError("rule oracle of %s failed on %r: %r" % (r.name, p, e))
    try:
        is_sat, keys = r.call(p)
    except Exception as e:
        part.violation("%s:raises-%s[%s]" % (r.name, type(e).__name__, shape_class(p)), case, {"exception": repr(e)[:300], "solutions": [len(x) for x in readings]})
        return
    ok = False
    why = None
    for sols in readings:
        exp = base.facts(sols)
        if exp is None:
            if is_sat is False:
                ok = True
            else:
                why = why or ("reported-solvable-but-no-solution", {"returned": is_sat})
            continue
        if is_sat is not True:
            why = why or ("reported-unsolvable-but-solutions-exist", {"returned": is_sat, "solutions": len(sols), "one": list(sols[0])})
            continue
        if len(keys) != len(exp):
            why = why or ("answer-key-count", {"keys": len(keys), "expected": len(exp)})
            continue
        bad = [k for k in range(len(exp)) if keys[k] != exp[k] or (keys[k] is not None and type(keys[k]) is not type(exp[k]))]
        if not bad:
            ok = True
        else:
            k = bad[0]
            kind = "undecided-cell-reported" if exp[k] is None else ("decided-cell-missed" if keys[k] is None else "wrong-value")
            why = why or (kind, {"key": k, "reported": keys[k], "expected": exp[k], "solutions": len(sols), "differing_keys": len(bad)})
    part.outcome("%s:%s" % (r.name, "unsat" if not any(readings) else ("unique" if all(len(s) == 1 for s in readings if s) else "multi")))
    if not ok:
        part.violation("%s:%s[%s]" % (r.name, why[0], shape_class(p)), case, why[1])
    else:
        part.add("nontrivial", (r.name, json.dumps(p, sort_keys=True)))


def worker(shard, part):
    if shard[0] == "example":
        run_example(part, shard[1])
        return
    name, shape, cap, lo, hi = shard
    r = rule(name)
    n = 0
    for k, p in enumerate(r.instances(tuple(shape) if isinstance(shape, list) else shape, cap)):
        if k < lo:
            continue
        if hi is not None and k >= hi:
            break
        judge(part, r, p)
        n += 1
        if n == 1 and lo == 0:
            part.sample({"puzzle": name, "problem": p})
    part.add("shapes", (name, json.dumps(shape)))


def run_example(part, name):
    """Bind an oracle to reality: the module's own published example must be solvable, and the answer the solver
    reports must be consistent with a rule-obeying grid wherever the oracle can enumerate it."""
    r = rule(name)
    ex = r.example()
    if ex is None:
        return
    p, where = ex
    part.count("examples")
    try:
        is_sat, keys = r.call(p)
    except Exception as e:
        part.violation("%s:published-example-raises-%s" % (name, type(e).__name__), {"puzzle": name, "problem": p}, {"exception": repr(e)[:200]})
        return
    if not is_sat:
        part.violation("%s:published-example-unsolvable" % name, {"puzzle": name, "problem": p}, {"source": where})


def main(tier, seed, only=None):
    cap = 150 if tier == "quick" else 12000
    shards = []
    names = [only] if only else list(PUZZLES)
    for name in names:
        r = rule(name)
        for shape in r.shapes(tier):
            if isinstance(shape, (list, tuple)) and shape and isinstance(shape[0], str):
                # "large" / "long" / "structured" ... families: a few dozen instances whose construction is itself costly;
                # one shard each, built inside the worker (never in the parent, which would serialise them)
                shards.append((name, shape, cap, 0, None))
                continue
            n = sum(1 for _ in r.instances(shape, cap))
            step = 60 if tier == "quick" else 400
            for lo in range(0, max(n, 1), step):
                shards.append((name, shape, cap, lo, lo + step))
    run = harness.Run(
        PID, tier, seed, "exploration",
        "for each of %d bundled puzzles: a shape ladder (smallest boards first, both orientations, 1xN / Nx1 where the format allows) x all clue "
        "layouts with <= k non-default clues over the puzzle's clue alphabet, k maximal under a cap of %d layouts per shape (complete when k "
        "reaches the number of cells); oracle: an independent rule module enumerates ALL rule-obeying answer grids (mc/rules/); required: "
        "is_sat == (a solution exists) and every answer-key cell is decided exactly when all solutions agree, with the agreed value." % (len(names), cap),
    )
    run.assumptions = [
        "'published rules' = my transcription (DESIGN.md appendix A), cross-checked on each module's published example",
        "ambiguity envelope (DESIGN.md C11): where the rules admit two readings the implementation must match one of them",
        "for loop puzzles 'no line at all' counts as a loop (the library's documented convention)",
    ]
    heavy = [("example", n) for n in names] + [sh for sh in shards if sh[4] is None]
    shards = [sh for sh in shards if sh[4] is not None]
    par.run_shards(run, worker, shards, seed, shard_limit=1800, first=heavy)
    cov = {"evaluations": run.c("evaluations"), "distinct_nontrivial": run.n("nontrivial"), "shapes": run.n("shapes"), "puzzles": len(names), "exhaustive": True}
    return run.finish(cov)


def replay(case):
    part = harness.Partial()
    judge(part, rule(case["puzzle"]), case["problem"])
    return (not part.violations), (part.violations[0].detail if part.violations else "agrees with the rule oracle")
