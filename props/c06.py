"""C06 — active_edges_single_cycle / single_path admit exactly one simple cycle / path.

E1: all labelled loop-free multigraphs up to an edge bound (parallel edges
included), all BoolGridFrame sizes up to an edge bound, all 2^m edge subsets;
cycle with both encodings, path in primitive form (the non-primitive call must
raise the documented RuntimeError).  For every admitted subset a second solve
checks that the returned array is *forced* to the visited-vertex set.
"""

from mc import gcheck, graphref, harness, par

PID = "C06"
_CASES = []


def frame_edges(h, w):
    """Independent description of the frame: list of (array, y, x, endpoint ids) in all_edges order
    (horizontal row-major, then vertical row-major); lattice point (y, x) has id y*(w+1)+x."""
    out = []
    for y in range(h + 1):
        for x in range(w):
            out.append(("h", y, x, (y * (w + 1) + x, y * (w + 1) + x + 1)))
    for y in range(h):
        for x in range(w + 1):
            out.append(("v", y, x, (y * (w + 1) + x, (y + 1) * (w + 1) + x)))
    return out


def build(case):
    from cspuz import BoolGridFrame, Solver, graph

    s = Solver()
    if case.get("used"):
        gcheck.junk(s)
    fn = graph.active_edges_single_cycle if case["kind"] == "cycle" else graph.active_edges_single_path
    kw = {}
    if case["ugp"] != "default":
        kw["use_graph_primitive"] = int(case["ugp"]) if case.get("intflags") else case["ugp"]  # 1 / 0 instead of True / False
    if "shape" in case:
        h, w = case["shape"]
        fr = BoolGridFrame(s, h, w)
        passed = fr.single_loop() if case.get("entry") == "single_loop" else fn(s, fr, **kw)
        evars = [fr.horizontal[y, x] if a == "h" else fr.vertical[y, x] for a, y, x, _ in frame_edges(h, w)]
        return s, evars, passed
    g = gcheck.make_graph(case["n"], case["edges"], case.get("grown"))
    e = s.bool_array(len(case["edges"]))
    ff = case.get("flagform")
    if ff == "nested":
        # every edge condition is a nested expression equivalent to its variable ((x & sel) | (x & ~sel), sel free)
        sel = s.bool_var()
        flags = [(x & sel) | (x & ~sel) for x in e]
    elif ff == "neg":
        flags = [~x for x in e]  # the caller fixes the inverted values
    elif ff == "xor":
        y = s.bool_array(len(case["edges"]))
        s.ensure([~v for v in y])
        flags = [(a != b) for a, b in zip(e, y)]
    else:
        flags = e if case.get("array") else list(e)
    passed = fn(s, flags, g, **kw)
    return s, list(e), passed


def layer_menu(m, edges):
    """Second-layer patterns for graphs with more than 3 edges: nothing, each triangle / square alone, everything, one edge,
    everything but one edge."""
    out = [[False] * m, [True] * m, [k == 0 for k in range(m)], [k != m - 1 for k in range(m)]]
    out.append([k < 3 for k in range(m)])
    out.append([k >= 3 for k in range(m)])
    return out


def run_layers(part, case):
    from cspuz import graph

    n, edges, m = case["n"], case["edges"], len(case["edges"])
    fn = graph.active_edges_single_cycle if case["kind"] == "cycle" else graph.active_edges_single_path
    key = "%s[graph,%s,two-layers]" % (case["kind"], "native" if case["ugp"] else "aux")

    def post(s, g):
        e = s.bool_array(m)
        fn(s, e, g, use_graph_primitive=case["ugp"])
        return list(e)

    def oracle(p):
        act = [e for e, b in zip(edges, p) if b]
        if not act:
            return True
        return graphref.single_cycle(n, act) if case["kind"] == "cycle" else graphref.single_path(n, act)

    gcheck.run_two_layers(part, key, case, post, m, oracle, layer_menu(m, edges))
    part.add("scale", (case["kind"], ("layers", n, m), str(case["ugp"])))


def run_case(part, case, prange=None):
    from cspuz.array import BoolArray1D, BoolArray2D
    from cspuz.expr import BoolExpr, Op

    if case.get("layers"):
        run_layers(part, case)
        return

    if "shape" in case:
        h, w = case["shape"]
        n = (h + 1) * (w + 1)
        edges = [e[3] for e in frame_edges(h, w)]
    else:
        n, edges = case["n"], case["edges"]
    m = len(edges)
    prim = case["ugp"] is True or (case["ugp"] == "default" and case["cfg"])
    key = "%s[%s,%s]" % (case["kind"], ("frame.single_loop" if case.get("entry") else "frame") if "shape" in case else "graph", "native" if prim else "aux")
    with gcheck.GraphConfig(use_graph_primitive=bool(case["cfg"])):
        if case["kind"] == "path" and not prim:
            part.count("evaluations")
            try:
                build(case)
                part.violation(key + ":non-primitive-path-did-not-raise", case, {})
            except RuntimeError:
                part.outcome("path:documented-RuntimeError")
            except Exception as e:
                part.violation(key + ":build-raises-" + type(e).__name__, case, {"exception": repr(e)[:300]})
            return
        try:
            s, evars, passed = build(case)
        except Exception as e:
            part.violation(key + ":build-raises-" + type(e).__name__, case, {"exception": repr(e)[:300]})
            return
        part.count("evaluations")
        if "shape" in case:
            if not isinstance(passed, BoolArray2D) or tuple(passed.shape) != (h + 1, w + 1):
                part.violation(key + ":result-shape", case, {"type": type(passed).__name__, "shape": repr(getattr(passed, "shape", None))})
                return
        elif not isinstance(passed, BoolArray1D) or len(passed) != n:
            part.violation(key + ":result-shape", case, {"type": type(passed).__name__})
            return
        pvars = list(passed)
        pats = [tuple(bool(b) for b in pt) for pt in case["patterns"]] if "patterns" in case else gcheck.patterns(m, prange)
        for pattern in pats:
            act = [e for e, b in zip(edges, pattern) if b]
            if not act:
                exp = True
                cls = "empty"
            elif case["kind"] == "cycle":
                exp = graphref.single_cycle(n, act)
                cls = "nonempty"
            else:
                exp = graphref.single_path(n, act)
                cls = "nonempty"
            fixes = [gcheck.fix(v, (not b) if case.get("flagform") == "neg" else b) for v, b in zip(evars, pattern)]
            got = gcheck.judge(part, key + "{" + cls + "}", case, pattern, exp, s, fixes)
            if got and exp and not case.get("no_force_check"):
                vis = graphref.visited(n, act)
                differs = BoolExpr(Op.OR, [BoolExpr(Op.XOR, [pv, b]) for pv, b in zip(pvars, vis)])
                part.count("evaluations")
                try:
                    if gcheck.decide(s, fixes + [differs]) is not False:
                        c = dict(case)
                        c["pattern"] = list(pattern)
                        part.violation(key + ":passed-array-not-forced", c, {"expected_passed": vis})
                except Exception as e:
                    c = dict(case)
                    c["pattern"] = list(pattern)
                    part.violation(key + ":raises-" + type(e).__name__, c, {"exception": repr(e)[:300]})
    if "patterns" in case:
        part.add("scale", (case["kind"], tuple(case["shape"]) if "shape" in case else ("graph", case["n"]), str(case["ugp"])))
    else:
        part.add("graphs", (n, tuple(edges)))


def region_boundary(h, w, cells):
    """Edge flags (frame_edges order) of the boundary of a set of cells of an h x w frame."""
    cells = set(cells)
    flags = []
    for a, y, x, _ in frame_edges(h, w):
        if a == "h":
            up, dn = (y - 1, x), (y, x)
            flags.append(((up in cells) != (dn in cells)))
        else:
            lf, rt = (y, x - 1), (y, x)
            flags.append(((lf in cells) != (rt in cells)))
    return flags


def scale_cases(tier):
    """Long cycles / paths on larger frames (deterministic, not exhaustive)."""
    out = []
    big = [(3, 3), (4, 4), (2, 6), (5, 3)] if tier == "quick" else [(3, 3), (4, 4), (2, 6), (5, 3), (5, 5), (3, 8), (6, 6)]
    for h, w in big:
        segs = frame_edges(h, w)
        allc = [(y, x) for y in range(h) for x in range(w)]
        perimeter = region_boundary(h, w, allc)
        corridor = region_boundary(h, w, graphref.serpentine(h, w))
        pats = [perimeter, corridor, [False] * len(segs), region_boundary(h, w, [(0, 0)])]
        if h >= 3 and w >= 3:
            inner = region_boundary(h, w, [(1, 1)])
            pats.append([a or b for a, b in zip(perimeter, inner)])  # two disjoint cycles
            pats.append([a or b for a, b in zip(region_boundary(h, w, [(0, 0)]), region_boundary(h, w, [(h - 1, w - 1)]))])
        k = perimeter.index(True)
        broken = list(perimeter)
        broken[k] = False
        pats.append(broken)  # a long path (the perimeter minus one segment)
        # Hamiltonian path through all lattice points
        pts = graphref.boustrophedon(h + 1, w + 1)
        W = w + 1
        eidx = {frozenset(e[3]): i for i, e in enumerate(segs)}
        ham = [False] * len(segs)
        for a, b in zip(pts, pts[1:]):
            ham[eidx[frozenset((a[0] * W + a[1], b[0] * W + b[1]))]] = True
        pats.append(ham)
        cut = list(ham)
        cut[[i for i, v in enumerate(ham) if v][len(pts) // 2]] = False
        pats.append(cut)  # two paths
        for kind in ("cycle", "path"):
            for ugp in ((False, True) if kind == "cycle" else (True,)):
                out.append({"kind": kind, "shape": [h, w], "ugp": ugp, "cfg": False, "patterns": pats})
        out.append({"kind": "cycle", "shape": [h, w], "ugp": "default", "cfg": False, "patterns": pats, "entry": "single_loop"})
    if tier != "quick":
        # edge ids beyond 65535 (a 65540-edge path followed by a triangle), native route only: ~1.5 min per case
        n = 65541
        edges = [(i, i + 1) for i in range(n - 1)] + [(n - 1, n), (n, n + 1), (n + 1, n - 1)]
        m = len(edges)
        pats = [[k >= m - 3 for k in range(m)], [k in (65537, 65538) for k in range(m)], [k in (65537, 65539) for k in range(m)]]
        for kind in ("cycle", "path"):
            out.append({"kind": kind, "n": n + 2, "edges": edges, "ugp": True, "cfg": False, "array": True, "patterns": pats, "no_force_check": True})
    # long winding loops of mid-sized frames: the longest simple cycles and the longest self-crossing closed strands (which
    # a simple-cycle constraint must refuse) from a complete scan of the cycle space (tools/gen_weaves.py stores the inputs only)
    import json
    import os

    weaves = json.load(open(os.path.join(harness.VERIF, "mc", "data", "weaves.json")))
    for name in (["3x3", "3x4", "4x3", "4x4", "4x5", "5x4"] if tier == "quick" else sorted(weaves)):
        h, w = (int(t) for t in name.split("x"))
        pats = []
        for entry in weaves[name]:
            pat = [bool(b) for b in entry["pattern"]]
            if entry["crossings"] == 0 or len(pats) < 2:
                pats.append(pat)
            if entry["crossings"] == 0:
                opened = list(pat)
                opened[pat.index(True)] = False
                pats.append(opened)  # a Hamiltonian-like path
        for kind in ("cycle", "path"):
            for ugp in ((False, True) if kind == "cycle" else (True,)):
                out.append({"kind": kind, "shape": [h, w], "ugp": ugp, "cfg": False, "patterns": pats})
        out.append({"kind": "cycle", "shape": [h, w], "ugp": "default", "cfg": False, "patterns": pats, "entry": "single_loop"})
    # large family: more than 4096 segments / 2048 lattice points (line graph through the native route)
    for k in ((45,) if tier == "quick" else (45, 64)):
        orr = lambda a, b: [p_ or q for p_, q in zip(a, b)]  # noqa: E731
        allc = [(y, x) for y in range(k) for x in range(k)]
        per = region_boundary(k, k, allc)
        br = region_boundary(k, k, [(k - 1, k - 1)])
        two = orr(region_boundary(k, k, [(k - 1, 0)]), region_boundary(k, k, [(0, k // 2)]))
        segs = frame_edges(k, k)
        bottom = [a == "h" and y == k for a, y, x, _ in segs]
        pats = [per, br, two, bottom, [False] * len(segs)]
        out.append({"kind": "cycle", "shape": [k, k], "ugp": True, "cfg": False, "patterns": pats, "no_force_check": True})
        out.append({"kind": "path", "shape": [k, k], "ugp": True, "cfg": False, "patterns": pats, "no_force_check": True})
    return out


def cases_for(tier):
    out = []
    bounds = [(2, 3), (3, 4), (4, 4)] if tier == "quick" else [(2, 4), (3, 6), (4, 5)]
    for n, maxe in bounds:
        for edges in graphref.multigraphs(n, maxe, 2 if n > 2 else 3):
            for var in (0, 1, 2):
                if var and len(edges) < 2 and var != 1:
                    continue
                if var and not edges:
                    continue
                if tier == "quick" and var == 2:
                    continue
                es = graphref.orient(edges, var)
                for kind in ("cycle", "path"):
                    for ugp, cfg in ((False, False), (True, False)) + ((("default", True), ("default", False)) if var == 0 and len(edges) <= 3 else ()):
                        out.append({"kind": kind, "n": n, "edges": es, "ugp": ugp, "cfg": cfg, "array": var == 0})
    if tier != "quick":
        import itertools

        pairs = graphref.all_pairs(5)
        for k in range(3, 8):
            for es in itertools.combinations(pairs, k):
                for kind in ("cycle", "path"):
                    out.append({"kind": kind, "n": 5, "edges": list(es), "ugp": kind == "path", "cfg": False})
    for n in (2, 3):
        for edges in graphref.multigraphs(n, 3, 2):
            for kind in ("cycle", "path"):
                for ugp in (False, True):
                    out.append({"kind": kind, "n": n, "edges": list(edges), "ugp": ugp, "cfg": False, "array": True, "intflags": True})
    # edge conditions given as expressions (nested, negated, xor with a constant-false partner) instead of variables
    for n, es in gcheck.layer_graphs():
        if len(es) > 7:
            continue
        for ff in ("nested", "neg", "xor"):
            for kind in ("cycle", "path"):
                for ugp in ((False, True) if kind == "cycle" else (True,)):
                    if tier == "quick" and len(es) > 3 and ff != "nested":
                        continue
                    out.append({"kind": kind, "n": n, "edges": list(es), "ugp": ugp, "cfg": False, "flagform": ff})
    # the same Graph object and Solver used for two independent edge layers
    for n, es in gcheck.layer_graphs():
        for kind in ("cycle", "path"):
            for ugp in ((False, True) if kind == "cycle" else (True,)):
                if tier == "quick" and len(es) > 3 and ugp and kind == "cycle":
                    continue
                out.append({"kind": kind, "n": n, "edges": list(es), "ugp": ugp, "cfg": False, "layers": 2, "patterns": []})
    # an explicit use_graph_primitive=False must win over a global default of True
    for n, es in gcheck.layer_graphs():
        if len(es) <= 3:
            out.append({"kind": "cycle", "n": n, "edges": list(es), "ugp": False, "cfg": True, "array": True})
    # structured mid-sized graphs, all 2^m edge patterns (quick: m <= 8)
    for name, n, es in graphref.zoo():
        if len(es) > (8 if tier == "quick" else 10):
            continue
        relab = name.endswith("~relabelled")
        for kind in ("cycle", "path"):
            for ugp in (False, True):
                if tier == "quick" and ugp != relab:
                    continue
                out.append({"kind": kind, "n": n, "edges": es, "ugp": ugp, "cfg": False, "name": name})
    frames = [(0, 0), (1, 0), (0, 1), (1, 1), (1, 2), (2, 1), (2, 2)] if tier == "quick" else [(0, 0), (0, 2), (2, 0), (1, 1), (1, 2), (2, 1), (2, 2), (1, 3), (3, 1), (1, 4), (4, 1)]
    # (the two 17-segment frames 2x3 / 3x2 cost about 2 CPU hours per (frame, kind): they were run during development and are
    # left out of the registered thorough tier, which has to finish in minutes)
    for h, w in frames:
        for kind in ("cycle", "path"):
            for ugp, cfg in ((False, False), (True, False)):
                if (h + 1) * w + h * (w + 1) > 12 and kind == "cycle" and ugp is True:
                    continue
                # the two 17-segment frames cost ~2 CPU hours per (frame, kind): cycle on 2x3, path on 3x2
                if (h, w) == (2, 3) and kind == "path":
                    continue
                if (h, w) == (3, 2) and kind == "cycle":
                    continue
                out.append({"kind": kind, "shape": [h, w], "ugp": ugp, "cfg": cfg})
        if (h + 1) * w + h * (w + 1) <= 12:
            for cfg in (False, True):
                out.append({"kind": "cycle", "shape": [h, w], "ugp": "default", "cfg": cfg, "entry": "single_loop"})
    return out


def _small(c):
    """Cases cheap enough to repeat on a Solver that is already in use."""
    if "shape" in c:
        return (c["shape"][0] + 1) * (c["shape"][1] + 1) <= 9
    return c.get("n", 9) <= 3 and len(c.get("edges", ())) <= 4


def prepare(tier):
    global _CASES
    base_cases = cases_for(tier)
    used = [dict(c, used=True) for c in base_cases[:: (7 if tier == "quick" else 3)] if _small(c)]
    # Graph objects with a history: some edges added only after the object has been used by other constraints
    for c in base_cases[:: (5 if tier == "quick" else 2)]:
        if "edges" in c and "shape" not in c and 2 <= len(c["edges"]) <= 5 and c.get("n", 9) <= 4:
            used.append(dict(c, grown=1))
            used.append(dict(c, grown=len(c["edges"]) - 1))
            used.append(dict(c, grown=len(c["edges"])))  # fully built, then used - also by calls that are refused -, then used again
    _CASES = base_cases + used + scale_cases(tier)
    return _CASES


def nedges(c):
    if "shape" in c:
        h, w = c["shape"]
        return (h + 1) * w + h * (w + 1)
    return len(c["edges"])


def worker(shard, part):
    gcheck.BRUTE_LIMIT = _BRUTE[0]
    lo, hi, plo, phi = shard
    for case in _CASES[lo:hi]:
        run_case(part, case, None if plo is None else (plo, phi))
    if lo < len(_CASES) and (lo // 5) % 50 == 0:
        part.sample(_CASES[lo])


def _describe(shard):
    lo, hi, plo, phi = shard
    c = _CASES[lo]
    return "%d case(s) %s %s" % (hi - lo, (plo, phi), {k: (v if not isinstance(v, (list, tuple)) or len(v) < 6 else "[%d]" % len(v)) for k, v in c.items()})


worker.describe = _describe


_BRUTE = [300]


def main(tier, seed, only=None):
    _BRUTE[0] = 300 if tier == "quick" else 5000
    cases = prepare(tier)
    run = harness.Run(
        PID,
        tier,
        seed,
        "exploration",
        "all labelled loop-free multigraphs %s (multiplicity<=2; 3 for n=2) in up to 3 edge-list presentations%s; BoolGridFrame "
        "sizes %s; all 2^m edge subsets; single_cycle with auxiliary and native encodings (explicit flag and config default), "
        "single_path in native form (non-native must raise RuntimeError).  Scale family (not exhaustive): the 45x45 frame (4140 segments; thorough 64x64) through the native route, and on frames up to 4x4 / 2x6 (thorough 6x6) the perimeter, the boundary of the "
        "serpentine corridor, two disjoint cycles, the perimeter minus one segment, a Hamiltonian path through all lattice points and that path cut in two.  Oracle: empty, or exactly one simple cycle / path "
        "(degrees + one component); for each admitted subset a second solve with OR(passed[v] != visited[v]) must be UNSAT."
        % (
            "n<=4 with <=4 edges" if tier == "quick" else "n=2..4 with <=4/6/5 edges",
            "" if tier == "quick" else ", all simple graphs on 5 vertices with 3..7 edges",
            "up to 2x2 (12 edges)" if tier == "quick" else "up to 2x3/3x2 and 1x4/4x1 (17 edges)",
        ),
    )
    run.assumptions = [
        "native route decided by the harness backend with R-native semantics on the line graph (mc/native_backend.py)",
        "a loop (u, u) is outside the quantifier",
    ]
    shards = gcheck.split_shards(cases, lambda c: 40 * len(c['patterns']) if 'patterns' in c else 1 << nedges(c), 300)
    first, rest = gcheck.heavy_first(shards, _CASES)
    par.run_shards(run, worker, rest, seed, first=first)
    cov = {
        "evaluations": run.c("evaluations"),
        "distinct_nontrivial": sum(1 << len(g[1]) for g in run.total.sets.get("graphs", ())),
        "graphs": run.n("graphs"),
        "cases": len(cases),
        "exhaustive": True,
    }
    return run.finish(cov)


def replay(case):
    part = harness.Partial()
    pattern = case.get("pattern")
    c = {k: v for k, v in case.items() if k != "pattern"}
    if "edges" in c:
        c["edges"] = [tuple(e) for e in c["edges"]]
    run_case(part, c)
    mine = [v for v in part.violations if pattern is None or v.case.get("pattern") == pattern]
    return (not mine), (mine[0].detail if mine else "agrees with the oracle")
