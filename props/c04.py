"""C04 — active_vertices_connected holds exactly for connected (or tree) active sets.

E1: all labelled simple graphs with <= 4 (thorough: 5) vertices in several
edge-list presentations, all grid shapes up to a cell bound, all 2^n activity
patterns; is_active given as variables, negated variables, equalities of two
variable vectors (all underlying assignments), Python constants, mixed lists,
BoolArray1D / BoolArray2D; acyclic on/off; use_graph_primitive False / True /
None with the configuration flag either way.
"""

import itertools

from mc import gcheck, graphref, harness, par

PID = "C04"
FORMS_GRAPH = ["vars", "array1d", "neg", "const", "mixed", "eq", "used-solver"]


def oracle(n, edges, pattern, acyclic):
    act = [v for v in range(n) if pattern[v]]
    return graphref.induced_tree(n, edges, act) if acyclic else graphref.induced_connected(n, edges, act)


def build(case, pattern=None):
    """Returns (solver, callers) where callers is a function pattern -> list of fixes, or None for 'const'."""
    from cspuz import Solver, graph
    from cspuz.array import BoolArray1D

    s = Solver()
    n = case["n"]
    form = case["form"]
    # "intflags": options given as 1 / 0 instead of True / False (callers rely on truthiness, not identity)
    flag = int if case.get("intflags") else (lambda b: b)
    kw = {"acyclic": flag(case["acyclic"])}
    if case["ugp"] != "default":
        kw["use_graph_primitive"] = flag(case["ugp"])
    if form == "grid":
        h, w = case["shape"]
        if case.get("before"):
            gcheck.warm_grid(tuple(case["before"]))
        a = s.bool_array((h, w))
        graph.active_vertices_connected(s, a, **kw)
        flat = list(a)
        return s, (lambda p: [gcheck.fix(v, b) for v, b in zip(flat, p)])
    g = gcheck.make_graph(n, case["edges"], case.get("grown"))
    if form in ("vars", "array1d"):
        x = s.bool_array(n)
        graph.active_vertices_connected(s, x if form == "array1d" else list(x), g, **kw)
        return s, (lambda p: [gcheck.fix(v, b) for v, b in zip(x, p)])
    if form == "used-solver":
        # not the first thing posted on this Solver: earlier variables / constraints, the activity variables declared
        # long before the call, and an unrelated second connectivity constraint afterwards
        junk_b = s.bool_array(3)
        junk_i = s.int_array(2, -1, 4)
        x = s.bool_array(n)
        s.ensure(junk_b[0] | ~junk_b[0], junk_i[0] <= junk_i[1] + 5)
        pad = s.int_array(2, 0, 1)
        s.ensure(pad[0] + pad[1] >= 0)
        graph.active_vertices_connected(s, list(reversed(list(reversed(list(x))))), g, **kw)
        other = s.bool_array(2)
        g2 = gcheck.make_graph(2, [(0, 1)])
        graph.active_vertices_connected(s, other, g2, **kw)
        return s, (lambda p: [gcheck.fix(v, b) for v, b in zip(x, p)])
    if form == "neg":
        x = s.bool_array(n)
        graph.active_vertices_connected(s, [~v for v in x], g, **kw)
        return s, (lambda p: [gcheck.fix(v, not b) for v, b in zip(x, p)])
    if form == "const":
        graph.active_vertices_connected(s, [bool(b) for b in pattern], g, **kw)
        return s, None
    if form == "mixed":
        # even positions are variables, odd positions Python constants (taken from the pattern)
        x = s.bool_array(n)
        lst = [x[i] if i % 2 == 0 else bool(pattern[i]) for i in range(n)]
        graph.active_vertices_connected(s, lst, g, **kw)
        return s, (lambda p: [gcheck.fix(x[i], p[i]) for i in range(n) if i % 2 == 0])
    if form == "eq":
        x = s.bool_array(n)
        y = s.bool_array(n)
        graph.active_vertices_connected(s, [(a == b) for a, b in zip(x, y)], g, **kw)
        return s, (x, y)
    raise ValueError(form)


def effective_primitive(case):
    if case["acyclic"]:
        return False
    if case["ugp"] == "default":
        return bool(case["cfg"])
    return bool(case["ugp"])


def run_layers(part, case):
    from cspuz import graph

    n, edges = case["n"], case["edges"]
    key = "connected[two-layers,%s,%s]" % ("acyclic" if case["acyclic"] else "plain", "native" if case["ugp"] else "aux")

    def post(s, g):
        x = s.bool_array(n)
        graph.active_vertices_connected(s, x, g, acyclic=case["acyclic"], use_graph_primitive=case["ugp"])
        return list(x)

    menu = [[False] * n, [True] * n, [v < 3 for v in range(n)], [v >= 3 for v in range(n)], [v == n - 1 for v in range(n)], [v in (0, n - 1) for v in range(n)]]
    gcheck.run_two_layers(part, key, case, post, n, lambda p: oracle(n, edges, p, case["acyclic"]), menu)
    part.add("scale", ("layers", (n, len(edges)), case["acyclic"]))


def run_case(part, case, prange=None):
    if case.get("layers"):
        run_layers(part, case)
        return
    n = case["n"]
    edges = case["edges"] if case["form"] != "grid" else graphref.grid_edges(*case["shape"])
    key = "connected[%s,%s,%s]" % (case["form"], "acyclic" if case["acyclic"] else "plain", "native" if effective_primitive(case) else "aux")
    with gcheck.GraphConfig(use_graph_primitive=bool(case["cfg"])):
        per_pattern = case["form"] in ("const", "mixed")
        if not per_pattern:
            try:
                s, callers = build(case)
            except Exception as e:
                part.violation(key + ":build-raises-" + type(e).__name__, case, {"exception": repr(e)[:300]})
                return
            nat = gcheck.count_native(s.constraints)
            want_nat = (2 if case["form"] == "used-solver" else 1) if effective_primitive(case) else 0
            part.count("evaluations")
            if nat != want_nat:
                part.violation(key + ":encoding-choice", case, {"native_operators": nat, "expected": want_nat})
        pats = [tuple(bool(b) for b in pt) for pt in case["patterns"]] if "patterns" in case else gcheck.patterns(n, prange)
        for pattern in pats:
            exp = oracle(n, edges, pattern, case["acyclic"])
            if per_pattern:
                try:
                    s, callers = build(case, pattern)
                except Exception as e:
                    c = dict(case)
                    c["pattern"] = list(pattern)
                    part.violation(key + ":build-raises-" + type(e).__name__, c, {"exception": repr(e)[:300]})
                    continue
            if case["form"] == "eq":
                x, y = callers
                # every underlying assignment that maps to this pattern must behave like the pattern
                for xv in gcheck.patterns(n):
                    yv = tuple(a if p else (not a) for a, p in zip(xv, pattern))
                    fixes = [gcheck.fix(v, b) for v, b in zip(x, xv)] + [gcheck.fix(v, b) for v, b in zip(y, yv)]
                    gcheck.judge(part, key, case, pattern, exp, s, fixes)
            else:
                fixes = callers(pattern) if callers else []
                gcheck.judge(part, key, case, pattern, exp, s, fixes)
    if "patterns" in case:
        part.add("scale", (case["form"], tuple(case.get("shape", [n])), case["acyclic"]))
    else:
        part.add("graphs", (n, tuple(map(tuple, edges))))


def scale_patterns(h, w):
    """Deep shapes on a larger board: the longest corridors the board admits and their one-cell perturbations."""
    def flat(cells):
        cs = set(cells)
        return [(y, x) in cs for y in range(h) for x in range(w)]

    order = graphref.serpentine_order(h, w)
    pats = [flat(order), flat(order[: len(order) // 2] + order[len(order) // 2 + 1 :]), flat([(y, x) for y in range(h) for x in range(w)]), flat([]), flat([order[0]]),
            flat([order[0], order[-1]]), flat(order[1:]), flat(order[:-1])]
    if h >= 3 and w >= 2:
        pats.append(flat(order + [(1, 0)]))  # closes a cycle between the first two corridors
    bo = graphref.boustrophedon(h, w)
    pats.append(flat(bo[: (len(bo) * 2) // 3]))
    pats.append(flat(bo[::2]))
    uniq = []
    for p_ in pats:
        if p_ not in uniq:
            uniq.append(p_)
    return uniq


def cases_for(tier):
    out = []
    maxn = 4 if tier == "quick" else 5
    for n in range(1, maxn + 1):
        for edges in graphref.simple_graphs(n):
            variants = (0, 1, 3) if n <= 4 else (0,)
            for var in variants:
                if var and not edges:
                    continue
                es = graphref.orient(edges, var)
                forms = FORMS_GRAPH if (n <= 3 and var == 0) else (["vars"] if var or n == 5 else ["vars", "neg", "const", "used-solver"])
                for form in forms:
                    for acyclic in (False, True):
                        for ugp, cfg in ((False, False), (True, False), ("default", False), ("default", True), (False, True)):
                            if form != "vars" and (ugp, cfg) not in ((False, False), (True, False)):
                                continue
                            if n == 5 and (ugp, cfg) not in ((False, False),):
                                continue
                            out.append({"form": form, "n": n, "edges": es, "acyclic": acyclic, "ugp": ugp, "cfg": cfg})
    for n in (2, 3):
        for edges in graphref.simple_graphs(n):
            for acyclic in (False, True):
                for ugp in (False, True):
                    out.append({"form": "vars", "n": n, "edges": list(edges), "acyclic": acyclic, "ugp": ugp, "cfg": False, "intflags": True})
    # the same Graph object and Solver used for two independent vertex layers
    for n, es in gcheck.layer_graphs():
        for acyclic in (False, True):
            for ugp in (False, True):
                if tier == "quick" and n > 3 and ugp:
                    continue
                out.append({"form": "vars", "n": n, "edges": list(es), "acyclic": acyclic, "ugp": ugp, "cfg": False, "layers": 2, "patterns": []})
    # multigraphs: parallel edges (same and opposite orientation) do not change connectivity, only trees
    for n in (2, 3):
        for edges in graphref.multigraphs(n, 4 if n == 2 else 4, 2 if n == 3 else 3):
            if len(edges) == len(set(edges)):
                continue
            for var in (0, 3):
                es = graphref.orient(edges, var)
                for acyclic in (False, True):
                    for ugp in (False, True):
                        out.append({"form": "vars", "n": n, "edges": es, "acyclic": acyclic, "ugp": ugp, "cfg": False})
    # Graph objects with a history: some edges added only after the object has been used by other constraints
    for n in (3, 4):
        for edges in graphref.simple_graphs(n):
            if 2 <= len(edges) <= 5:
                for grown in (1, len(edges) - 1, len(edges)):
                    for acyclic in (False, True):
                        for ugp in (False, True):
                            out.append({"form": "vars", "n": n, "edges": list(edges), "acyclic": acyclic, "ugp": ugp, "cfg": False, "grown": grown})
    # selected 6-vertex graphs
    six = {
        "path6": [(i, i + 1) for i in range(5)],
        "cycle6": [(i, (i + 1) % 6) for i in range(6)],
        "star6": [(0, i) for i in range(1, 6)],
        "two-triangles": [(0, 1), (1, 2), (0, 2), (3, 4), (4, 5), (3, 5)],
        "K33": [(a, b) for a in range(3) for b in range(3, 6)],
    }
    for name, es in six.items():
        for acyclic in (False, True):
            for ugp in (False, True):
                out.append({"form": "vars", "n": 6, "edges": es, "acyclic": acyclic, "ugp": ugp, "cfg": False, "name": name})
    # structured mid-sized graphs (shared vertices between cycles, degree-4 trees, isolated vertices, cubic graphs), all 2^n patterns
    for name, n, es in graphref.zoo():
        if tier == "quick" and n > 7 and "merge-order" not in name:
            continue
        relab = name.endswith("~relabelled")
        for acyclic in (False, True):
            for ugp in (False, True):
                if tier == "quick" and ugp != relab:
                    continue
                out.append({"form": "vars", "n": n, "edges": es, "acyclic": acyclic, "ugp": ugp, "cfg": False, "name": name})
    maxcells = 8 if tier == "quick" else 12
    for h, w in graphref.grid_shapes(maxcells):
        for acyclic in (False, True):
            for ugp, cfg in ((False, False), (True, False), ("default", True)):
                if h * w > 9 and (ugp, cfg) != (False, False):
                    continue
                out.append({"form": "grid", "n": h * w, "shape": [h, w], "acyclic": acyclic, "ugp": ugp, "cfg": cfg})
    # scale family (deterministic, not exhaustive): boards too large for all 2^n patterns
    big = [(5, 5), (4, 6), (6, 4), (1, 16), (16, 1), (3, 7)] if tier == "quick" else [(5, 5), (4, 6), (6, 4), (6, 6), (3, 9), (9, 3), (1, 24), (24, 1), (7, 7), (5, 8)]
    for h, w in big:
        for acyclic in (False, True):
            for ugp in (False, True):
                out.append({"form": "grid", "n": h * w, "shape": [h, w], "acyclic": acyclic, "ugp": ugp, "cfg": False, "patterns": scale_patterns(h, w)})
            out.append({"form": "vars", "n": h * w, "edges": graphref.orient(graphref.grid_edges(h, w), 3), "acyclic": acyclic, "ugp": False, "cfg": False,
                        "shape": [h, w], "patterns": scale_patterns(h, w)})
    # board histories: the grid form on board B right after board A in the same process (shapes that collide under careless cache keys)
    for a, b in gcheck.grid_history_pairs(tier):
        h, w = b
        far = [(y, x) in ((0, 0), (h - 1, w - 1)) for y in range(h) for x in range(w)]
        col = [x == 0 for y in range(h) for x in range(w)]
        row = [y == 0 for y in range(h) for x in range(w)]
        for acyclic in (False, True):
            out.append({"form": "grid", "n": h * w, "shape": [h, w], "acyclic": acyclic, "ugp": False, "cfg": False, "before": list(a), "patterns": [far, col, row] + scale_patterns(h, w)[:3]})
    # large family (a few hand-picked patterns far beyond the exhaustive bound: thresholds such as 256 vertices)
    for n in ((300,) if tier == "quick" else (130, 257, 300, 600)):
        path = [(i, i + 1) for i in range(n - 1)]
        pats = [[True] * n, [i < 100 or i >= n - 100 for i in range(n)] if n > 250 else [i != n // 2 for i in range(n)], [False] * n, [i == 0 or i == n - 1 for i in range(n)], [i >= 2 for i in range(n)]]
        cyc = path + [(n - 1, 0)]
        for acyclic in (False, True):
            out.append({"form": "vars", "n": n, "edges": path, "acyclic": acyclic, "ugp": False, "cfg": False, "patterns": pats, "shape": [1, n]})
            out.append({"form": "vars", "n": n, "edges": graphref.orient(cyc, 3), "acyclic": acyclic, "ugp": False, "cfg": False, "patterns": pats[:2] + [[i != 7 for i in range(n)]], "shape": [1, n]})
        out.append({"form": "vars", "n": n, "edges": path, "acyclic": False, "ugp": True, "cfg": False, "patterns": pats, "shape": [1, n]})
    for k in ((17,) if tier == "quick" else (17, 20)):
        full = [True] * (k * k)
        two = [(y < 2 and x < 2) or (y >= k - 2 and x >= k - 2) for y in range(k) for x in range(k)]
        for acyclic in (False, True):
            out.append({"form": "grid", "n": k * k, "shape": [k, k], "acyclic": acyclic, "ugp": False, "cfg": False, "patterns": [full, two, scale_patterns(k, k)[0]]})
    return out


_CASES = []


def prepare(tier):
    global _CASES
    _CASES = cases_for(tier)
    return _CASES


def worker(shard, part):
    gcheck.BRUTE_LIMIT = _BRUTE[0]
    lo, hi, plo, phi = shard
    for case in _CASES[lo:hi]:
        run_case(part, case, None if plo is None else (plo, phi))
    if lo % 50 == 0 and lo < len(_CASES):
        part.sample(_CASES[lo])


def cost(case):
    if "patterns" in case:
        return 40 * len(case["patterns"])
    c = 1 << case["n"]
    if case["form"] == "eq":
        c *= 1 << case["n"]
    return c


def make_shards(cases, target):
    shards = []
    lo = 0
    acc = 0
    for i, c in enumerate(cases):
        acc += cost(c)
        if acc >= target:
            shards.append((lo, i + 1))
            lo = i + 1
            acc = 0
    if lo < len(cases):
        shards.append((lo, len(cases)))
    return shards


def _describe(shard):
    lo, hi, plo, phi = shard
    c = _CASES[lo]
    return "%d case(s) %s %s" % (hi - lo, (plo, phi), {k: (v if not isinstance(v, (list, tuple)) or len(v) < 6 else "[%d]" % len(v)) for k, v in c.items()})


worker.describe = _describe


_BRUTE = [300]


def main(tier, seed, only=None):
    _BRUTE[0] = 300 if tier == "quick" else 5000
    cases = prepare(tier)
    run = harness.Run(
        PID,
        tier,
        seed,
        "exploration",
        "all labelled simple graphs with n<=%d vertices (n<=4 in 3 edge-list presentations: as is, every pair reversed, alternating), "
        "multigraphs on 2-3 vertices with parallel edges in both orientations, 5 selected 6-vertex graphs, all grid shapes with <= %d cells (BoolArray2D form); all 2^n activity patterns; is_active as "
        "variables / BoolArray1D / negated variables / a Solver that already holds other variables, constraints and a second connectivity constraint / Python constants / mixed variable-constant lists / x==y over two vectors "
        "(all 4^n underlying assignments, n<=3); acyclic off/on; use_graph_primitive False / True / None with the config flag off/on. "
        "Scale family (not exhaustive): paths and cycles on 300 (thorough 600) vertices, the 17x17 grid, and on boards up to %s the serpentine corridor, its one-cell perturbations, the full board, a closed cycle, "
        "boustrophedon prefixes and sparse sets.  Each (case, pattern) is one find_answer through cspuz's z3 backend (native-aware harness backend when the program "
        "contains the native operator).  Oracle: induced subgraph connected (tree when acyclic), empty set admitted.  "
        "Non-trivial = distinct (graph, pattern) pairs; both admitted and rejected patterns are counted in outcomes."
        % (4 if tier == "quick" else 5, 8 if tier == "quick" else 12, "5x5 / 4x6 / 1x16" if tier == "quick" else "7x7 / 5x8 / 1x24"),
    )
    run.assumptions = [
        "implementation under test = cspuz encoding + cspuz z3 backend (C01 establishes the backend on this fragment)",
        "native route: R-native semantics of graph-active-vertices-connected from the cspuz docstring (mc/graphref.py)",
        "graphs with more vertices are covered by the small-scope argument (the encoding is local: per-vertex rank comparison with neighbours)",
    ]
    shards = gcheck.split_shards(cases, cost, 600)
    first, rest = gcheck.heavy_first(shards, _CASES)
    par.run_shards(run, worker, rest, seed, first=first)
    cov = {
        "evaluations": run.c("evaluations"),
        "distinct_nontrivial": sum(1 << len(set(range(g[0]))) for g in run.total.sets.get("graphs", ())),
        "graphs": run.n("graphs"),
        "cases": len(cases),
        "exhaustive": True,
    }
    return run.finish(cov)


def replay(case):
    part = harness.Partial()
    pattern = case.get("pattern")
    c = {k: v for k, v in case.items() if k != "pattern"}
    if "edges" in c:
        c["edges"] = [tuple(e) for e in c["edges"]]
    run_case(part, c)
    mine = [v for v in part.violations if pattern is None or v.case.get("pattern") == pattern]
    return (not mine), (mine[0].detail if mine else "agrees with the oracle")
