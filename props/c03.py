"""C03 — Sugar-family backends: emitted CSP text and parsed replies are faithful.

E1: every program of the C01 generator (plus the two native graph operators on
all graphs with <= 3 vertices) is sent through each of the five backend names;
the exact text handed to the external entry point is captured and must (1) be
accepted by the strict R-sugar parser, (2) declare exactly the Solver's
variables, (3) denote the same truth value as the cspuz program under *every*
assignment, (4) name exactly the answer keys.  E3: every well-formed reply of
both formats (all assignments, all decided-key subsets, all line orders) is fed
to the reply parsers.  End to end: the reference solver sits behind the real
module / subprocess entry points and the results must satisfy the C01 / C02
oracles for every model choice and reply order.
"""

import itertools
import os
import sys
import warnings

from mc import harness, par, progs, refsem, sugar_model, tape
from props import c01, c02

PID = "C03"
NAMES = ["sugar", "sugar_extended", "csugar", "enigma_csp", "cspuz_core"]
DOMS = ((-1, 1), (0, 2))
_TERMS = {}


def expected_decl(v):
    from cspuz.expr import BoolVar

    if isinstance(v, BoolVar):
        return ("b%d" % v.id, "bool", None, None)
    return ("i%d" % v.id, "int", v.lo, v.hi)


def check_emission(part, case, solver, text, keymask):
    """Checks (1)-(4) on one captured text.  keymask None = answer-finder mode."""
    from cspuz.expr import BoolVar

    part.count("texts_checked")
    try:
        prog = sugar_model.parse(text)
    except sugar_model.ParseError as e:
        part.violation("emission:not-well-formed", case, {"error": str(e), "text": text[-300:]})
        return False
    want = [expected_decl(v) for v in solver.variables]
    if prog.decls != want:
        part.violation("emission:declarations-differ", case, {"declared": prog.decls[:8], "expected": want[:8]})
        return False
    if keymask is None:
        if prog.keys is not None:
            part.violation("emission:key-line-in-finder-mode", case, {"keys": prog.keys})
            return False
    else:
        wantk = [expected_decl(v)[0] for v, k in zip(solver.variables, keymask) if k]
        if prog.keys is None or sorted(prog.keys) != sorted(wantk):
            part.violation("emission:answer-keys-differ", case, {"keys": prog.keys, "expected": wantk})
            return False
    if len(prog.constraints) != len(solver.constraints):
        part.violation("emission:constraint-count", case, {"text": len(prog.constraints), "posted": len(solver.constraints)})
        return False
    names = [d[0] for d in want]
    for env in refsem.assignments(solver.variables):
        tenv = dict((n, env[v.id]) for n, v in zip(names, solver.variables))
        for c_text, c_expr in zip(prog.constraints, solver.constraints):
            try:
                a = sugar_model.ev(c_text, tenv)
            except sugar_model.TypeErr as e:
                part.violation("emission:ill-typed-text", case, {"error": str(e), "text": text[-300:]})
                return False
            b = refsem.ev(c_expr, env)
            part.count("denotation_points")
            if a is not b:
                part.violation("emission:denotation-differs", case, {"assignment": tenv, "text_value": a, "program_value": b, "text": text[-300:]})
                return False
    return True


def run_program(part, wire, build, case, rotate, deep):
    """build() -> (solver, variables) posts the program on a fresh Solver.  Sends it through the five
    names (finder mode), and through solve() with several key subsets."""
    s0, vs0 = build()
    sols = refsem.solutions(vs0, s0.constraints)
    seen_texts = set()
    n = len(vs0)
    for bi, name in enumerate(NAMES):
        explore_all = deep and (bi == rotate % len(NAMES))

        def one(t):
            s, vs = build()
            wire.tape = t
            wire.calls = []
            for v in vs:
                v.sol = "stale"
            try:
                r = s.find_answer(backend=name)
            except tape.ReplayDivergence:
                raise
            except Exception as e:
                return ("raises", type(e).__name__, repr(e)[:200]), s, vs
            return ("ok", r), s, vs

        for choices, (obs, s, vs) in tape.explore(one, max_deviations=None if explore_all else 0):
            part.count("executions")
            c = dict(case)
            c.update({"backend": name, "mode": "find_answer", "tape": choices})
            if obs[0] == "raises":
                part.violation("%s:find_answer-raises-%s" % (name, obs[1]), c, {"exception": obs[2]})
                continue
            for text in wire.calls:
                if text not in seen_texts:
                    seen_texts.add(text)
                    check_emission(part, c, s, text, None)
            if len(wire.calls) != 1:
                part.violation("%s:external-solver-called-%d-times" % (name, len(wire.calls)), c, {})
            r = obs[1]
            if r is not bool(sols):
                part.violation("%s:wrong-verdict" % name, c, {"returned": repr(r), "solutions": len(sols)})
            elif r:
                model = tuple(v.sol for v in vs)
                if any(not refsem.sol_typed_ok(v, v.sol) for v in vs):
                    part.violation("%s:sol-type-or-bounds" % name, c, {"sol": repr(model)})
                elif model not in set(sols):
                    part.violation("%s:model-not-a-solution" % name, c, {"sol": repr(model)})
            else:
                if any(v.sol is not None for v in vs):
                    part.violation("%s:sol-not-cleared-on-unsat" % name, c, {"sol": repr(tuple(v.sol for v in vs))})
    # solve(): key subsets none / first / alternating / all
    masks = [tuple([True] * n), tuple(k % 2 == 0 for k in range(n))]
    if deep:
        masks = c02.keymasks(n)
    for mi, km in enumerate(dict.fromkeys(masks)):
        name = NAMES[(rotate + mi) % len(NAMES)]

        def one2(t):
            s, vs = build()
            for v, k in zip(vs, km):
                if k:
                    s.add_answer_key(v)
            wire.tape = t
            wire.calls = []
            with warnings.catch_warnings():
                warnings.simplefilter("ignore")
                try:
                    r = s.solve(backend=name)
                except tape.ReplayDivergence:
                    raise
                except Exception as e:
                    return ("raises", type(e).__name__, repr(e)[:200]), s, vs
            return ("ok", r), s, vs

        # deduction backends: the tape orders the reply lines (<= 4! orders) - explored completely; `sugar` falls back to
        # refute-and-resolve over the wire, whose model choices are explored completely by C02 and with <= 1 deviation here
        for choices, (obs, s, vs) in tape.explore(one2, max_deviations=(None if name != "sugar" else 1) if deep else 0):
            part.count("executions")
            c = dict(case)
            c.update({"backend": name, "mode": "solve", "keys": list(km), "tape": choices})
            if obs[0] == "raises":
                part.violation("%s:solve-raises-%s" % (name, obs[1]), c, {"exception": obs[2]})
                continue
            if name != "sugar":
                for text in wire.calls:
                    if text not in seen_texts:
                        seen_texts.add(text)
                        check_emission(part, c, s, text, km)
            c02.judge(part, c, vs, sols, km, obs[1], name)
    part.outcome("SAT" if sols else "UNSAT")
    part.add("programs", (case.get("src") or repr(case.get("native") or ("values", case.get("V"), case.get("shape"))), case.get("goal")))


def term_builder(kind, src, goal):
    def build():
        from cspuz import Solver
        from cspuz.expr import BoolExpr, Expr, Op

        s = Solver()
        ns = progs.namespace(s, DOMS)
        root = eval(src, ns)
        if goal == "pos":
            s.ensure(root)
        elif goal == "neg":
            s.ensure(BoolExpr(Op.NOT, [root]) if isinstance(root, Expr) else (not root))
        else:
            s.ensure(root == goal)
        return s, list(s.variables)

    return build


def run_term(part, wire, kind, src, idx, deep):
    from cspuz import Solver
    from cspuz.expr import Expr

    s = Solver()
    ns = progs.namespace(s, DOMS)
    try:
        root = eval(src, ns)
    except Exception:
        part.count("skipped_construction")  # judged by C01 / C12
        return
    if not progs.admissible(kind, root) or not isinstance(root, Expr):
        part.count("skipped_not_a_cspuz_tree")
        return
    if kind == "bool":
        goals = ["pos", "neg"]
    else:
        vals = sorted(set(refsem.ev(root, env) for env in refsem.assignments(list(s.variables))))
        goals = [vals[0], vals[-1] + 1]
    for g in goals:
        case = {"form": "term", "kind": kind, "src": src, "goal": g}
        run_program(part, wire, term_builder(kind, src, g), case, idx, deep)


# --------------------------------------------------------------- native operators
def native_cases(tier):
    """(description, builder) for programs containing the native operators."""
    from mc import graphref

    out = []
    maxn = 3
    for n in range(1, maxn + 1):
        for edges in graphref.simple_graphs(n):
            for variant in (0, 1):
                es = graphref.orient(edges, variant)
                out.append({"op": "connected", "n": n, "edges": es})
            if edges or n == 1:
                sizes_menu = [None, 1, 2, "var"]
                for sizes in itertools.product(sizes_menu, repeat=n):
                    if tier == "quick" and n == 3 and sum(1 for x in sizes if x is not None) > 2:
                        continue
                    out.append({"op": "division", "n": n, "edges": list(edges), "sizes": list(sizes)})
    return out


def native_builder(nc):
    def build():
        from cspuz import Solver, graph

        s = Solver()
        g = graph.Graph(nc["n"])
        for u, v in nc["edges"]:
            g.add_edge(u, v)
        if nc["op"] == "connected":
            act = s.bool_array(nc["n"])
            # mix of variables, a negation and a constant, as callers do
            flags = [act[i] if i % 3 != 2 else ~act[i] for i in range(nc["n"])]
            graph.active_vertices_connected(s, flags, g, use_graph_primitive=True)
        else:
            border = s.bool_array(len(nc["edges"]))
            sizes = []
            for x in nc["sizes"]:
                sizes.append(s.int_var(1, 2) if x == "var" else x)
            graph.division_connected_variable_groups_with_borders(
                s, group_size=sizes, is_border=border, graph=g, use_graph_primitive=True
            )
        return s, list(s.variables)

    return build


# ---------------------------------------------------------------------- replies
REPLY_KINDS = {"B": None, "I": (-12, 105)}
REPLY_VALUES = {"B": [True, False], "I": [-12, -1, 0, 7, 105]}


def reply_cases(part, maxn):
    """Every well-formed reply of both formats for every interleaving of <= maxn variables."""
    from cspuz import Solver
    from cspuz.backend import sugar_like

    class Stub(sugar_like.SugarLikeBackend):
        REPLY = ""

        def _call_solver(self, text):
            return type(self).REPLY

    for n in range(1, maxn + 1):
        for typing in itertools.product("BI", repeat=n):
            def fresh():
                s = Solver()
                vs = [s.bool_var() if k == "B" else s.int_var(*REPLY_KINDS["I"]) for k in typing]
                return s, vs

            names = [("b%d" if k == "B" else "i%d") % i for i, k in enumerate(typing)]
            # answer-finder replies: every assignment x every line order (n <= 3 -> <= 6 orders)
            for vals in itertools.product(*[REPLY_VALUES[k] for k in typing]):
                lines = ["a %s\t%s" % (nm, sugar_model.fmt(v)) for nm, v in zip(names, vals)]
                for perm in itertools.permutations(range(n)):
                    Stub.REPLY = "s SATISFIABLE\n" + "".join(lines[p] + "\n" for p in perm) + "a\n"
                    s, vs = fresh()
                    for v in vs:
                        v.sol = "stale"
                    case = {"form": "reply", "mode": "finder", "typing": "".join(typing), "reply": Stub.REPLY}
                    part.count("executions")
                    part.count("replies")
                    try:
                        r = s.find_answer(backend=Stub)
                    except Exception as e:
                        part.violation("reply:finder-raises-" + type(e).__name__, case, {"exception": repr(e)[:200]})
                        continue
                    got = tuple(v.sol for v in vs)
                    if r is not True or got != vals or any(type(a) is not type(b) for a, b in zip(got, vals)):
                        part.violation("reply:finder-sol-differs", case, {"returned": repr(r), "sol": repr(got), "expected": repr(vals)})
            Stub.REPLY = "s UNSATISFIABLE\n"
            s, vs = fresh()
            for v in vs:
                v.sol = "stale"
            part.count("executions")
            part.count("replies")
            case = {"form": "reply", "mode": "finder", "typing": "".join(typing), "reply": Stub.REPLY}
            try:
                r = s.find_answer(backend=Stub)
                if r is not False or any(v.sol is not None for v in vs):
                    part.violation("reply:finder-unsat-mishandled", case, {"returned": repr(r), "sol": repr([v.sol for v in vs])})
            except Exception as e:
                part.violation("reply:finder-raises-" + type(e).__name__, case, {"exception": repr(e)[:200]})
            # deduction replies: every key subset, every decided subset of it, every value, every order
            for km in c02.keymasks(n):
                keys = [i for i in range(n) if km[i]]
                for decided in c02.all_subsets(keys):
                    for vals in itertools.product(*[REPLY_VALUES[typing[i]] for i in decided]):
                        lines = ["%s %s" % (names[i], sugar_model.fmt(v)) for i, v in zip(decided, vals)]
                        for perm in itertools.permutations(range(len(lines))):
                            Stub.REPLY = "sat\n" + "".join(lines[p] + "\n" for p in perm)
                            s, vs = fresh()
                            for v, k in zip(vs, km):
                                v.sol = "stale"
                                if k:
                                    s.add_answer_key(v)
                            case = {"form": "reply", "mode": "deduction", "typing": "".join(typing), "keys": list(km), "reply": Stub.REPLY}
                            part.count("executions")
                            part.count("replies")
                            with warnings.catch_warnings():
                                warnings.simplefilter("ignore")
                                try:
                                    r = s.solve(backend=Stub)
                                except Exception as e:
                                    part.violation("reply:deduction-raises-" + type(e).__name__, case, {"exception": repr(e)[:200]})
                                    continue
                            exp = dict(zip(decided, vals))
                            bad = r is not True
                            for i in keys:
                                got = vs[i].sol
                                if i in exp:
                                    if got != exp[i] or type(got) is not type(exp[i]):
                                        bad = True
                                elif got is not None:
                                    bad = True
                            if bad:
                                part.violation("reply:deduction-sol-differs", case, {"returned": repr(r), "sol": repr([v.sol for v in vs]), "expected": repr(exp)})
                Stub.REPLY = "unsat\n"
                s, vs = fresh()
                for v, k in zip(vs, km):
                    v.sol = "stale"
                    if k:
                        s.add_answer_key(v)
                part.count("executions")
                part.count("replies")
                case = {"form": "reply", "mode": "deduction", "typing": "".join(typing), "keys": list(km), "reply": Stub.REPLY}
                with warnings.catch_warnings():
                    warnings.simplefilter("ignore")
                    try:
                        r = s.solve(backend=Stub)
                        if r is not False:
                            part.violation("reply:deduction-unsat-mishandled", case, {"returned": repr(r)})
                    except Exception as e:
                        part.violation("reply:deduction-raises-" + type(e).__name__, case, {"exception": repr(e)[:200]})


# ----------------------------------------------------------- real subprocess path
def subprocess_cases(part, lo, hi):
    """sugar / sugar_extended through the real run_subprocess with the reference solver as executable."""
    from cspuz import config

    lst = _TERMS["subproc"]
    saved = (config.backend_path, config.solver_timeout)
    config.backend_path = os.path.join(harness.VERIF, "mc", "sugar_model.py")
    from cspuz.backend import _subproc
    import types

    saved_ps = (_subproc._PSUTIL_AVAILABLE, getattr(_subproc, "psutil", None))
    try:
        for idx in range(lo, hi):
            kind, src = lst[idx]
            # the three ways run_subprocess can be driven: no timeout, timeout without psutil, timeout with psutil (Popen path)
            mode = idx % 3
            config.solver_timeout = None if mode == 0 else 60
            _subproc._PSUTIL_AVAILABLE = mode == 2
            if mode == 2:
                _subproc.psutil = types.SimpleNamespace(Process=lambda pid: None)
            for goal in ("pos", "neg"):
                build = term_builder(kind, src, goal)
                try:
                    s0, vs0 = build()
                except Exception:
                    part.count("skipped_construction")
                    continue
                from cspuz.expr import Expr

                if not s0.constraints or not isinstance(s0.constraints[0], Expr):
                    part.count("skipped_not_a_cspuz_tree")
                    continue
                sols = refsem.solutions(vs0, s0.constraints)
                for name in ("sugar", "sugar_extended"):
                    for pick in (0, 5):
                        os.environ["SUGAR_MODEL_PICK"] = str(pick)
                        os.environ["SUGAR_MODEL_ORDER"] = str(pick)
                        os.environ["SUGAR_MODEL_STDERR"] = "1" if pick else "0"  # a solver that is chatty on stderr
                        s, vs = build()
                        case = {"form": "subprocess", "kind": kind, "src": src, "goal": goal, "backend": name, "pick": pick}
                        part.count("executions")
                        part.count("subprocess_calls")
                        try:
                            r = s.find_answer(backend=name)
                        except Exception as e:
                            part.violation("%s:subprocess-raises-%s" % (name, type(e).__name__), case, {"exception": repr(e)[:200]})
                            continue
                        if r is not bool(sols) or (r and tuple(v.sol for v in vs) not in set(sols)):
                            part.violation("%s:subprocess-find_answer-wrong" % name, case, {"returned": repr(r), "sol": repr([v.sol for v in vs])})
                        if name == "sugar" and (idx + pick) % 4:
                            continue  # solve() over `sugar` costs one process per refinement round: every 4th program
                        s, vs = build()
                        km = tuple([True] * len(vs))
                        s.add_answer_key(vs)
                        try:
                            r = s.solve(backend=name)
                        except Exception as e:
                            part.violation("%s:subprocess-raises-%s" % (name, type(e).__name__), case, {"exception": repr(e)[:200]})
                            continue
                        part.count("executions")
                        c02.judge(part, case, vs, sols, km, r, name + "-subprocess")
    finally:
        config.backend_path, config.solver_timeout = saved
        _subproc._PSUTIL_AVAILABLE = saved_ps[0]
        if saved_ps[1] is None:
            if hasattr(_subproc, "psutil"):
                del _subproc.psutil
        else:
            _subproc.psutil = saved_ps[1]
        os.environ.pop("SUGAR_MODEL_PICK", None)
        os.environ.pop("SUGAR_MODEL_ORDER", None)
        os.environ.pop("SUGAR_MODEL_STDERR", None)


def run_scale(part, n):
    """Programs with n variables (ids beyond 256), flat operators over all of them, deep chains, and replies naming every
    variable: emission is parsed strictly and compared with the program on a handful of assignments (the space is far too
    large to enumerate); the reply parsers must put every value on the right variable."""
    from cspuz import Solver, alldifferent, count_true, fold_or
    from cspuz.backend import sugar_like

    sys.setrecursionlimit(max(sys.getrecursionlimit(), 20000))  # my own evaluators are recursive; the library must not be
    captured = []

    class Stub(sugar_like.SugarLikeBackend):
        REPLY = "s UNSATISFIABLE\n"

        def _call_solver(self, text):
            captured.append(text)
            return type(self).REPLY

    s = Solver()
    vs = []
    for k in range(n):
        vs.append(s.bool_var() if k % 3 else s.int_var(-5, 1000 + k))
    bools = [v for k, v in enumerate(vs) if k % 3]
    ints = [v for k, v in enumerate(vs) if not k % 3]
    s.ensure(count_true(bools) == len(bools) - 1)
    s.ensure(fold_or(bools))
    s.ensure(alldifferent(ints))
    acc = ints[0]
    for v in ints[1:]:
        acc = acc + v
    s.ensure(acc >= 0)
    chain = bools[0]
    for v in bools[1:]:
        chain = chain | v
    s.ensure(chain)
    s.add_answer_key(vs[::2])
    case = {"form": "scale", "n": n}
    for mode in ("finder", "deduction"):
        part.count("executions")
        try:
            if mode == "finder":
                s.find_answer(backend=Stub)
            else:
                Stub.REPLY = "unsat\n"
                s.solve(backend=Stub)
        except Exception as e:
            part.violation("scale:%s-raises-%s" % (mode, type(e).__name__), case, {"exception": repr(e)[:200]})
            return
    if len(captured) != 2:
        part.violation("scale:external-solver-calls", case, {"calls": len(captured)})
        return
    keymask = [s.is_answer_key[v.id] for v in vs]
    for text, km in ((captured[0], None), (captured[1], keymask)):
        part.count("texts_checked")
        try:
            prog = sugar_model.parse(text)
        except sugar_model.ParseError as e:
            part.violation("scale:emission-not-well-formed", case, {"error": str(e)})
            return
        if prog.decls != [expected_decl(v) for v in vs]:
            part.violation("scale:declarations-differ", case, {})
            return
        wantk = [expected_decl(v)[0] for v, k in zip(vs, keymask) if k] if km else None
        if (prog.keys is None) != (km is None) or (km and sorted(prog.keys) != sorted(wantk)):
            part.violation("scale:answer-keys-differ", case, {"keys": (prog.keys or [])[:5]})
            return
        names = [d[0] for d in prog.decls]
        samples = [
            {v.id: (True if expected_decl(v)[1] == "bool" else idx) for idx, v in enumerate(vs)},
            {v.id: (False if expected_decl(v)[1] == "bool" else 7) for idx, v in enumerate(vs)},
            {v.id: ((idx % 2 == 0) if expected_decl(v)[1] == "bool" else (idx % 5)) for idx, v in enumerate(vs)},
            {v.id: ((idx != n - 1 and idx != n - 2) if expected_decl(v)[1] == "bool" else 1000 - idx) for idx, v in enumerate(vs)},
        ]
        for env in samples:
            tenv = dict((nm, env[v.id]) for nm, v in zip(names, vs))
            for c_text, c_expr in zip(prog.constraints, s.constraints):
                part.count("denotation_points")
                if sugar_model.ev(c_text, tenv) is not refsem.ev(c_expr, env):
                    part.violation("scale:denotation-differs", case, {"constraint": len(prog.constraints)})
                    return
    # replies naming all n variables (answer finder) and every second key (deduction)
    vals = [(k % 2 == 0) if expected_decl(v)[1] == "bool" else (k * 3 - 5) for k, v in enumerate(vs)]
    names = [expected_decl(v)[0] for v in vs]
    lines = ["a %s\t%s" % (nm, sugar_model.fmt(x)) for nm, x in zip(names, vals)]
    Stub.REPLY = "s SATISFIABLE\n" + "".join(l + "\n" for l in reversed(lines)) + "a\n"
    part.count("executions")
    part.count("replies")
    try:
        r = s.find_answer(backend=Stub)
        got = [v.sol for v in vs]
        if r is not True or got != vals or any(type(a) is not type(b) for a, b in zip(got, vals)):
            bad = [k for k in range(n) if got[k] != vals[k]][:3]
            part.violation("scale:finder-reply-sol-differs", case, {"first_wrong_variables": bad})
    except Exception as e:
        part.violation("scale:finder-reply-raises-" + type(e).__name__, case, {"exception": repr(e)[:200]})
    decided = [k for k in range(0, n, 2) if k % 4 == 0]
    Stub.REPLY = "sat\n" + "".join("%s %s\n" % (names[k], sugar_model.fmt(vals[k])) for k in decided)
    part.count("executions")
    part.count("replies")
    try:
        r = s.solve(backend=Stub)
        bad = [k for k in range(0, n, 2) if vs[k].sol != (vals[k] if k in decided else None) or (k in decided and type(vs[k].sol) is not type(vals[k]))]
        if r is not True or bad:
            part.violation("scale:deduction-reply-sol-differs", case, {"first_wrong_variables": bad[:3]})
    except Exception as e:
        part.violation("scale:deduction-reply-raises-" + type(e).__name__, case, {"exception": repr(e)[:200]})
    part.add("programs", ("scale", n))


# --------------------------------------------------------------- value sweep
VALUES = [-70000, -300, -129, -128, -7, -6, -5, 255, 256, 257, 300, 70000, 2**31 + 1]


def values_builder(V, shape):
    """Programs whose integers live around V (outside the interpreter's small-int cache, multi-digit, negative): one key is
    forced to V by the constraints while the others vary, so the refinement route has to compare equal values that are
    distinct objects."""

    def build():
        from cspuz import Solver

        s = Solver()
        x = s.int_var(V - 1, V + 1)
        b = s.bool_var()
        y = s.int_var(V, V + 1)
        if shape == 0:
            s.ensure(x == V)
            s.ensure(b.then(y == V + 1))
        elif shape == 1:
            s.ensure(x + 1 == y)
            s.ensure(b == (y != V + 1))
            s.ensure(x >= V)
        else:
            s.ensure(b.cond(x, y) == V)
            s.ensure(x <= y)
        return s, list(s.variables)

    return build


def poison_programs():
    """Programs whose emission fails half-way (an operand no backend can render, nested inside a constraint): the failure
    itself is not judged here - what the NEXT, valid program is turned into is."""
    from cspuz import Solver, graph
    from cspuz.expr import BoolExpr, IntExpr, Op

    def native_float(s):
        g = graph.Graph(3)
        g.add_edge(0, 1)
        g.add_edge(1, 2)
        x = s.bool_array(3)
        graph.active_vertices_connected(s, [x[0], 0.5, x[2]], g, use_graph_primitive=True)

    def string_operand(s):
        b = s.bool_array(2)
        s.ensure(BoolExpr(Op.OR, [b[0], BoolExpr(Op.AND, [b[1], "oops"])]))

    def none_in_sum(s):
        i = s.int_array(2, 0, 2)
        s.ensure(BoolExpr(Op.EQ, [IntExpr(Op.ADD, [i[0], IntExpr(Op.ADD, [i[1], None])]), 2]))

    def foreign_variable(s):
        other = Solver()
        other.bool_array(7)
        y = other.bool_var()
        b = s.bool_var()
        s.ensure(b | (b & y))

    return [("native-float", native_float), ("string-operand", string_operand), ("none-in-sum", none_in_sum), ("foreign-variable", foreign_variable)]


def run_after_error(part, wire, pidx):
    """E2 flavour: a rejected emission, then valid programs through every backend name in the same process."""
    from cspuz import Solver

    pname, poison = poison_programs()[pidx]
    followers = [("bool", "b0 | b1", "pos"), ("bool", "b0.then(i0 == i1)", "neg"), ("int", "b0.cond(i0, 1) + i1", 2), ("bool", "alldifferent(i0, i1, 1)", "pos")]
    for bi, name in enumerate(NAMES):
        for api in ("find_answer", "solve"):
            s = Solver()
            try:
                poison(s)
                wire.tape = tape.Tape([]) if hasattr(tape, "Tape") else None
                wire.calls = []
                getattr(s, api)(backend=name)
                part.count("poison_accepted")  # not judged: the poison only has to leave nothing behind
            except tape.ReplayDivergence:
                raise
            except Exception:
                part.count("poison_rejected")
            for kind, src, goal in followers:
                case = {"form": "term", "kind": kind, "src": src, "goal": goal, "after_error": pname, "poisoned_backend": name, "poisoned_api": api}
                run_program(part, wire, term_builder(kind, src, goal), case, bi, False)


def worker(shard, part):
    what = shard[0]
    if what == "after-error":
        wire = c02.WireEnv()
        wire.install()
        try:
            run_after_error(part, wire, shard[1])
        finally:
            wire.uninstall()
        return
    if what == "scale":
        old = sys.getrecursionlimit()
        try:
            run_scale(part, shard[1])
        finally:
            sys.setrecursionlimit(old)
        return
    if what == "terms":
        _, strat, lo, hi, deep = shard
        wire = c02.WireEnv()
        wire.install()
        try:
            lst = _TERMS[strat]
            for idx in range(lo, hi):
                kind, src = lst[idx]
                run_term(part, wire, kind, src, idx, deep)
            if lo % 2000 == 0 and wire.calls:
                part.sample({"src": lst[hi - 1][1], "emitted_text": wire.calls[-1]})
        finally:
            wire.uninstall()
    elif what == "native":
        _, lo, hi = shard
        wire = c02.WireEnv()
        wire.install()
        try:
            cases = _TERMS["native"]
            for idx in range(lo, hi):
                nc = cases[idx]
                run_program(part, wire, native_builder(nc), {"form": "native", "native": nc}, idx, True)
            if wire.calls:
                part.sample({"native": cases[hi - 1], "emitted_text": wire.calls[-1]})
        finally:
            wire.uninstall()
    elif what == "values":
        wire = c02.WireEnv()
        wire.install()
        try:
            for k, shape in enumerate((0, 1, 2)):
                run_program(part, wire, values_builder(shard[1], shape), {"form": "values", "V": shard[1], "shape": shape}, k + abs(shard[1]), True)
        finally:
            wire.uninstall()
    elif what == "replies":
        reply_cases(part, shard[1])
    elif what == "subproc":
        subprocess_cases(part, shard[1], shard[2])


def prepare(tier):
    global _TERMS
    m_full, m_min, m_red = {}, {}, {}
    strata = {}
    strata["full-k01"] = [(k, s) for n in (0, 1) for k in ("bool", "int") for s in progs.terms(k, n, progs.FULL, m_full)]
    if tier == "quick":
        strata["min-k2"] = [(k, s) for k in ("bool", "int") for s in progs.terms(k, 2, progs.MIN, m_min)]
    else:
        strata["red-k2"] = [(k, s) for k in ("bool", "int") for s in progs.terms(k, 2, progs.RED, m_red)]
    _TERMS = dict(strata)
    _TERMS["native"] = native_cases(tier)
    b1 = progs.terms("bool", 1, progs.FULL, m_full)
    stride = 40 if tier == "quick" else 4
    _TERMS["subproc"] = [("bool", s) for s in b1[::stride]]
    return strata


def main(tier, seed, only=None):
    strata = prepare(tier)
    shards = []
    for name, lst in strata.items():
        ch = 100 if name == "full-k01" else 400
        for lo in range(0, len(lst), ch):
            shards.append(("terms", name, lo, min(len(lst), lo + ch), name == "full-k01"))
    nn = len(_TERMS["native"])
    for lo in range(0, nn, 40):
        shards.append(("native", lo, min(nn, lo + 40)))
    for V in VALUES:
        shards.append(("values", V))
    for pidx in range(len(poison_programs())):
        shards.append(("after-error", pidx))
    shards.append(("replies", 2))
    shards.append(("replies", 3))
    ns = len(_TERMS["subproc"])
    for lo in range(0, ns, 3):
        shards.append(("subproc", lo, min(ns, lo + 3)))
    for n in ((30, 129, 257, 300) if tier == "quick" else (30, 129, 257, 300, 513, 1500)):
        shards.append(("scale", n))
    if only:
        shards = [s for s in shards if s[0] == only]
    run = harness.Run(
        PID,
        tier,
        seed,
        "model_checking",
        "programs: C01 generator strata FULL k<=1 (every constructor, every leaf) and %s, each root as 2 goals, plus %d native-"
        "operator programs (graph-active-vertices-connected on all labelled graphs n<=3 in 2 edge orientations with negated "
        "operands; graph-division with all size specs over {None,1,2,var}); each sent through the 5 backend names in finder "
        "mode (all model choices of the reference solver on one rotating name for k<=1) and through solve() under 2 (k<=1: all "
        "16) key subsets with all reply-line orders (k<=1); every captured text parsed strictly and compared with the cspuz program "
        "on all 36 assignments.  Replies: all typings of <=3 variables x all assignments over {T,F}/{-12,-1,0,7,105} x all line "
        "orders (finder), all key subsets x decided subsets x values x orders (deduction), plus UNSAT/unsat.  %d programs also "
        "through the real subprocess pipe with the reference solver as executable.  After-error histories: 4 programs whose emission fails half-way (float / string / None operand nested in a constraint, a variable of another Solver) through each backend name and API, each followed by 4 valid programs through all five names in the same process; the subprocess route also with a solver that writes a diagnostic to stderr before its reply.  Value sweep: 3 three-variable programs around each of %d "
        "integers (negative, beyond 256, beyond 2^31) with every key subset, model choice (<= 1 deviation on the refinement route) and reply order.  Scale family (not exhaustive): programs with 30..300 (thorough "
        "1500) interleaved variables, flat operators and chains over all of them, checked on 4 assignments, and replies naming every variable."
        % ("MIN k=2" if tier == "quick" else "RED k=2", len(_TERMS["native"]), len(_TERMS["subproc"]), len(VALUES)),
    )
    run.assumptions = [
        "the external solver is replaced by mc/sugar_model.py; its grammar and the two reply formats are my transcription of "
        "Sugar's syntax and of sugar_extension/CspuzSugarInterface.java run() (the trusted base of this check)",
        "no real sugar/csugar/cspuz_core binary is installed; the check validates cspuz's side of the wire only",
    ]
    par.run_shards(run, worker, shards, seed)
    cov = {
        "states": run.n("programs"),
        "transitions": run.c("executions"),
        "traces_validated_against_impl": run.c("executions"),
        "programs": run.n("programs"),
        "texts_checked": run.c("texts_checked"),
        "denotation_points": run.c("denotation_points"),
        "replies_fed": run.c("replies"),
        "subprocess_calls": run.c("subprocess_calls"),
        "evaluations": run.c("executions"),
        "distinct_nontrivial": run.n("programs"),
        "exhaustive": True,
    }
    return run.finish(cov)


def replay(case):
    part = harness.Partial()
    global _TERMS
    if case["form"] == "reply":
        reply_cases(part, len(case["typing"]))
        mine = [v for v in part.violations if v.case.get("reply") == case.get("reply") and v.case.get("typing") == case.get("typing") and v.case.get("keys") == case.get("keys")]
        return (not mine), (mine[0].detail if mine else "agrees")
    if case["form"] == "subprocess":
        _TERMS["subproc"] = [(case["kind"], case["src"])]
        subprocess_cases(part, 0, 1)
        return (not part.violations), (part.violations[0].detail if part.violations else "agrees")
    wire = c02.WireEnv()
    wire.install()
    try:
        if case.get("after_error"):
            pidx = [n for n, _ in poison_programs()].index(case["after_error"])
            run_after_error(part, wire, pidx)
            part.violations = [v for v in part.violations if all(v.case.get(k) == case.get(k) for k in ("src", "goal", "poisoned_backend", "poisoned_api", "backend", "mode"))]
        elif case["form"] == "values":
            run_program(part, wire, values_builder(case["V"], case["shape"]), {"form": "values", "V": case["V"], "shape": case["shape"]}, 0, True)
        elif case["form"] == "term":
            run_program(part, wire, term_builder(case["kind"], case["src"], case["goal"]), {"form": "term", "kind": case["kind"], "src": case["src"], "goal": case["goal"]}, 0, True)
        else:
            run_program(part, wire, native_builder(case["native"]), {"form": "native", "native": case["native"]}, 0, True)
    finally:
        wire.uninstall()
    return (not part.violations), (part.violations[0].detail if part.violations else "agrees")
