"""C07 — variable-group division (with/without borders) admits exactly valid partitions.

E1.  Without borders: all labelled simple graphs n<=4 (5), grids, ALL set
partitions imposed on the returned group ids (equal exactly within blocks),
group_size absent / constant / integer variable / per-vertex lists with None
holes (list, IntArray1D, 2-D list, IntArray2D, shape inference).  With borders:
ALL 2^m border patterns, graph form and BoolInnerGridFrame form, native
graph-division operator on/off.
"""

import itertools

from mc import gcheck, graphref, harness, par

PID = "C07"
_CASES = []


# ---------------------------------------------------------------- size specs
def size_specs(n, tier, small):
    """List of (name, spec).  spec: None | ('const', s) | ('var',) | ('list', [None|int]*n)."""
    out = [("absent", None)]
    for sz in range(1, n + 1):
        if n >= 5 and sz not in (1, 2, n // 2, n):
            continue
        out.append(("const%d" % sz, ("const", sz)))
    out.append(("var", ("var",)))
    menu = [None, 1, 2, 3]
    if small:
        for lst in itertools.product(menu, repeat=n):
            out.append(("list", ("list", list(lst))))
    else:
        kmax = 1  # (thorough used two specified entries per list: 113 lists on every 4-vertex graph - far too slow)
        seen = set()
        for k in range(0, kmax + 1):
            for pos in itertools.combinations(range(n), k):
                for vals in itertools.product(menu[1:] + ([4] if n >= 4 else []), repeat=k):
                    lst = [None] * n
                    for p, v in zip(pos, vals):
                        lst[p] = v
                    if tuple(lst) not in seen:
                        seen.add(tuple(lst))
                        out.append(("list", ("list", lst)))
    return out


def sizes_ok(blocks, spec, n):
    where = {}
    for b in blocks:
        for v in b:
            where[v] = len(b)
    if spec is None:
        return True
    if spec[0] == "fresh-ints":
        return all(len(b) == spec[1] for b in blocks)
    if spec[0] == "const":
        return all(len(b) == spec[1] for b in blocks)
    if spec[0] == "var":
        return len(set(len(b) for b in blocks)) <= 1
    if spec[0] == "vardom":  # one size variable with its own domain lo..hi
        return len(set(len(b) for b in blocks)) <= 1 and spec[1] <= len(blocks[0]) <= spec[2]
    if spec[0] == "varlist":  # per-vertex size variables with their own domains (None = no size given)
        return all(d is None or d[0] <= where[v] <= d[1] for v, d in enumerate(spec[1]))
    return all(s is None or where[v] == s for v, s in enumerate(spec[1]))


# ---------------------------------------------------------------- no borders
def build_plain(case):
    from cspuz import Solver, graph
    from cspuz.array import IntArray1D, IntArray2D

    s = Solver()
    if case.get("used"):
        gcheck.junk(s)
    spec = case["spec"]
    extra = []
    n = case["n"]
    if spec is None:
        gs = None
    elif spec[0] == "const":
        gs = spec[1]
    elif spec[0] == "var":
        gs = s.int_var(1, n)
    elif spec[0] == "vardom":
        gs = s.int_var(spec[1], spec[2])
    elif spec[0] == "varlist":
        gs = [None if d is None else s.int_var(d[0], d[1]) for d in spec[1]]
    elif spec[0] == "fresh-ints":
        gs = [int(str(spec[1])) for _ in range(n)]  # equal values, distinct objects
    elif spec[0] == "mixed":
        # no holes: every unspecified entry is a fresh size variable next to plain ints
        gs = [s.int_var(1, n) if x is None else x for x in spec[1]]
    else:
        gs = list(spec[1])
    form = case["form"]
    if form == "graph":
        g = gcheck.make_graph(n, case["edges"], case.get("grown"))
        if case.get("as_array") and gs is not None and isinstance(gs, list):
            # IntArray1D has no holes: unspecified entries become free variables
            arr = []
            for x in gs:
                v = s.int_var(1, n)
                if x is not None:
                    extra.append(gcheck.fix(v, x))
                arr.append(v)
            gs = IntArray1D(arr)
        gid = graph.division_connected_variable_groups(s, graph=g, group_size=gs)
        return s, list(gid), extra
    h, w = case["shape"]
    if case.get("before"):
        gcheck.warm_grid(tuple(case["before"]))
    if isinstance(gs, list):
        rows = [gs[y * w : (y + 1) * w] for y in range(h)]
        if case.get("as_array"):
            arr = []
            for x in gs:
                v = s.int_var(1, n)
                if x is not None:
                    extra.append(gcheck.fix(v, x))
                arr.append(v)
            gs2 = IntArray2D(arr, (h, w))
        else:
            gs2 = rows
        if case.get("infer_shape"):
            gid = graph.division_connected_variable_groups(s, group_size=gs2)
        else:
            gid = graph.division_connected_variable_groups(s, shape=(h, w), group_size=gs2)
    else:
        gid = graph.division_connected_variable_groups(s, shape=(h, w), group_size=gs)
    if tuple(gid.shape) != (h, w):
        raise AssertionError("returned group id array has shape %r" % (gid.shape,))
    return s, list(gid), extra


def partition_fixes(gid, blocks):
    from cspuz.expr import BoolExpr, Op

    where = {}
    for k, b in enumerate(blocks):
        for v in b:
            where[v] = k
    n = len(gid)
    fixes = []
    for u in range(n):
        for v in range(u + 1, n):
            fixes.append(BoolExpr(Op.EQ if where[u] == where[v] else Op.NE, [gid[u], gid[v]]))
    return fixes


def run_plain(part, case):
    if "shape" in case:
        h, w = case["shape"]
        n, edges = h * w, graphref.grid_edges(h, w)
    else:
        n, edges = case["n"], case["edges"]
    spec = case["spec"]
    key = "vargroups[%s,%s%s]" % (case["form"], "absent" if spec is None else spec[0], ",array" if case.get("as_array") else "")
    try:
        s, gid, extra = build_plain(case)
    except Exception as e:
        part.violation(key + ":build-raises-" + type(e).__name__, case, {"exception": repr(e)[:300]})
        return
    parts = case["partitions"] if "partitions" in case else graphref.set_partitions(range(n))
    for blocks in parts:
        exp = all(graphref.induced_connected(n, edges, b) for b in blocks) and sizes_ok(blocks, spec, n)
        gcheck.judge(part, key, case, [sorted(b) for b in blocks], exp, s, partition_fixes(gid, blocks) + extra)
    if "partitions" in case:
        part.add("scale", (n, repr(spec)[:40]))
    else:
        part.add("graphs", (n, tuple(edges)))
        part.add("plain_graphs", (n, tuple(edges)))


# ------------------------------------------------------------------ borders
def build_borders(case):
    from cspuz import Solver, graph
    from cspuz.array import IntArray2D
    from cspuz.grid_frame import BoolInnerGridFrame

    s = Solver()
    if case.get("used"):
        gcheck.junk(s)
    spec = case["spec"]
    n = case["n"]
    extra = []
    kw = {}
    if case["prim"] != "default":
        kw["use_graph_primitive"] = int(case["prim"]) if case.get("intflags") else case["prim"]  # 1 / 0 instead of True / False
    if case["form"] == "graph":
        g = gcheck.make_graph(n, case["edges"], case.get("grown"))
        border = s.bool_array(len(case["edges"]))
        if spec is None:
            gs = None
        elif spec[0] == "fresh-ints":
            gs = [int(str(spec[1])) for _ in range(n)]
        elif spec[0] == "mixed":
            gs = [s.int_var(1, n) if x is None else x for x in spec[1]]
        elif spec[0] == "varlist":
            gs = [None if d is None else s.int_var(d[0], d[1]) for d in spec[1]]
        else:
            gs = list(spec[1])
        graph.division_connected_variable_groups_with_borders(
            s, group_size=gs, is_border=border if case.get("as_array", True) else list(border), graph=g, **kw
        )
        return s, list(border), extra
    h, w = case["shape"]
    fr = BoolInnerGridFrame(s, h, w)
    arr = []
    lst = spec[1] if spec is not None else [None] * n
    for x in lst:
        v = s.int_var(1, n)
        if x is not None:
            extra.append(gcheck.fix(v, x))
        arr.append(v)
    graph.division_connected_variable_groups_with_borders(s, group_size=IntArray2D(arr, (h, w)), is_border=fr, **kw)
    # independent description of the inner frame: vertical[y, x] separates (y, x)|(y, x+1); horizontal[y, x] separates (y, x)/(y+1, x)
    bvars = []
    for (u, v) in case["edges"]:
        (y0, x0), (y1, x1) = divmod(u, w), divmod(v, w)
        if y0 == y1:
            bvars.append(fr.vertical[y0, min(x0, x1)])
        else:
            bvars.append(fr.horizontal[min(y0, y1), x0])
    return s, bvars, extra


def run_borders(part, case, prange=None):
    n, edges = case["n"], case["edges"]
    spec = case["spec"]
    prim = case["prim"] is True or (case["prim"] == "default" and case["cfg"])
    key = "borders[%s,%s,%s]" % (case["form"], "native" if prim else "aux", "absent" if spec is None else ("list" if spec[0] == "list" else spec[0]))  # noqa
    with gcheck.GraphConfig(use_graph_division_primitive=bool(case["cfg"])):
        try:
            s, bvars, extra = build_borders(case)
        except Exception as e:
            part.violation(key + ":build-raises-" + type(e).__name__, case, {"exception": repr(e)[:300]})
            return
        nat = gcheck.count_native(s.constraints)
        part.count("evaluations")
        if nat != (1 if prim else 0):
            part.violation(key + ":encoding-choice", case, {"native_operators": nat})
        sizes = ([spec[1]] * n if spec[0] == "fresh-ints" else spec[1]) if spec is not None else [None] * n
        doms = None
        if spec is not None and spec[0] == "varlist":
            doms, sizes = spec[1], [None] * n
        pats = [tuple(bool(b) for b in pt) for pt in case["patterns"]] if "patterns" in case else gcheck.patterns(len(edges), prange)
        for pattern in pats:
            exp = graphref.division_ok(n, edges, sizes, pattern)
            if exp and doms is not None:
                blocks = graphref.blocks_after_cut(n, edges, pattern)
                size_of_v = {}
                for blk in blocks:
                    for v in blk:
                        size_of_v[v] = len(blk)
                exp = all(d is None or d[0] <= size_of_v[v] <= d[1] for v, d in enumerate(doms))
            gcheck.judge(part, key, case, pattern, exp, s, [gcheck.fix(v, b) for v, b in zip(bvars, pattern)] + extra)
    if "patterns" in case:
        part.add("scale", (n, "borders"))
    else:
        part.add("graphs", (n, tuple(edges)))
        part.add("border_graphs", (n, tuple(edges)))


def run_case(part, case, prange=None):
    if case["variant"] == "plain":
        run_plain(part, case)
    else:
        run_borders(part, case, prange)


def cases_for(tier):
    out = []
    maxn = 4  # (5-vertex graphs were part of the thorough tier during development: ~25 CPU minutes)
    for n in range(1, maxn + 1):
        for edges in graphref.simple_graphs(n):
            if n == 5 and len(edges) not in (4, 5, 7):
                continue
            small = n <= 3
            for name, spec in size_specs(n, tier, small):
                if n == 5 and name == "list" and (sum(1 for x in spec[1] if x is not None) > 1 or len(edges) != 4 or (any(x is not None for x in spec[1]) and sum(u + v for u, v in edges) % 6)):
                    continue  # per-vertex sizes on every third 4-edge graph only (52 partitions x 21 lists x 210 graphs otherwise)
                if tier == "quick" and n == 4 and name == "list" and len(edges) > 4 and any(x is not None for x in spec[1]):
                    continue
                out.append({"variant": "plain", "form": "graph", "n": n, "edges": list(edges), "spec": spec})
                if name == "list" and n <= 3:
                    out.append({"variant": "plain", "form": "graph", "n": n, "edges": list(edges), "spec": spec, "as_array": True})
                if name == "list" and (n <= 3 or (len(edges) == 3 and tier != "quick")) and any(x is None for x in spec[1]) and any(x is not None for x in spec[1]):
                    out.append({"variant": "plain", "form": "graph", "n": n, "edges": list(edges), "spec": ("mixed", spec[1])})
            if n <= 4 and edges:
                out.append({"variant": "plain", "form": "graph", "n": n, "edges": graphref.orient(edges, 1), "spec": ("var",)})
    maxcells = 6 if tier == "quick" else 7
    for h, w in graphref.grid_shapes(maxcells):
        n = h * w
        if n > 6 and tier == "quick":
            continue
        for name, spec in size_specs(n, tier, n <= 2):
            if name == "list" and n >= 5 and sum(1 for x in spec[1] if x is not None) > 1:
                continue
            if tier == "quick" and n == 6 and name == "list" and any(x is not None for x in spec[1]):
                continue
            if n == 8 and name == "list" and any(x is not None for x in spec[1]) and ((h, w) != (2, 4) or sum(x or 0 for x in spec[1]) != 4):
                continue  # 4140 partitions per list: per-cell sizes on one 8-cell shape only, even size values only
            out.append({"variant": "plain", "form": "grid", "shape": [h, w], "n": n, "spec": spec})
            if name == "list" and n <= 4:
                out.append({"variant": "plain", "form": "grid", "shape": [h, w], "n": n, "spec": spec, "infer_shape": True})
                out.append({"variant": "plain", "form": "grid", "shape": [h, w], "n": n, "spec": spec, "as_array": True, "infer_shape": True})
    # with borders
    for n in range(1, 5):
        for edges in graphref.simple_graphs(n):
            specs = [("absent", None)] + [(nm, sp) for nm, sp in size_specs(n, tier, n <= 3) if nm == "list"]
            for name, spec in specs:
                if tier == "quick" and n == 4 and len(edges) > 3 and spec is not None and any(x is not None for x in spec[1]):
                    continue
                for prim, cfg in ((False, False), (True, False)):
                    out.append({"variant": "borders", "form": "graph", "n": n, "edges": list(edges), "spec": spec, "prim": prim, "cfg": cfg})
                    if spec is not None and n <= 3 and any(x is None for x in spec[1]) and any(x is not None for x in spec[1]):
                        out.append({"variant": "borders", "form": "graph", "n": n, "edges": list(edges), "spec": ("mixed", spec[1]), "prim": prim, "cfg": cfg})
            for prim, cfg in (("default", True), ("default", False)):
                out.append({"variant": "borders", "form": "graph", "n": n, "edges": list(edges), "spec": None, "prim": prim, "cfg": cfg, "as_array": False})
            if n <= 3:
                for prim in (False, True):
                    out.append({"variant": "borders", "form": "graph", "n": n, "edges": list(edges), "spec": None, "prim": prim, "cfg": False, "intflags": True})
    for h, w in graphref.grid_shapes(6 if tier == "quick" else 7, 1):
        n = h * w
        edges = graphref.grid_edges(h, w)
        specs = [(nm, sp) for nm, sp in size_specs(n, tier, n <= 2) if nm in ("absent", "list")]
        for name, spec in specs:
            if spec is not None and n >= 5 and sum(1 for x in spec[1] if x is not None) > 1:
                continue
            if tier == "quick" and n == 6 and spec is not None and any(x is not None for x in spec[1]):
                continue
            if n == 8 and spec is not None and any(x is not None for x in spec[1]) and (h, w) != (2, 4):
                continue
            for prim, cfg in ((False, False), (True, False)):
                out.append({"variant": "borders", "form": "inner-frame", "shape": [h, w], "n": n, "edges": edges, "spec": spec, "prim": prim, "cfg": cfg})
    # size variables with their own domains: one scalar variable lo..hi; per-vertex variables with touching / singleton / wide domains
    def dom_lists(n):
        return [
            [(1, 2) if v % 2 == 0 else (2, 3) for v in range(n)],
            [(2, 2)] * n,
            [(1, n) if v else (2, 2) for v in range(n)],
            [None if v % 2 else (1, 1) for v in range(n)],
            [(n, n) if v == n - 1 else (1, n) for v in range(n)],
        ]

    for n in range(1, 5):
        for edges in graphref.simple_graphs(n):
            if n == 4 and (len(edges) not in (3, 4) or tier == "quick" and len(edges) != 3):
                continue
            for lo, hi in ((2, 3), (3, 3), (2, n), (0, n + 1), (n, n), (1, 1), (2, 2)):
                out.append({"variant": "plain", "form": "graph", "n": n, "edges": list(edges), "spec": ("vardom", lo, hi)})
            for doms in dom_lists(n):
                out.append({"variant": "plain", "form": "graph", "n": n, "edges": list(edges), "spec": ("varlist", doms)})
                if n <= 3:
                    for prim in (False, True):
                        out.append({"variant": "borders", "form": "graph", "n": n, "edges": list(edges), "spec": ("varlist", doms), "prim": prim, "cfg": False})
            if n <= 3:
                # an explicit use_graph_primitive=False must win over a global default of True
                out.append({"variant": "borders", "form": "graph", "n": n, "edges": list(edges), "spec": None, "prim": False, "cfg": True})
    for h, w in ((2, 2), (1, 3), (2, 3)):
        for lo, hi in ((2, 3), (2, 2), (3, 3)):
            out.append({"variant": "plain", "form": "grid", "shape": [h, w], "n": h * w, "spec": ("vardom", lo, hi)})
    # structured mid-sized graphs (cycles sharing a vertex, degree-4 trees, isolated vertices): all set partitions / all border patterns
    for name, n, es in graphref.zoo():
        relab = name.endswith("~relabelled")
        lists = [("list", [None] * (n - 1) + [3]), ("list", [2] + [None] * (n - 1)), ("list", [None] * (n // 2) + [n - 2] + [None] * (n - n // 2 - 1))]
        if n <= (5 if tier == "quick" else 6):
            specs = [None, ("var",), ("const", 2)] + lists + [("mixed", l[1]) for l in lists]
            if tier == "quick":
                specs = specs[0::2] if relab else specs[1::2]
            for spec in specs:
                out.append({"variant": "plain", "form": "graph", "n": n, "edges": list(es), "spec": spec, "name": name})
        if len(es) <= (8 if tier == "quick" else 10):
            for spec in [None] + lists[:1 if tier == "quick" else 3]:
                for prim in (False, True):
                    if tier == "quick" and (prim != relab):
                        continue
                    out.append({"variant": "borders", "form": "graph", "n": n, "edges": list(es), "spec": spec, "prim": prim, "cfg": False, "name": name})
    return out


def scale_cases(tier):
    """Deep groups on larger boards: the serpentine corridor as one group, leftover strips as groups of their own."""
    from mc.rules import base as rbase

    out = []
    big = [(3, 4), (4, 3), (1, 10)] if tier == "quick" else [(3, 4), (4, 3), (4, 4), (5, 3), (1, 14)]
    for h, w in big:
        n = h * w
        cid = lambda c: c[0] * w + c[1]  # noqa: E731
        corridor = [cid(c) for c in graphref.serpentine(h, w)]
        rest = [(y, x) for y in range(h) for x in range(w) if cid((y, x)) not in set(corridor)]
        comps = [sorted(cid(c) for c in comp) for comp in rbase.components(rest)]
        good = [sorted(corridor)] + comps
        order = [cid(c) for c in graphref.serpentine_order(h, w)]
        cut = [sorted(order[: len(order) // 2]), sorted(order[len(order) // 2 :])] + comps
        parts = [good, cut, [sorted(range(n))]]
        if len(comps) >= 2:
            parts.append([sorted(corridor), sorted(comps[0] + comps[1])] + comps[2:])  # a group in two pieces
        size_corr = len(corridor)
        lst = [None] * n
        lst[order[0]] = size_corr
        lst2 = [None] * n
        lst2[order[-1]] = size_corr - 1
        for spec in (None, ("list", lst), ("list", lst2), ("const", n)):
            if n >= 15 and spec is not None and spec[0] == "list":
                continue  # a single z3 query of the size encoding takes ~1 min there
            out.append({"variant": "plain", "form": "grid", "shape": [h, w], "n": n, "spec": spec, "partitions": parts})
    # winding blocks on mid-sized boards (a block whose internal radius exceeds the board's diameter), sizes unspecified
    for h, w in ([(5, 6), (6, 5), (6, 6)] if tier == "quick" else [(5, 5), (5, 6), (6, 5), (6, 6), (7, 7), (4, 9), (9, 4), (8, 8)]):
        n = h * w
        cid = lambda c: c[0] * w + c[1]  # noqa: E731
        corridor = [cid(c) for c in graphref.serpentine(h, w)]
        rest = [(y, x) for y in range(h) for x in range(w) if cid((y, x)) not in set(corridor)]
        comps = [sorted(cid(c) for c in comp) for comp in rbase.components(rest)]
        order = [cid(c) for c in graphref.serpentine_order(h, w)]
        good = [sorted(corridor)] + comps
        cut = [sorted(order[: len(order) // 2]), sorted(order[len(order) // 2 :])] + comps
        parts = [good, cut, [sorted(range(n))], [sorted(corridor), sorted(comps[0] + comps[1])] + comps[2:]]
        out.append({"variant": "plain", "form": "grid", "shape": [h, w], "n": n, "spec": None, "partitions": parts})
        out.append({"variant": "plain", "form": "graph", "n": n, "edges": graphref.orient(graphref.grid_edges(h, w), 3), "spec": None, "partitions": parts[:2]})
        edges = graphref.grid_edges(h, w)
        pats = []
        for blocks in parts[:3]:
            where = {}
            for k, b in enumerate(blocks):
                for v in b:
                    where[v] = k
            pats.append([where[u] != where[v] for u, v in edges])
        pats.append([False] + pats[0][1:])  # a border segment missing inside ... or a wall removed: judged by the oracle
        for prim in (False, True):
            out.append({"variant": "borders", "form": "inner-frame", "shape": [h, w], "n": n, "edges": edges, "spec": None, "prim": prim, "cfg": False, "patterns": pats})
    # board histories: board B right after board A in the same process
    for a, b in gcheck.grid_history_pairs(tier):
        h, w = b
        n = h * w
        cells = [(y, x) for y in range(h) for x in range(w)]
        halves = [sorted(y * w + x for (y, x) in cells if (x < (w + 1) // 2 if w > 1 else y < (h + 1) // 2)), sorted(y * w + x for (y, x) in cells if not (x < (w + 1) // 2 if w > 1 else y < (h + 1) // 2))]
        rows = [[y * w + x for x in range(w)] for y in range(h)]
        far = [[0, n - 1], list(range(1, n - 1))] if n > 2 else [[0], [n - 1]]
        out.append({"variant": "plain", "form": "grid", "shape": [h, w], "n": n, "spec": None, "before": list(a), "partitions": [[b2 for b2 in halves if b2], rows, [b2 for b2 in far if b2], [list(range(n))]]})
    # large family: sizes >= 257 given as distinct int objects (as a parser would produce them), one long block
    for n in ((258,) if tier == "quick" else (257, 258, 300)):
        path = [(i, i + 1) for i in range(n - 1)]
        one = [list(range(n))]
        two = [list(range(n // 2)), list(range(n // 2, n))]
        out.append({"variant": "plain", "form": "graph", "n": n, "edges": path, "spec": ("fresh-ints", n), "partitions": [one, two]})
        out.append({"variant": "borders", "form": "graph", "n": n, "edges": path, "spec": ("fresh-ints", n), "prim": False, "cfg": False,
                    "patterns": [[False] * (n - 1), [i == n // 2 for i in range(n - 1)]]})
    return out


def _small(c):
    """Cases cheap enough to repeat on a Solver that is already in use."""
    if "shape" in c:
        return (c["shape"][0] + 1) * (c["shape"][1] + 1) <= 9
    return c.get("n", 9) <= 3 and len(c.get("edges", ())) <= 4


def prepare(tier):
    global _CASES
    base_cases = cases_for(tier)
    used = [dict(c, used=True) for c in base_cases[:: (13 if tier == "quick" else 3)] if _small(c)]
    # Graph objects with a history: some edges added only after the object has been used by other constraints
    for c in base_cases[:: (11 if tier == "quick" else 5)]:
        if "edges" in c and "shape" not in c and 2 <= len(c["edges"]) <= 5 and c.get("n", 9) <= 4:
            used.append(dict(c, grown=1))
            used.append(dict(c, grown=len(c["edges"]) - 1))
            used.append(dict(c, grown=len(c["edges"])))  # fully built, then used - also by calls that are refused -, then used again
    _CASES = base_cases + used + scale_cases(tier)
    return _CASES


_BELL = [1, 1, 2, 5, 15, 52, 203, 877, 4140, 21147, 115975, 678570, 4213597]


def size_of(c):
    if "partitions" in c:
        return 30 * len(c["partitions"])
    if "patterns" in c:
        return 60 * len(c["patterns"])
    if c["variant"] == "plain":
        return _BELL[c["n"]]
    return 1 << len(c["edges"])


def worker(shard, part):
    gcheck.BRUTE_LIMIT = _BRUTE[0]
    lo, hi, plo, phi = shard
    for case in _CASES[lo:hi]:
        run_case(part, case, None if plo is None else (plo, phi))
    if lo < len(_CASES) and (lo // 3) % 300 == 0:
        part.sample(_CASES[lo])


def _describe(shard):
    lo, hi, plo, phi = shard
    c = _CASES[lo]
    return "%d case(s) %s %s" % (hi - lo, (plo, phi), {k: (v if not isinstance(v, (list, tuple)) or len(v) < 6 else "[%d]" % len(v)) for k, v in c.items()})


worker.describe = _describe


_BRUTE = [300]


def main(tier, seed, only=None):
    _BRUTE[0] = 300 if tier == "quick" else 5000
    cases = prepare(tier)
    if only:
        cases[:] = [c for c in cases if c["variant"] == only]
    run = harness.Run(
        PID,
        tier,
        seed,
        "exploration",
        "no borders: all labelled simple graphs n<=%d, grids <= %d cells; ALL set partitions imposed on the returned ids (== within, "
        "!= across blocks); group_size absent / constant 1..n / IntVar / per-vertex lists over {None,1,2,3} (all 4^n for n<=3, "
        "<= %d specified entries beyond) as list, IntArray1D, 2-D list, IntArray2D, with shape inference; scale family (not exhaustive): the serpentine corridor as one group on boards up to 4x3 (thorough 4x4, 5x3) with its "
        "size given at either end, cut in two, or merged with a separated strip.  With borders: all graphs "
        "n<=4 and BoolInnerGridFrame grids <= %d cells, ALL 2^m border patterns, same size specs, native graph-division operator "
        "off/on/by config.  Oracle: blocks connected and sized as specified; with borders additionally every border edge joins two "
        "different blocks." % (4 if tier == "quick" else 5, 6 if tier == "quick" else 8, 1 if tier == "quick" else 2, 6 if tier == "quick" else 8),
    )
    run.assumptions = ["encoding + cspuz z3 backend under test; native graph-division via R-native (mc/native_backend.py)"]
    shards = gcheck.split_shards(cases, size_of, 120)
    first, rest = gcheck.heavy_first(shards, _CASES)
    par.run_shards(run, worker, rest, seed, first=first)
    cov = {
        "evaluations": run.c("evaluations"),
        "distinct_nontrivial": sum(_BELL[g[0]] for g in run.total.sets.get("plain_graphs", ())) + sum(1 << len(g[1]) for g in run.total.sets.get("border_graphs", ())),
        "graphs": run.n("graphs"),
        "cases": len(cases),
        "exhaustive": True,
    }
    return run.finish(cov)


def replay(case):
    part = harness.Partial()
    pattern = case.get("pattern")
    c = {k: v for k, v in case.items() if k != "pattern"}
    if "edges" in c:
        c["edges"] = [tuple(e) for e in c["edges"]]
    if c.get("spec") is not None:
        c["spec"] = tuple(c["spec"])
    run_case(part, c)
    mine = [v for v in part.violations if pattern is None or harness.jsonable(v.case.get("pattern")) == pattern]
    return (not mine), (mine[0].detail if mine else "agrees with the oracle")
