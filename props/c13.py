"""C13 — array indexing and slicing follow Python nested-list semantics.

Engine E1: for every shape (h, w) with h, w in 0..4 (1-D: n in 0..5) and every
key of a closed alphabet (all ints around the axis, all slice triples with
bounds a little beyond the axis, all pairs of those, all short coordinate
lists) the real `__getitem__` is executed and compared, on variable identity,
with the same index applied to the equivalent Python list of lists.
"""

import itertools

from mc import harness, par

PID = "C13"
STEPS_Q = [None, 1, -1, 2, -2]
STEPS_T = [None, 1, 2, 3, -1, -2, -3]


def axis_keys(n, tier):
    """(key, oracle) pairs for an axis of length n.  oracle is ('int', i),
    ('err',) or ('slice', [indices]).  Axes longer than 4 use a lighter alphabet (tier 'lite')."""
    out = []
    base = list(range(n))
    for k in range(-n - 2, n + 2):
        try:
            out.append((k, ("int", base[k])))
        except IndexError:
            out.append((k, ("err",)))
    for b in (False, True):  # bool is an int: a list accepts it as index 0 / 1
        try:
            out.append((b, ("int", base[b])))
        except IndexError:
            out.append((b, ("err",)))
    if n > 4:
        tier = "lite"
    ext = {"quick": 2, "thorough": 3, "lite": 1}[tier]
    bounds = [None] + list(range(-n - ext, n + ext + 1))
    steps = {"quick": STEPS_Q, "thorough": STEPS_T, "lite": [None, 1, -1, 2, -3]}[tier]
    for st in bounds:
        for sp in bounds:
            for step in steps:
                s = slice(st, sp, step)
                out.append((s, ("slice", base[s])))
    return out


def key_repr(k):
    if isinstance(k, slice):
        return "slice(%r,%r,%r)" % (k.start, k.stop, k.step)
    return repr(k)


def key_class(k):
    if isinstance(k, slice):
        return "slice" + ("-negstep" if (k.step or 1) < 0 else "")
    return "int"


def make_array(kind, h, w):
    from cspuz import Solver

    s = Solver()
    if kind == "bool":
        a = s.bool_array((h, w))
    else:
        a = s.int_array((h, w), 0, 3)
    return a


def make_array1(kind, n):
    from cspuz import Solver

    s = Solver()
    return s.bool_array(n) if kind == "bool" else s.int_array(n, 0, 3)


def observe(fn):
    """Run an indexing operation; return a canonical observation."""
    from cspuz.array import Array1D, Array2D
    from cspuz.expr import BoolVar, IntVar

    try:
        r = fn()
    except IndexError:
        return ("IndexError",)
    except Exception as e:  # anything else is reported as such
        return ("exception", type(e).__name__)
    if isinstance(r, Array2D):
        return ("2d", tuple(r.shape), tuple(getattr(v, "id", None) for v in r.data), type(r).__name__)
    if isinstance(r, Array1D):
        return ("1d", (len(r.data),), tuple(getattr(v, "id", None) for v in r.data), type(r).__name__)
    if isinstance(r, (BoolVar, IntVar)):
        return ("elem", (), (r.id,), type(r).__name__)
    return ("other", repr(type(r)))


def expected_2d(kind, h, w, oy, ox):
    """Expected observation from the per-axis oracles, i.e. L[ky] then [kx] per row
    on the list of lists whose element (y, x) has id y*w+x.  Returns None where the
    nested-list reading is silent (column index error on an empty row selection)."""
    a1 = "BoolArray1D" if kind == "bool" else "IntArray1D"
    a2 = "BoolArray2D" if kind == "bool" else "IntArray2D"
    el = "BoolVar" if kind == "bool" else "IntVar"
    if oy[0] == "err":
        return ("IndexError",)
    if oy[0] == "int":
        y = oy[1]
        if ox[0] == "err":
            return ("IndexError",)
        if ox[0] == "int":
            return ("elem", (), (y * w + ox[1],), el)
        return ("1d", (len(ox[1]),), tuple(y * w + x for x in ox[1]), a1)
    ys = oy[1]
    if ox[0] == "err":
        if not ys:
            return None  # [row[kx] for row in []] raises nothing; numpy-style would: not judged
        return ("IndexError",)
    if ox[0] == "int":
        return ("1d", (len(ys),), tuple(y * w + ox[1] for y in ys), a1)
    xs = ox[1]
    return ("2d", (len(ys), len(xs)), tuple(y * w + x for y in ys for x in xs), a2)


def classify(kyc, kxc, exp, obs):
    if obs[0] == "exception":
        cat = "raises-" + obs[1]
    elif exp[0] == "IndexError":
        cat = "missing-IndexError"
    elif obs[0] == "IndexError":
        cat = "spurious-IndexError"
    elif exp[0] != obs[0] or exp[3] != obs[3]:
        cat = "wrong-kind"
    elif exp[1] != obs[1]:
        cat = "wrong-shape"
    else:
        cat = "wrong-elements"
    return "getitem[%s,%s]:%s" % (kyc, kxc, cat)


def worker(shard, part):
    what = shard[0]
    if what == "2d":
        _, tier, kind, h, w, lo, hi = shard
        a = make_array(kind, h, w)
        ykeys = axis_keys(h, tier)
        xkeys = axis_keys(w, tier)
        for ky, oy in ykeys[lo:hi]:
            kyc = key_class(ky)
            for kx, ox in xkeys:
                exp = expected_2d(kind, h, w, oy, ox)
                part.count("evaluations")
                if exp is None:
                    part.count("unjudged_empty_rows_bad_column")
                    continue
                obs = observe(lambda: a[ky, kx])
                part.outcome(exp[0] + ("/neg" if "negstep" in kyc + key_class(kx) else ""))
                if exp[0] != "IndexError" and len(exp[2]) > 0:
                    part.count("nonempty")
                if obs != exp:
                    part.violation(
                        classify(kyc, key_class(kx), exp, obs),
                        {"form": "2d", "kind": kind, "shape": [h, w], "ky": key_repr(ky), "kx": key_repr(kx)},
                        {"expected": exp, "observed": obs},
                    )
        part.sample({"array": "%s %dx%d" % (kind, h, w), "keys": [key_repr(k) for k, _ in ykeys[lo : lo + 3]]})
    elif what == "2d-single":
        _, tier, kind, h, w = shard
        a = make_array(kind, h, w)
        full = ("slice", list(range(w)))
        for ky, oy in axis_keys(h, tier):
            exp = expected_2d(kind, h, w, oy, full)
            obs = observe(lambda: a[ky])
            part.count("evaluations")
            part.outcome("single:" + exp[0])
            if obs != exp:
                part.violation(
                    classify(key_class(ky), "-", exp, obs),
                    {"form": "2d-single", "kind": kind, "shape": [h, w], "ky": key_repr(ky)},
                    {"expected": exp, "observed": obs},
                )
    elif what == "1d":
        _, tier, kind, n = shard
        a = make_array1(kind, n)
        a1 = "BoolArray1D" if kind == "bool" else "IntArray1D"
        el = "BoolVar" if kind == "bool" else "IntVar"
        for k, o in axis_keys(n, tier):
            if o[0] == "err":
                exp = ("IndexError",)
            elif o[0] == "int":
                exp = ("elem", (), (o[1],), el)
            else:
                exp = ("1d", (len(o[1]),), tuple(o[1]), a1)
            obs = observe(lambda: a[k])
            part.count("evaluations")
            part.outcome("1d:" + exp[0])
            if obs != exp:
                part.violation(
                    "getitem1d[%s]:%s" % (key_class(k), classify("", "", exp, obs).split(":")[1]),
                    {"form": "1d", "kind": kind, "n": n, "k": key_repr(k)},
                    {"expected": exp, "observed": obs},
                )
    elif what == "coords":
        _, tier, kind, h, w = shard
        a = make_array(kind, h, w)
        a1 = "BoolArray1D" if kind == "bool" else "IntArray1D"
        L = [[y * w + x for x in range(w)] for y in range(h)]
        coords = [(y, x) for y in range(-h - 1, h + 1) for x in range(-w - 1, w + 1)]
        maxlen = 2 if tier == "quick" else 3
        if len(coords) > 36 and maxlen == 3:
            maxlen3_coords = [(y, x) for (y, x) in coords if -h <= y and -w <= x]  # one step less margin
        else:
            maxlen3_coords = coords
        for ln in range(0, maxlen + 1):
            cs = maxlen3_coords if ln == 3 else coords
            for lst in itertools.product(cs, repeat=ln):
                try:
                    ids = tuple(L[y][x] for (y, x) in lst)
                    exp = ("1d", (ln,), ids, a1)
                except IndexError:
                    exp = ("IndexError",)
                for form in ("list", "gen"):
                    key = list(lst) if form == "list" else (c for c in lst)
                    obs = observe(lambda: a[key])
                    part.count("evaluations")
                    part.outcome("coords:" + exp[0])
                    if obs != exp:
                        part.violation(
                            "coordlist:%s" % classify("", "", exp, obs).split(":")[1],
                            {"form": "coords", "kind": kind, "shape": [h, w], "coords": [list(c) for c in lst], "as": form},
                            {"expected": exp, "observed": obs},
                        )
    elif what == "mutate":
        # whatever a caller does with a result must not change the array it came from (nor later results)
        _, tier, kind, h, w = shard
        a = make_array(kind, h, w)
        before = [v.id for v in a.data]
        keys = [slice(None), 0, slice(None, None, -1), (slice(None), 0), (0, slice(None)), (slice(0, 2), slice(0, 2)), [(0, 0)]] if h and w else [slice(None)]
        for k in keys:
            part.count("evaluations")
            try:
                r = a[k]
                if hasattr(r, "data"):
                    r.data.append(None)
                    if r.data:
                        r.data[0] = None
                f = a.flatten()
                f.data.reverse()
                rs = a.reshape((w, h))
                rs.data.clear()
                r2 = a[k]
                ok = [v.id for v in a.data] == before and (not hasattr(r2, "data") or None not in r2.data)
            except Exception as e:
                ok = False
                r2 = e
            if not ok:
                part.violation("getitem:result-mutation-leaks-into-the-array", {"form": "mutate", "kind": kind, "shape": [h, w], "key": repr(k)}, {"observed": repr(r2)[:200]})
        if h and w:
            # ONE coordinate-list object edited in place (same length) between look-ups, also across two arrays of one shape
            L = [[y * w + x for x in range(w)] for y in range(h)]
            other = make_array("int" if kind == "bool" else "bool", h, w)

            def want(cells):
                try:
                    return tuple(L[y][x] for (y, x) in cells)
                except IndexError:
                    return "IndexError"

            def got(arr, cells):
                o = observe(lambda: arr[cells])
                base = min(getattr(v, "id", 0) for v in arr.data)
                return tuple(i - base for i in o[2]) if o[0] == "1d" else o[0]

            edits = [("reverse", lambda c: c.reverse()), ("sort", lambda c: c.sort()), ("set-first", lambda c: c.__setitem__(0, (h - 1, 0))),
                     ("set-out-of-range", lambda c: c.__setitem__(len(c) - 1, (h, 0))), ("restore", lambda c: c.__setitem__(len(c) - 1, (0, 0)))]
            cells = [(h - 1, w - 1), (0, 0), (0, w - 1)]
            for arrs in ((a, a), (a, other), (other, a)):
                cells[:] = [(h - 1, w - 1), (0, 0), (0, w - 1)]
                part.count("evaluations")
                steps = []
                ok = got(arrs[0], cells) == want(cells)
                for name, edit in edits:
                    edit(cells)
                    steps.append(name)
                    for arr in arrs:
                        if got(arr, cells) != want(cells):
                            ok = False
                    if not ok:
                        break
                if not ok:
                    part.violation("coordlist:stale-after-in-place-edit", {"form": "mutate", "kind": kind, "shape": [h, w], "key": "coordinate list edited in place: " + ",".join(steps)}, {"cells_now": [list(c) for c in cells]})
            # an instance of a user subclass with its own constructor signature is indexed like any other array
            base_cls = type(a)

            class Board(base_cls):
                def __init__(self, src, title):
                    base_cls.__init__(self, list(src.data), src.shape)
                    self.title = title

            b = Board(a, "board")
            base = min(v.id for v in a.data)
            for ky in (0, -1, slice(None), slice(None, None, -1), slice(0, 1)):
                for kx in (0, slice(None), slice(1, None), slice(None, None, -2)):
                    part.count("evaluations")
                    o_plain, o_sub = observe(lambda: a[ky, kx]), observe(lambda: b[ky, kx])
                    if o_plain[:3] != o_sub[:3]:
                        part.violation("getitem:subclass-instance-differs", {"form": "mutate", "kind": kind, "shape": [h, w], "key": "subclass instance [%s, %s]" % (key_repr(ky), key_repr(kx))},
                                       {"plain": repr(o_plain)[:150], "subclass": repr(o_sub)[:150]})
            for k1 in (0, slice(None), slice(1, None)):
                part.count("evaluations")
                o_plain, o_sub = observe(lambda: a[k1]), observe(lambda: b[k1])
                if o_plain[:3] != o_sub[:3]:
                    part.violation("getitem:subclass-instance-differs", {"form": "mutate", "kind": kind, "shape": [h, w], "key": "subclass instance [%s]" % key_repr(k1)}, {"plain": repr(o_plain)[:150], "subclass": repr(o_sub)[:150]})
        part.add("mutate", (kind, h, w))
    elif what == "scale":
        # big arrays around the classic thresholds (32 columns, 256 / 257 cells, 1000+ cells) with a fixed key menu
        _, tier, kind, h, w = shard
        a = make_array(kind, h, w)
        L = [[y * w + x for x in range(w)] for y in range(h)]
        a1 = "BoolArray1D" if kind == "bool" else "IntArray1D"
        a2 = "BoolArray2D" if kind == "bool" else "IntArray2D"
        el = "BoolVar" if kind == "bool" else "IntVar"
        ax = lambda n: [0, -1, n - 1, n // 2, n, -n, -n - 1, slice(None), slice(None, None, -1), slice(1, None, 2), slice(None, None, -3),  # noqa: E731
                        slice(1000, -1000, -1), slice(-1000, 1000, 7), slice(n - 1, 0, -1), slice(n // 2, None), slice(None, n // 2, -1), slice(-2, None), slice(31, 33)]
        for ky in ax(h):
            for kx in ax(w):
                part.count("evaluations")
                try:
                    rows = L[ky]
                    if isinstance(ky, int):
                        sel = rows[kx]
                        exp = ("elem", (), (sel,), el) if isinstance(kx, int) else ("1d", (len(sel),), tuple(sel), a1)
                    elif isinstance(kx, int):
                        if not rows:
                            continue  # not judged (see assumptions)
                        exp = ("1d", (len(rows),), tuple(r[kx] for r in rows), a1)
                    else:
                        sub = [r[kx] for r in rows]
                        width = len(range(w)[kx])
                        exp = ("2d", (len(sub), width), tuple(v for r in sub for v in r), a2)
                except IndexError:
                    exp = ("IndexError",)
                obs = observe(lambda: a[ky, kx])
                part.outcome("scale:" + exp[0])
                if obs != exp:
                    part.violation("scale-" + classify(key_class(ky), key_class(kx), exp, obs), {"form": "scale", "kind": kind, "shape": [h, w], "ky": key_repr(ky), "kx": key_repr(kx)},
                                   {"expected": repr(exp)[:200], "observed": repr(obs)[:200]})
        # flatten / reshape round trips
        n = h * w
        for (hh, ww) in ((h, w), (w, h), (1, n), (n, 1)):
            part.count("evaluations")
            try:
                r = a.flatten().reshape((hh, ww))
                ok = tuple(r.shape) == (hh, ww) and [v.id for v in r.data] == list(range(n)) and type(r).__name__ == a2 and r[hh - 1, ww - 1].id == n - 1
                r2 = a.reshape((hh, ww))
                ok = ok and [v.id for v in r2.data] == list(range(n))
            except Exception as e:
                ok = False
                r = e
            if not ok:
                part.violation("scale-reshape", {"form": "scale", "kind": kind, "shape": [h, w], "to": [hh, ww]}, {"observed": repr(r)[:200]})
        part.add("scale", (kind, h, w))
    elif what == "reshape":
        _, tier, kind = shard
        top = 12 if tier == "quick" else 24
        for n in range(0, top + 1):
            a = make_array1(kind, n)
            a2n = "BoolArray2D" if kind == "bool" else "IntArray2D"
            a1n = "BoolArray1D" if kind == "bool" else "IntArray1D"
            for hh in range(0, n + 2):
                for ww in range(0, n + 2):
                    for src in ("1d", "2d"):
                        part.count("evaluations")
                        if src == "1d":
                            fn = lambda: a.reshape((hh, ww))  # noqa: E731
                        else:
                            # go through an intermediate 2-D shape (1, n)
                            fn = lambda: a.reshape((1, n)).reshape((hh, ww))  # noqa: E731
                        try:
                            r = fn()
                            obs = ("2d", tuple(r.shape), tuple(v.id for v in r.data), type(r).__name__)
                        except ValueError:
                            obs = ("ValueError",)
                        except Exception as e:
                            obs = ("exception", type(e).__name__)
                        exp = ("2d", (hh, ww), tuple(range(n)), a2n) if hh * ww == n else ("ValueError",)
                        part.outcome("reshape:" + exp[0])
                        if obs != exp:
                            part.violation(
                                "reshape:%s" % ("wrong" if obs[0] == "2d" else obs[0]),
                                {"form": "reshape", "kind": kind, "n": n, "to": [hh, ww], "via": src},
                                {"expected": exp, "observed": obs},
                            )
                        elif obs[0] == "2d":
                            # row-major: element (y, x) of the reshaped array is item y*ww+x; flatten inverts
                            f = r.flatten()
                            ok = type(f).__name__ == a1n and tuple(v.id for v in f.data) == tuple(range(n))
                            for y in range(hh):
                                for x in range(ww):
                                    if r[y, x].id != y * ww + x:
                                        ok = False
                            part.count("evaluations")
                            if not ok:
                                part.violation(
                                    "reshape:order",
                                    {"form": "reshape", "kind": kind, "n": n, "to": [hh, ww], "via": src},
                                    {"observed": "row-major order broken"},
                                )


def shards_for(tier):
    out = []
    top = 4
    for kind in ("bool", "int"):
        for h in range(0, top + 1):
            for w in range(0, top + 1):
                nk = len(axis_keys(h, tier))
                step = 120 if tier == "quick" else 60
                for lo in range(0, nk, step):
                    out.append(("2d", tier, kind, h, w, lo, min(nk, lo + step)))
                out.append(("2d-single", tier, kind, h, w))
                if h <= 3 and w <= 3:
                    out.append(("coords", tier, kind, h, w))
                    out.append(("mutate", tier, kind, h, w))
        for n in range(0, 6):
            out.append(("1d", tier, kind, n))
        # larger axes with the lighter key alphabet (all pairs of keys still)
        for (h, w) in ([(5, 6)] if tier == "quick" else [(5, 5), (6, 3), (3, 6), (1, 7), (7, 1), (6, 6), (2, 9)]):
            if kind == "int" and tier == "quick":
                continue
            nk = len(axis_keys(h, tier))
            for lo in range(0, nk, 60):
                out.append(("2d", tier, kind, h, w, lo, min(nk, lo + 60)))
            out.append(("2d-single", tier, kind, h, w))
        for n in (8, 13):
            out.append(("1d", tier, kind, n))
        # (mid-sized non-square shapes as well: 8..12 wide with a few rows, and the transposes)
        mids = [(2, 8), (8, 2), (3, 10), (10, 3), (5, 9), (9, 5), (6, 8), (12, 9)]
        for (h, w) in (mids + [(2, 40), (40, 2), (17, 17), (1, 300), (16, 16)] if tier == "quick" else mids + [(7, 11), (11, 7), (4, 13), (2, 40), (40, 2), (17, 17), (1, 300), (300, 1), (16, 16), (33, 33), (3, 1100), (64, 65)]):
            out.append(("scale", tier, kind, h, w))
        out.append(("reshape", tier, kind))
    return out


def replay(case):
    tier = "thorough"
    kind = case["kind"]
    form = case["form"]
    ev = lambda s: eval(s, {"slice": slice, "None": None})  # noqa: E731  (our own reprs only)
    if form == "2d":
        h, w = case["shape"]
        ky, kx = ev(case["ky"]), ev(case["kx"])
        oy = dict((key_repr(k), o) for k, o in axis_keys(h, tier)).get(case["ky"])
        ox = dict((key_repr(k), o) for k, o in axis_keys(w, tier)).get(case["kx"])
        a = make_array(kind, h, w)
        exp = expected_2d(kind, h, w, oy, ox)
        obs = observe(lambda: a[ky, kx])
        return obs == exp, {"expected": exp, "observed": obs}
    part = harness.Partial()
    if form == "2d-single":
        worker(("2d-single", tier, kind) + tuple(case["shape"]), part)
    elif form == "1d":
        worker(("1d", tier, kind, case["n"]), part)
    elif form == "coords":
        worker(("coords", tier, kind) + tuple(case["shape"]), part)
    elif form == "scale":
        worker(("scale", tier, kind) + tuple(case["shape"]), part)
    elif form == "mutate":
        worker(("mutate", tier, kind) + tuple(case["shape"]), part)
    else:
        worker(("reshape", tier, kind), part)
    mine = [v for v in part.violations if harness.jsonable(v.case) == case]
    return (not mine), (mine[0].detail if mine else "no disagreement")


def main(tier, seed, only=None):
    run = harness.Run(
        PID,
        tier,
        seed,
        "exploration",
        "all shapes h,w in 0..4 (1-D n in 0..5) plus 5x6 (thorough: 5x5, 6x3, 3x6, 1x7, 7x1, 6x6, 2x9; 1-D 8 and 13) with a lighter key alphabet, bool and int arrays; keys: every int in [-n-2, n+1], every slice with "
        "start/stop in {None} u [-n-e, n+e] (e=2 quick, 3 thorough) and step in %s; all (row key, column key) pairs; "
        "all coordinate lists of length <= %d over [-h-1,h]x[-w-1,w]; reshape to every (h', w') and flatten. "
        "Scale family (not exhaustive): arrays 2x40, 40x2, 17x17, 16x16, 1x300 (thorough 33x33, 3x1100, 64x65) with an 18-key menu per axis "
        "(ends, middle, full and strided reversals, far out-of-range bounds, the 31:33 window) and flatten/reshape round trips.  Oracle: the same index on the Python list of lists (ids row-major).  Non-trivial = distinct cases whose "
        "expected result is a non-empty selection or an IndexError." % (STEPS_Q if tier == "quick" else STEPS_T, 2 if tier == "quick" else 3),
    )
    run.assumptions = [
        "step 0 is outside the alphabet (Python raises ValueError; the property is silent)",
        "an out-of-range integer column index combined with a row slice that selects no row is not judged "
        "(nested-list indexing would not raise, tuple indexing conventions would)",
        "bounds beyond +-(size+3) fall into classes already covered because _parse_range only compares with 0 and size",
    ]
    shards = shards_for(tier)
    if only:
        shards = [s for s in shards if s[0] == only]
    par.run_shards(run, worker, shards, seed)
    cov = {
        "evaluations": run.c("evaluations"),
        "distinct_nontrivial": run.c("nonempty") + sum(v for k, v in run.total.outcomes.items() if "IndexError" in k),
        "exhaustive": True,
        "shards": len(shards),
    }
    return run.finish(cov)
