"""C20 — the backend and encoding actually used are the ones configured.

E1: Config() is constructed under every combination of the four CSPUZ_*
environment variables (value menus incl. malformed ones) and every subset of
importable optional backend modules; reference model = the decision table of
the property.  E2: all histories of <= 3 events over {assign a config attribute,
call a graph constraint with use_graph_primitive None/True/False, call
find_answer/solve with a backend argument}; observation = which backend class
is instantiated / which external entry point is invoked / whether the posted
program contains native operators; oracle = the table evaluated at call time.
"""

import itertools
import os
import sys
import types
import warnings

from mc import gcheck, harness, par

PID = "C20"
NAMES = ["sugar", "sugar_extended", "z3", "csugar", "enigma_csp", "cspuz_core"]
MODULE_OF = {"cspuz_core": "cspuz_core", "enigma_csp": "enigma_csp", "csugar": "pycsugar", "z3": "z3"}
PRIORITY = ["cspuz_core", "enigma_csp", "csugar", "z3"]
BACKEND_ENV = [None, "auto"] + NAMES + ["bogus", ""]
BOOL_ENV = [None, "1", "0", "true", "false", "True", "FALSE", "yes", "2", ""]
PATH_ENV = [None, "/opt/sugar/bin/sugar"]


def parse_bool(s):
    t = s.lower()
    if t in ("true", "1"):
        return True
    if t in ("false", "0"):
        return False
    raise ValueError(s)


def model_config(env_backend, env_ugp, env_ugdp, env_path, importable):
    """Reference decision table.  Returns dict or 'ValueError'."""
    b = "auto" if env_backend is None else env_backend
    if b == "auto":
        b = "sugar"
        for name in PRIORITY:
            if name in importable:
                b = name
                break
    try:
        ugp = parse_bool(env_ugp) if env_ugp is not None else (b in ("csugar", "enigma_csp", "cspuz_core"))
        ugdp = parse_bool(env_ugdp) if env_ugdp is not None else (b in ("enigma_csp", "cspuz_core"))
    except ValueError:
        return "ValueError"
    return {"default_backend": b, "backend_path": env_path, "use_graph_primitive": ugp, "use_graph_division_primitive": ugdp}


class _BrokenFinder(object):
    """A module that is installed but cannot be loaded: the import system finds it, loading raises ImportError."""

    def __init__(self, names, how="ImportError"):
        self.names = set(names)
        self.how = how

    def error(self, name):
        # the ways a present module fails to load: its shared library, a missing compiled submodule, a missing dependency
        if self.how == "submodule-not-found":
            return ModuleNotFoundError("No module named '%s.%s' (simulated)" % (name, name), name="%s.%s" % (name, name))
        if self.how == "dependency-not-found":
            return ModuleNotFoundError("No module named 'libdep_of_%s' (simulated)" % name, name="libdep_of_%s" % name)
        return ImportError("shared library of %s cannot be loaded (simulated)" % name)

    def find_spec(self, name, path=None, target=None):
        if name in self.names:
            import importlib.machinery

            return importlib.machinery.ModuleSpec(name, self)
        return None

    def create_module(self, spec):
        raise self.error(spec.name)

    def exec_module(self, module):
        raise self.error("module")


class ModuleWorld(object):
    """Controls which optional backend modules are importable: present (sys.modules entry), absent (None entry) or
    present-but-broken (found by the import system, ImportError while loading)."""

    def __init__(self, importable, spy=None, broken=(), how="ImportError"):
        self.importable = set(importable)
        self.broken = set(broken)
        self.how = how
        self.spy = spy

    def __enter__(self):
        self.saved = {}
        self.finder = None
        if self.broken:
            self.finder = _BrokenFinder((MODULE_OF[n] for n in self.broken), self.how)
            sys.meta_path.insert(0, self.finder)
        for name, mod in MODULE_OF.items():
            self.saved[mod] = sys.modules.get(mod, "absent")
            if name in self.importable:
                if mod == "z3" and self.saved[mod] not in ("absent", None):
                    continue  # the real z3 is importable already
                if mod == "z3":
                    try:
                        sys.modules.pop("z3", None)
                        import z3  # noqa: F401
                    except ImportError:
                        sys.modules[mod] = types.ModuleType(mod)
                    continue
                m = types.ModuleType(mod)
                spy = self.spy
                m.solver = (lambda text, _n=mod: spy(_n, text)) if spy else (lambda text: "s UNSATISFIABLE\n")
                sys.modules[mod] = m
            elif name in self.broken:
                sys.modules.pop(mod, None)  # the broken finder answers
            else:
                sys.modules[mod] = None  # `import mod` raises ImportError
        return self

    def __exit__(self, *a):
        if self.finder is not None:
            sys.meta_path.remove(self.finder)
        for mod, old in self.saved.items():
            if old == "absent":
                sys.modules.pop(mod, None)
            else:
                sys.modules[mod] = old


def run_construction(part, lo, hi):
    from cspuz.configuration import Config

    combos = list(itertools.product(BACKEND_ENV, BOOL_ENV, BOOL_ENV, PATH_ENV))
    subsets = [tuple(n for k, n in enumerate(PRIORITY) if m >> k & 1) for m in range(16)]
    keys = ("CSPUZ_DEFAULT_BACKEND", "CSPUZ_USE_GRAPH_PRIMITIVE", "CSPUZ_USE_GRAPH_DIVISION_PRIMITIVE", "CSPUZ_BACKEND_PATH")
    saved_env = {k: os.environ.get(k) for k in keys}
    try:
        for imp in subsets[lo:hi]:
            with ModuleWorld(imp):
                for combo in combos:
                    for k, v in zip(keys, combo):
                        if v is None:
                            os.environ.pop(k, None)
                        else:
                            os.environ[k] = v
                    want = model_config(*combo, importable=imp)
                    case = {"env": dict(zip(keys, combo)), "importable": list(imp)}
                    if combo[0] in (None, "auto") and combo[1] is None and combo[2] is None:
                        # the same with every non-importable module *broken* instead of absent (still not importable)
                        for nb in range(1, 1 << len(PRIORITY)):
                            broken = [n for k, n in enumerate(PRIORITY) if nb >> k & 1 and n not in imp and n != "z3"]
                            if not broken or len(broken) != bin(nb).count("1"):
                                continue
                            for how in ("ImportError", "submodule-not-found", "dependency-not-found"):
                                part.count("evaluations")
                                try:
                                    with ModuleWorld(imp, broken=broken, how=how):
                                        c2 = Config()
                                    if c2.default_backend != want["default_backend"]:
                                        part.violation("Config:broken-module-not-skipped", dict(case, broken=broken, how=how), {"got": c2.default_backend, "expected": want["default_backend"]})
                                except Exception as e:
                                    part.violation("Config:broken-module-raises-" + type(e).__name__, dict(case, broken=broken, how=how), {"exception": repr(e)[:200]})
                    part.count("evaluations")
                    try:
                        c = Config()
                        got = {k: getattr(c, k) for k in ("default_backend", "backend_path", "use_graph_primitive", "use_graph_division_primitive")}
                    except ValueError:
                        got = "ValueError"
                    except Exception as e:
                        part.violation("Config:raises-" + type(e).__name__, case, {"exception": repr(e)[:200]})
                        continue
                    part.outcome("config:" + ("ValueError" if want == "ValueError" else want["default_backend"] or "''"))
                    if got != want:
                        field = "verdict"
                        if isinstance(got, dict) and isinstance(want, dict):
                            field = [k for k in want if got[k] != want[k]][0]
                        part.violation("Config:%s-differs" % field, case, {"got": got, "expected": want})
                    else:
                        part.add("nontrivial", (combo, imp))
                    # infer_from_env=False ignores the environment entirely
                    if combo[0] in (None, "bogus") and combo[1] in (None, "yes"):
                        part.count("evaluations")
                        try:
                            c = Config(infer_from_env=False)
                            w2 = model_config(None, None, None, None, imp)
                            g2 = {k: getattr(c, k) for k in w2}
                            if g2 != w2:
                                part.violation("Config:infer_from_env=False-differs", case, {"got": g2, "expected": w2})
                        except Exception as e:
                            part.violation("Config:infer_from_env=False-raises-" + type(e).__name__, case, {"exception": repr(e)[:200]})
    finally:
        for k, v in saved_env.items():
            if v is None:
                os.environ.pop(k, None)
            else:
                os.environ[k] = v


# ------------------------------------------------------------------ dispatch histories
class Spies(object):
    def __init__(self):
        self.log = []

    def module_solver(self, modname, text):
        self.log.append(("module", modname))
        return "unsat\n" if text.split("\n")[-1].startswith("#") else "s UNSATISFIABLE\n"

    def subprocess(self, args, input, timeout=None):
        self.log.append(("subprocess", args[0], "deduction" if input.split("\n")[-1].startswith("#") else "finder"))
        return "unsat\n" if input.split("\n")[-1].startswith("#") else "s UNSATISFIABLE\n"


def events():
    ev = []
    for n in NAMES + ["bogus"]:
        ev.append(("set-backend", n))
    for v in (True, False):
        ev.append(("set-ugp", v))
        ev.append(("set-ugdp", v))
    ev.append(("set-path", "/x/solver"))
    for kind in ("connected", "connected-acyclic", "division", "cycle", "crossable", "borders"):
        for arg in (None, True, False):
            ev.append(("graph", kind, arg))
    for api in ("find_answer", "solve", "solve-nokey"):
        for b in [None] + NAMES + ["class", "bogus"]:
            ev.append((api, b))
    return ev


def expected_native(kind, arg, state):
    """Number of native operators the posted program must contain."""
    if kind == "borders":
        use = state["ugdp"] if arg is None else arg
        return 1 if use else 0
    use = state["ugp"] if (arg is None or kind == "division") else arg  # division_connected has no per-call flag
    if kind == "connected-acyclic":
        return 0
    if kind == "division":
        return 2 if use else 0  # one per region (num_regions = 2)
    return 1 if use else 0


GRAPH_FAMILIES = ["path3", "K12", "wheel30", "star20", "multi2x20", "grid6x6"]


def family_graph(name):
    from cspuz import graph

    if name == "path3":
        n, es = 3, [(0, 1), (1, 2)]
    elif name == "K12":
        n, es = 12, [(u, v) for u in range(12) for v in range(u + 1, 12)]
    elif name == "wheel30":
        n, es = 31, [(0, i) for i in range(1, 31)] + [(i, i % 30 + 1) for i in range(1, 31)]
    elif name == "star20":
        n, es = 21, [(0, i) for i in range(1, 21)]
    elif name == "multi2x20":
        n, es = 2, [(0, 1)] * 20
    else:
        n, es = 36, [(y * 6 + x, y * 6 + x + 1) for y in range(6) for x in range(5)] + [(y * 6 + x, (y + 1) * 6 + x) for y in range(5) for x in range(6)]
    g = graph.Graph(n)
    for u, v in es:
        g.add_edge(u, v)
    return g


def post_graph(kind, arg, family="path3"):
    from cspuz import BoolGridFrame, Solver, graph

    s = Solver()
    kw = {} if arg is None else {"use_graph_primitive": arg}
    g = family_graph(family)
    if family != "path3":
        n, m = g.num_vertices, len(g)
        if kind == "connected":
            graph.active_vertices_connected(s, s.bool_array(n), g, **kw)
        elif kind == "connected-acyclic":
            graph.active_vertices_connected(s, s.bool_array(n), g, acyclic=True, **kw)
        elif kind == "division":
            graph.division_connected(s, s.int_array(n, 0, 1), 2, g)
        elif kind == "cycle":
            graph.active_edges_single_cycle(s, s.bool_array(m), g, **kw)
        elif kind == "crossable":
            graph.active_edges_connected_crossable(s, BoolGridFrame(s, 6, 7), **kw)
        elif kind == "borders":
            graph.division_connected_variable_groups_with_borders(s, group_size=[None] * n, is_border=s.bool_array(m), graph=g, **kw)
        return gcheck.count_native(s.constraints)
    if kind == "connected":
        graph.active_vertices_connected(s, s.bool_array(3), g, **kw)
    elif kind == "connected-acyclic":
        graph.active_vertices_connected(s, s.bool_array((2, 2)), acyclic=True, **kw)
    elif kind == "division":
        # division_connected has no per-call flag: it always follows the configuration
        graph.division_connected(s, s.int_array(3, 0, 1), 2, g)
    elif kind == "cycle":
        graph.active_edges_single_cycle(s, BoolGridFrame(s, 1, 1), **kw)
    elif kind == "crossable":
        graph.active_edges_connected_crossable(s, BoolGridFrame(s, 1, 1), **kw)
    elif kind == "borders":
        graph.division_connected_variable_groups_with_borders(s, group_size=[None, None, None], is_border=s.bool_array(2), graph=g, **kw)
    return gcheck.count_native(s.constraints)


EXPECT_ENTRY = {
    "sugar": ("subprocess", "finder-only"),
    "sugar_extended": ("subprocess", "native-deduction"),
    "csugar": ("module", "pycsugar"),
    "enigma_csp": ("module", "enigma_csp"),
    "cspuz_core": ("module", "cspuz_core"),
    "z3": ("class", "Z3Backend"),
}


def run_histories(part, first_events, depth):
    import cspuz
    from cspuz import Solver, config
    from cspuz.backend import sugar_like
    from cspuz.backend import z3 as cz3

    evs = events()
    spies = Spies()
    saved_cfg = {k: getattr(config, k) for k in ("default_backend", "backend_path", "use_graph_primitive", "use_graph_division_primitive")}
    saved_run = sugar_like.run_subprocess
    saved_z3 = cz3.Z3Backend

    class SpyZ3(saved_z3):
        def __init__(self, variables):
            spies.log.append(("class", "Z3Backend"))
            super().__init__(variables)

    class CustomBackend(object):
        def __init__(self, variables):
            spies.log.append(("class", "CustomBackend"))

        def add_constraint(self, c):
            pass

        def solve(self):
            return False

        def solve_irrefutably(self, keys):
            return False

    sugar_like.run_subprocess = spies.subprocess
    cz3.Z3Backend = SpyZ3
    try:
        with ModuleWorld(PRIORITY, spy=spies.module_solver):
            for e1 in first_events:
                for tail in itertools.chain.from_iterable(itertools.product(evs, repeat=k) for k in range(0, depth)):
                    hist = (e1,) + tail
                    # fresh configuration state for every history
                    config.default_backend, config.backend_path = "z3", None
                    config.use_graph_primitive, config.use_graph_division_primitive = False, False
                    state = {"backend": "z3", "ugp": False, "ugdp": False, "path": None}
                    part.count("histories")
                    for idx, ev in enumerate(hist):
                        part.count("transitions")
                        case = {"history": [list(map(lambda x: x if not isinstance(x, type) else "class", e)) for e in hist[: idx + 1]]}
                        if ev[0] == "set-backend":
                            config.default_backend = ev[1]
                            state["backend"] = ev[1]
                        elif ev[0] == "set-ugp":
                            config.use_graph_primitive = ev[1]
                            state["ugp"] = ev[1]
                        elif ev[0] == "set-ugdp":
                            config.use_graph_division_primitive = ev[1]
                            state["ugdp"] = ev[1]
                        elif ev[0] == "set-path":
                            config.backend_path = ev[1]
                            state["path"] = ev[1]
                        elif ev[0] == "graph":
                            want = expected_native(ev[1], ev[2], state)
                            try:
                                got = post_graph(ev[1], ev[2])
                                if idx == len(hist) - 1 and len(hist) <= 2:
                                    # the same decision must not depend on the size or shape of the graph
                                    for fam in GRAPH_FAMILIES[1:]:
                                        part.count("transitions")
                                        g2 = post_graph(ev[1], ev[2], fam)
                                        if g2 != want:
                                            part.violation("graph[%s,arg=%s,%s]:%s" % (ev[1], ev[2], fam, "native-used" if g2 > want else "native-not-used"), dict(case, family=fam),
                                                           {"native_operators": g2, "expected": want, "config": dict(state)})
                            except Exception as e:
                                part.violation("graph[%s]:raises-%s" % (ev[1], type(e).__name__), case, {"exception": repr(e)[:200]})
                                continue
                            part.outcome("graph:%s" % ("native" if want else "aux"))
                            if got != want:
                                part.violation("graph[%s,arg=%s]:%s" % (ev[1], ev[2], "native-used" if got > want else "native-not-used"), case,
                                               {"native_operators": got, "expected": want, "config": dict(state)})
                            else:
                                part.add("nontrivial", ("graph", ev, tuple(sorted(state.items(), key=str))))
                        else:
                            api, barg = ev
                            name = state["backend"] if barg is None else barg
                            s = Solver()
                            v = s.bool_var()
                            if api == "solve-nokey":
                                api = "solve"  # the same call on a Solver without any answer key: same backend, same mode
                            else:
                                s.add_answer_key(v)
                            s.ensure(v)
                            spies.log = []
                            try:
                                with warnings.catch_warnings():
                                    warnings.simplefilter("ignore")
                                    getattr(s, api)(**({} if barg is None else {"backend": CustomBackend if barg == "class" else barg}))
                                outcome = "ok"
                            except ValueError:
                                outcome = "ValueError"
                            except Exception as e:
                                part.violation("%s:raises-%s" % (api, type(e).__name__), case, {"exception": repr(e)[:200], "config": dict(state)})
                                continue
                            if name == "class":
                                want_log, want_out = [("class", "CustomBackend")], "ok"
                            elif name not in NAMES:
                                want_log, want_out = [], "ValueError"
                            else:
                                kind, what = EXPECT_ENTRY[name]
                                want_out = "ok"
                                if kind == "module":
                                    want_log = [("module", what)]
                                elif kind == "class":
                                    want_log = [("class", "Z3Backend")]
                                else:
                                    exe = state["path"] or "sugar"
                                    mode = "deduction" if (api == "solve" and what == "native-deduction") else "finder"
                                    want_log = [("subprocess", exe, mode)]
                            part.outcome("%s:%s" % (api, want_out if want_out != "ok" else (want_log[0][1] if want_log else "-")))
                            if outcome != want_out or spies.log[:1] != want_log[:1] or (want_out == "ValueError" and spies.log):
                                part.violation("%s[backend=%s]:wrong-dispatch" % (ev[0], "default" if barg is None else ("class" if barg == "class" else "named")), case,
                                               {"observed": [outcome, spies.log[:2]], "expected": [want_out, want_log], "config": dict(state)})
                            else:
                                part.add("nontrivial", (ev[0], barg, tuple(sorted(state.items(), key=str))))
                    part.add("states", tuple(sorted(state.items(), key=str)))
    finally:
        sugar_like.run_subprocess = saved_run
        cz3.Z3Backend = saved_z3
        for k, v in saved_cfg.items():
            setattr(config, k, v)


def run_fresh_interpreters(part):
    """The module-level `cspuz.config` of a fresh interpreter follows the same table (40 configurations)."""
    import json
    import subprocess

    keys = ("CSPUZ_DEFAULT_BACKEND", "CSPUZ_USE_GRAPH_PRIMITIVE", "CSPUZ_USE_GRAPH_DIVISION_PRIMITIVE", "CSPUZ_BACKEND_PATH")
    combos = list(itertools.product(BACKEND_ENV, BOOL_ENV, BOOL_ENV, PATH_ENV))
    picks = [combos[(i * 397) % len(combos)] for i in range(34)] + [(None, None, None, None), ("auto", "1", "0", None), ("cspuz_core", None, None, None),
                                                                      ("sugar", "true", None, "/p"), ("z3", "yes", None, None), ("bogus", None, "FALSE", None)]
    prog = (
        "import sys, json\n"
        "sys.path.insert(0, %r)\n"
        "for m in ('cspuz_core', 'enigma_csp', 'pycsugar'):\n"
        "    sys.modules[m] = None\n"
        "try:\n"
        "    import cspuz\n"
        "    c = cspuz.config\n"
        "    print(json.dumps({'default_backend': c.default_backend, 'backend_path': c.backend_path, 'use_graph_primitive': c.use_graph_primitive,\n"
        "                      'use_graph_division_primitive': c.use_graph_division_primitive, 'file': cspuz.__file__}))\n"
        "except ValueError:\n"
        "    print(json.dumps('ValueError'))\n" % harness.REPO
    )
    for combo in picks:
        env = {k: v for k, v in os.environ.items() if not k.startswith("CSPUZ_")}
        for k, v in zip(keys, combo):
            if v is not None:
                env[k] = v
        part.count("evaluations")
        r = subprocess.run([sys.executable, "-c", prog], env=env, capture_output=True, text=True)
        case = {"fresh_interpreter_env": dict(zip(keys, combo))}
        try:
            got = json.loads(r.stdout.strip().splitlines()[-1])
        except Exception:
            part.violation("fresh-interpreter:no-result", case, {"stderr": r.stderr[-300:]})
            continue
        want = model_config(*combo, importable=("z3",))
        if isinstance(got, dict):
            got.pop("file", None)
        if got != want:
            part.violation("fresh-interpreter:config-differs", case, {"got": got, "expected": want})
        else:
            part.add("nontrivial", ("fresh", combo))


def worker(shard, part):
    if shard[0] == "construct":
        run_construction(part, shard[1], shard[2])
        part.sample({"construction": "importable subsets #%d..%d x %d environment combinations" % (shard[1], shard[2] - 1, len(BACKEND_ENV) * len(BOOL_ENV) ** 2 * len(PATH_ENV))})
    elif shard[0] == "hist":
        run_histories(part, shard[1], shard[2])
        part.sample({"histories starting with": [list(map(str, e)) for e in shard[1]], "depth": shard[2]})
    else:
        run_fresh_interpreters(part)


def main(tier, seed, only=None):
    shards = [("construct", i, i + 1) for i in range(16)]
    evs = events()
    depth = 3
    for e in evs:
        shards.append(("hist", (e,), depth))
    shards.append(("fresh",))
    if only:
        shards = [s for s in shards if s[0] == only]
    run = harness.Run(
        PID, tier, seed, "model_checking",
        "construction: Config() under CSPUZ_DEFAULT_BACKEND in %r x CSPUZ_USE_GRAPH_PRIMITIVE and CSPUZ_USE_GRAPH_DIVISION_PRIMITIVE in %r x "
        "CSPUZ_BACKEND_PATH unset/set x all 16 subsets of importable {cspuz_core, enigma_csp, pycsugar, z3} (sys.modules) = 32000 "
        "configurations + 40 in fresh interpreters, plus every non-importable module also in the state 'installed but ImportError on load'; graph calls "
        "repeated on K12, a 30-spoke wheel, a 20-leaf star, 20 parallel edges and the 6x6 grid; dispatch: all histories of <= %d events over %d events (assign default_backend / "
        "use_graph_primitive / use_graph_division_primitive / backend_path; six graph constraints with use_graph_primitive None/True/False; "
        "find_answer and solve with backend None / each name / a class / 'bogus'), spies on the z3 backend class, the three extension modules "
        "and the subprocess entry point.  States = configuration triples reached." % (BACKEND_ENV, BOOL_ENV, depth, len(evs)),
    )
    run.assumptions = ["reference model: the decision table transcribed from the property statement (priority order, defaults, strict true/false parsing)",
                       "optional modules are simulated through sys.modules (None = not importable)"]
    par.run_shards(run, worker, shards, seed)
    cov = {
        "states": max(1, run.n("states")),
        "transitions": run.c("transitions"),
        "traces_validated_against_impl": run.c("histories"),
        "evaluations": run.c("evaluations") + run.c("transitions"),
        "distinct_nontrivial": run.n("nontrivial"),
        "max_depth": depth,
        "exhaustive": True,
    }
    return run.finish(cov)


def replay(case):
    part = harness.Partial()
    if "history" in case:
        evs = events()
        first = [e for e in evs if list(map(lambda x: x, e)) == case["history"][0] or [str(x) for x in e] == [str(x) for x in case["history"][0]]]
        run_histories(part, first[:1], 3)
        mine = [v for v in part.violations if harness.jsonable(v.case) == case]
    elif "env" in case:
        run_construction(part, 0, 16)
        mine = [v for v in part.violations if harness.jsonable(v.case) == case]
    else:
        run_fresh_interpreters(part)
        mine = [v for v in part.violations if harness.jsonable(v.case) == case]
    return (not mine), (mine[0].detail if mine else "agrees with the decision table")
