"""C15 — serializer combinators round-trip every value they accept.

E1 over terms and values (mc/serterms.py): every base combinator, every
FIRST-disjoint OneOf of 2-3 alternatives, Seq / Grid / Tupl / Rooms /
ValuedRooms compositions to nesting depth 3, on every board h, w in 1..3 and on
single-row / single-column boards up to length 40; values enumerate the domain
with the boundary values (run lengths around the 1-character limit, 15/16,
255/256, 4095, partial digit groups, every room partition in every order).
Oracle: deserialize(serialize(v)) == v (rooms up to canonical order, values
attached to the same room) and characters consumed == len(text).
"""

import itertools

from mc import harness, par
from mc import serterms as S

PID = "C15"
_TERMS = []


def roundtrip(part, term, comb, value, ctx, sure, keyhint):
    """value is the *problem* (one item).  Returns nothing; records violations."""
    ps = S.ps()
    env = ps.CombinatorEnv(height=ctx["height"], width=ctx["width"])
    case = {"term": term.name, "value": value, "height": ctx["height"], "width": ctx["width"]}
    part.count("evaluations")
    try:
        res = comb.serialize(env, [value], 0)
    except ValueError as e:
        res = None
        err = e
    except Exception as e:
        part.violation("%s:serialize-raises-%s" % (keyhint, type(e).__name__), case, {"exception": repr(e)[:200]})
        return
    if res is None:
        part.outcome("rejected")
        if sure:
            part.violation("%s:domain-value-rejected" % keyhint, case, {})
        return
    consumed, text = res
    if consumed != 1 or not isinstance(text, str):
        part.violation("%s:serialize-consumed-%r" % (keyhint, consumed), case, {"text": repr(text)[:100]})
        return
    try:
        back = comb.deserialize(env, text, 0)
    except Exception as e:
        part.violation("%s:deserialize-raises-%s" % (keyhint, type(e).__name__), case, {"text": text, "exception": repr(e)[:200]})
        return
    part.outcome("accepted")
    if back is None:
        part.violation("%s:own-text-not-decodable" % keyhint, case, {"text": text})
        return
    nread, items = back
    if nread != len(text):
        part.violation("%s:consumed-%s-of-produced" % (keyhint, "less" if nread < len(text) else "more"), case, {"text": text, "consumed": nread})
        return
    if len(items) != 1:
        part.violation("%s:decoded-item-count" % keyhint, case, {"text": text, "items": len(items)})
        return
    a = S.canon_deep(term, items[0]) if not isinstance(term, S.TTupl) else S.canon_deep(term, items[0])
    b = S.canon_deep(term, value)
    if a != b:
        part.violation("%s:value-differs" % keyhint, case, {"text": text, "decoded": items[0]})
        return
    # the same through the public helpers
    try:
        t2 = ps.serialize_problem(comb, value, height=ctx["height"], width=ctx["width"])
        v2 = ps.deserialize_problem(comb, t2, height=ctx["height"], width=ctx["width"])
    except Exception as e:
        part.violation("%s:public-helpers-raise-%s" % (keyhint, type(e).__name__), case, {"exception": repr(e)[:200]})
        return
    if t2 != text or S.canon_deep(term, v2) != b:
        part.violation("%s:public-helpers-differ" % keyhint, case, {"text": t2})
    # ... and through the URL-level entry points (falsy problems such as 0 or [] are problems too)
    try:
        url = ps.serialize_problem_as_url(comb, "demo", ctx["height"], ctx["width"], value)
        v3 = ps.deserialize_problem_as_url(comb, url)
        v4 = ps.deserialize_problem_as_url(comb, url, allowed_puzzles=["demo"], return_size=True)
    except Exception as e:
        part.violation("%s:url-helpers-raise-%s" % (keyhint, type(e).__name__), case, {"exception": repr(e)[:200]})
        return
    if v3 is None or S.canon_deep(term, v3) != b or not isinstance(v4, tuple) or len(v4) != 3 or v4[0] != ctx["height"] or v4[1] != ctx["width"] or S.canon_deep(term, v4[2]) != b:
        part.violation("%s:url-helpers-differ" % keyhint, case, {"url": url, "decoded": repr(v3)[:100], "with_size": repr(v4)[:100]})
    part.add("nontrivial", (term.name, repr(value), ctx["height"], ctx["width"]))


def problems_of(term, ctx):
    """(problem value, sure) pairs for a term used at top level (one item = the problem)."""
    if isinstance(term, (S.TSeq, S.TGrid, S.TRooms, S.TValuedRooms)):
        for v, sure in term.values(ctx):
            yield v, sure
    elif isinstance(term, S.TTupl):
        for v, sure in term.values(ctx, cap=ctx.get("tupl_cap", 400)):
            yield v[0], sure
    else:
        # item-level combinator at top level: the problem is a single item, i.e. single-step lists of length 1.
        # MultiDigit always decodes to `digits` items, so it has no one-item problems.
        alts = term.alts if isinstance(term, S.TOneOf) else [term]
        seen = []
        if any(isinstance(a, S.TMultiDigit) for a in alts):
            return
        for a in alts:
            for st in a.steps():
                if len(st) == 1 and st not in seen:
                    seen.append(st)
                    yield st[0], True


def keyhint(term):
    n = term.name
    for k in ("ValuedRooms", "Rooms", "Tupl", "Grid", "Seq", "OneOf"):
        if n.startswith(k):
            inner = ""
            for j in ("Rooms", "Grid", "Seq", "OneOf", "MultiDigit", "IntSpaces", "Spaces", "HexInt", "DecInt", "Dict"):
                if j in n[len(k):]:
                    inner = "/" + j
                    break
            return k + inner
    return n.split("(")[0]


def run_term(part, term, boards, ctx_extra):
    comb = term.build()
    kh = keyhint(term)
    for (h, w) in boards:
        ctx = {"height": h, "width": w}
        ctx.update(ctx_extra)
        for v, sure in problems_of(term, ctx):
            roundtrip(part, term, comb, v, ctx, sure, kh + ("[1xN]" if (h == 1 or w == 1) and isinstance(term, (S.TRooms, S.TValuedRooms, S.TGrid, S.TTupl)) and "Rooms" in term.name else ""))
    part.add("terms", term.name)


HISTORY_BOARDS = [(1, 2), (2, 1), (1, 4), (2, 2), (4, 1), (2, 3), (3, 2), (1, 6), (6, 1), (1, 1), (3, 3)]


def run_histories(part, term, depth):
    """E2 flavour: ONE combinator instance is used for a sequence of boards (every ordered pair / triple of boards from a
    menu in which several boards share their area); each round trip must behave exactly as on a fresh instance."""
    import itertools

    kh = keyhint(term) + "{shared-instance}"
    first_values = {}
    for b in HISTORY_BOARDS:
        ctx = {"height": b[0], "width": b[1], "seq_cap": 6, "all_orders_upto": 0, "tupl_cap": 4}
        vals = list(itertools.islice(problems_of(term, ctx), 0, 3))
        first_values[b] = (ctx, vals)
    for seq in itertools.permutations(HISTORY_BOARDS, depth):
        comb = term.build()  # one instance for the whole history
        for b in seq[:-1]:
            ctx, vals = first_values[b]
            for v, sure in vals[:1]:
                env = S.ps().CombinatorEnv(height=ctx["height"], width=ctx["width"])
                try:
                    r = comb.serialize(env, [v], 0)
                    if r is not None:
                        comb.deserialize(env, r[1], 0)
                except Exception:
                    pass  # judged when this board is the last of a history
        ctx, vals = first_values[seq[-1]]
        part.count("histories")
        for v, sure in vals:
            before = len(part.violations)
            roundtrip(part, term, comb, v, ctx, sure, kh)
            if len(part.violations) > before:
                part.violations[-1].case["history"] = [list(b) for b in seq]
    part.add("terms", "history:" + term.name)


def run_items(part):
    """Item level, the way a hand-written decoder uses a combinator: every step (one token's worth of items) of every
    parameterised base combinator is serialized and read back directly; then the *returned list is changed in place* by the
    caller (as an accumulating decoder does) and the same text is read again - it must decode to the same items."""
    ps = S.ps()
    env = ps.CombinatorEnv(height=2, width=3)
    terms = list(S.base_terms())
    for base in range(2, 7):
        for digits in range(1, 6):
            if base ** digits <= 36:
                terms.append(S.TMultiDigit(base, digits))
    for mi, ms in ((0, 35), (35, 0), (5, 5), (8, 3), (2, 11), (11, 2), (17, 1)):
        terms.append(S.TIntSpaces(-1, mi, ms))
    hexdot = S.TOneOf(S.TDict([-1], ["."]), S.THexInt())
    terms += [S.TOneOf(S.TSpaces(0, "k"), S.TMultiDigit(2, 4)), S.TTupl(S.TMultiDigit(3, 3), S.TFixStr("/"), S.TMultiDigit(2, 5)), hexdot]
    seen = set()
    for t in terms:
        if t.name in seen:
            continue
        seen.add(t.name)
        comb = t.build()
        steps = t.steps() if not isinstance(t, S.TTupl) else [sum((e.steps()[-1] for e in t.elems if not isinstance(e, S.TFixStr)), [])]
        for st in steps:
            part.count("evaluations")
            case = {"term": t.name, "items": list(st), "height": 2, "width": 3, "value": list(st), "item_level": True}
            kh = keyhint(t) + "{items}"
            try:
                r = comb.serialize(env, list(st), 0)
                if r is None:
                    continue  # not a step this parameterisation accepts (judged by the value-level family)
                used, text = r
                first = comb.deserialize(env, text, 0)
                if first is None or first[0] != len(text) or list(first[1]) != list(st)[:used]:
                    part.violation(kh + ":item-roundtrip-differs", case, {"text": text, "decoded": repr(first)[:100]})
                    continue
                got = first[1]
                if isinstance(got, list):
                    got.reverse()
                    got.append("junk")
                    got[:] = got[-1:] + got
                second = comb.deserialize(env, text, 0)
                third = comb.deserialize(env, text, 0)
                if second is None or list(second[1]) != list(st)[:used] or third is None or list(third[1]) != list(st)[:used] or (isinstance(second[1], list) and second[1] is third[1]):
                    part.violation(kh + ":decoded-list-shared-between-calls", case, {"text": text, "second": repr(second)[:100]})
                    continue
            except Exception as e:
                part.violation(kh + ":item-level-raises-" + type(e).__name__, case, {"exception": repr(e)[:200]})
                continue
            part.add("nontrivial", ("items", t.name, repr(st)))
    part.add("terms", "item-level")


def run_inplace(part):
    """One ValuedRooms / Rooms instance, ONE rooms list object: serialize, then reorder that very list (and its rooms) in
    place - values following their rooms - and serialize again; every text must decode to the problem as it is at that
    moment.  (A caller that keeps its partition in one list and edits it is the normal use of a generator.)"""
    ps = S.ps()
    hexdot = S.TOneOf(S.TDict([-1], ["."]), S.THexInt())
    for (h, w) in ((1, 3), (2, 2), (2, 3), (3, 2), (2, 4), (3, 3)):
        from mc import graphref

        edges = graphref.grid_edges(h, w)
        for pidx, p in enumerate(graphref.connected_partitions(h * w, edges)):
            if len(p) < 2 or pidx % 3:
                continue
            for term in (S.TValuedRooms(hexdot), S.TValuedRooms(S.THexInt()), S.TRooms()):
                comb = term.build()
                rooms = [[divmod(c, w) for c in blk] for blk in p]
                vals = [k + 1 for k in range(len(rooms))]
                valued = isinstance(term, S.TValuedRooms)
                steps = ["as-is", "reverse", "rotate", "swap-first-two", "reverse-cells", "sort", "move-cell", "move-cell-back"]
                for step in steps:
                    if step == "reverse":
                        rooms.reverse(); vals.reverse()
                    elif step == "rotate":
                        rooms.append(rooms.pop(0)); vals.append(vals.pop(0))
                    elif step == "swap-first-two":
                        rooms[0], rooms[1] = rooms[1], rooms[0]; vals[0], vals[1] = vals[1], vals[0]
                    elif step == "reverse-cells":
                        for r in rooms:
                            r.reverse()
                    elif step == "sort":
                        order = sorted(range(len(rooms)), key=lambda k: sorted(rooms[k]))
                        rooms[:] = [rooms[k] for k in order]; vals[:] = [vals[k] for k in order]
                    elif step in ("move-cell", "move-cell-back"):
                        # the CONTENT changes: one cell goes to a neighbouring room (both rooms stay connected)
                        done = False
                        for i, r in enumerate(rooms):
                            for c in list(r):
                                rest = [d for d in r if d != c]
                                if not rest or len(graphref.components(h * w, [(a[0] * w + a[1], b[0] * w + b[1]) for a in rest for b in rest if abs(a[0] - b[0]) + abs(a[1] - b[1]) == 1], [d[0] * w + d[1] for d in rest])) != 1:
                                    continue
                                for j, r2 in enumerate(rooms):
                                    if j != i and any(abs(c[0] - d[0]) + abs(c[1] - d[1]) == 1 for d in r2):
                                        r.remove(c)
                                        r2.append(c)
                                        done = True
                                        break
                                if done:
                                    break
                            if done:
                                break
                        if not done:
                            continue
                    value = (rooms, vals) if valued else rooms
                    part.count("evaluations")
                    case = {"term": term.name, "height": h, "width": w, "value": [[list(c) for c in r] for r in rooms], "values": list(vals), "inplace_step": step}
                    try:
                        text = ps.serialize_problem(comb, value, height=h, width=w)
                        back = ps.deserialize_problem(comb, text, height=h, width=w)
                    except Exception as e:
                        part.violation("%s{in-place}:raises-%s" % (keyhint(term), type(e).__name__), case, {"exception": repr(e)[:200]})
                        break
                    want = sorted(zip([sorted(map(tuple, r)) for r in rooms], vals)) if valued else sorted(sorted(map(tuple, r)) for r in rooms)
                    got = None
                    if back is not None:
                        got = sorted(zip([sorted(map(tuple, r)) for r in back[0]], back[1])) if valued else sorted(sorted(map(tuple, r)) for r in back)
                    if got != want:
                        part.violation("%s{in-place}:value-differs" % keyhint(term), case, {"text": text, "decoded": repr(back)[:200]})
                        break
    part.add("terms", "in-place")


def run_runs(part, space_term, number_term, order):
    """Run-length family on 1xN / Nx1 boards: blank runs of every length 1..2*max+1, flanked or not by numbers."""
    alts = [space_term, number_term] if order == 0 else [number_term, space_term]
    base = S.TOneOf(*alts)
    mx = space_term.max
    sp = space_term.space
    num = number_term.alphabet()[-1]
    for L in list(range(1, 2 * mx + 2)):
        for left in (None, num):
            for right in (None, num):
                lst = ([left] if left is not None else []) + [sp] * L + ([right] if right is not None else [])
                n = len(lst)
                for (h, w) in ((1, n), (n, 1)):
                    term = S.TGrid(base)
                    comb = term.build()
                    grid = [lst[y * w : (y + 1) * w] for y in range(h)]
                    roundtrip(part, term, comb, grid, {"height": h, "width": w}, True, "Grid/runs")
                term = S.TSeq(base, n)
                roundtrip(part, term, term.build(), lst, {"height": 1, "width": 1}, True, "Seq/runs")
    part.add("terms", "runs:" + base.name)


def universe(tier):
    """The term universe, nesting depth <= 3."""
    bases = S.base_terms()
    oneofs = S.oneof_terms()
    items = bases + oneofs
    terms = []
    # depth 1: item-level combinators at top level
    terms += items
    # depth 2: Seq / Grid over every item-level combinator
    for x in items:
        for n in (0, 1, 2, 3, 5) if tier == "quick" else (0, 1, 2, 3, 4, 5, 7):
            if x.greedy_digits() and n > 1:
                continue  # "12" + "3": a greedy decimal reader cannot be repeated without a separator
            terms.append(S.TSeq(x, n))
        if not x.greedy_digits():
            terms.append(S.TGrid(x))
    for x in bases + oneofs[:: (8 if tier == "quick" else 2)]:
        if x.greedy_digits():
            continue
        terms.append(S.TGrid(x, 2, 3))
        terms.append(S.TGrid(x, 1, 1))
        terms.append(S.TGrid(x, 0, 2))
        terms.append(S.TGrid(x, 3, 0))
    # Tupl over item-level elements and FixStr, depth 2-3
    fix = [S.TFixStr("/"), S.TFixStr("ab")]
    pick = bases + oneofs[:: (40 if tier == "quick" else 10)]
    for a, b in itertools.product(pick, repeat=2):
        t = S.TTupl(a, b)
        if t.admissible():
            terms.append(t)
        t = S.TTupl(a, fix[0], b)
        if t.admissible():
            terms.append(t)
    for a in pick:
        if a.greedy_digits():
            continue
        for t in (S.TTupl(a), S.TTupl(fix[1], a), S.TTupl(S.TSeq(a, 3), fix[0], S.TGrid(a)), S.TTupl(S.TGrid(a), S.TSeq(a, 2)),
                  S.TSeq(S.TTupl(a, fix[0]), 2), S.TTupl(S.TTupl(a, fix[0]), S.TSeq(a, 1))):
            if not isinstance(t, S.TTupl) or t.admissible():
                if isinstance(t, S.TSeq) and isinstance(t.base, S.TTupl) and not t.base.admissible():
                    continue
                terms.append(t)
    # parameter sweep of the parameterised base combinators: every IntSpaces (max_int, max_spaces) with at most 36 codes, every
    # Spaces starting character, every MultiDigit (base, digits) with at most 36 codes
    sweep = []
    for mi in range(0, 36):
        for ms in range(0, 36):
            if (mi + 1) * (ms + 1) <= 36:
                sweep.append(S.TIntSpaces(-1, mi, ms))
    for c in S.B36:
        sweep.append(S.TSpaces(0, c))
    for base in range(2, 7):
        for digits in range(1, 6):
            if base ** digits <= 36:
                sweep.append(S.TMultiDigit(base, digits))
    have = set(t.name for t in bases)
    for x in sweep:
        if x.name in have:
            continue
        terms.append(S.TSeq(x, 3))
        terms.append(S.TGrid(x, 2, 3))
    # rooms
    terms.append(S.TRooms())
    terms.append(S.TRooms(skip_on_error=True))
    hexdot = S.TOneOf(S.TDict([-1], ["."]), S.THexInt())
    for v in (hexdot, S.THexInt(), S.TDict([5, 6, 7], ["x", "y", "zz"]), S.TOneOf(S.TSpaces(0, "g"), S.THexInt()), S.TIntSpaces(-1, 4, 2)):
        terms.append(S.TValuedRooms(v))
    terms.append(S.TTupl(S.TRooms(), S.TGrid(hexdot)))
    terms.append(S.TTupl(S.TSeq(S.THexInt(), 2), S.TFixStr("/"), S.TRooms()))
    terms.append(S.TTupl(S.TGrid(S.TMultiDigit(3, 3)), S.TValuedRooms(hexdot)))
    return terms


def history_terms():
    hexdot = S.TOneOf(S.TDict([-1], ["."]), S.THexInt())
    return [S.TRooms(), S.TRooms(skip_on_error=True), S.TValuedRooms(hexdot), S.TGrid(S.TOneOf(S.TSpaces(0, "g"), S.THexInt())), S.TGrid(S.TMultiDigit(3, 3)),
            S.TGrid(S.TIntSpaces(-1, 4, 2)), S.TTupl(S.TRooms(), S.TGrid(hexdot)), S.TTupl(S.TGrid(S.TMultiDigit(2, 5)), S.TValuedRooms(S.THexInt()))]


def boards_for(term, tier):
    roomy = "Rooms" in term.name
    if roomy:
        maxcells = 6 if tier == "quick" else 9
        out = [(h, w) for h in range(1, 10) for w in range(1, 10) if h * w <= maxcells]
        return out
    if "Grid(" in term.name and ",2,3)" not in term.name:
        out = [(h, w) for h in (1, 2, 3) for w in (1, 2, 3)]
        if tier != "quick":
            out += [(1, 5), (5, 1), (4, 2)]
        return out
    return [(1, 1), (2, 3)]


def prepare(tier):
    global _TERMS
    _TERMS = universe(tier)
    return _TERMS


def worker(shard, part):
    what = shard[0]
    if what == "terms":
        _, tier, lo, hi = shard
        for t in _TERMS[lo:hi]:
            run_term(part, t, boards_for(t, tier), {"seq_cap": 250 if tier == "quick" else 1500, "all_orders_upto": 4 if tier == "quick" else 5,
                                                     "tupl_cap": 300 if tier == "quick" else 1200})
        if lo % 200 == 0:
            part.sample({"term": _TERMS[lo].name})
    elif what == "inplace":
        run_inplace(part)
    elif what == "items":
        run_items(part)
    elif what == "history":
        _, idx, depth = shard
        run_histories(part, history_terms()[idx], depth)
    else:
        _, si, ni, order = shard
        spaces = [S.TSpaces(0, "g"), S.TSpaces(0, "z"), S.TSpaces(0, "a"), S.TSpaces(-3, "1")]
        numbers = [S.THexInt(), S.TDict([-1, -2], [".", "_x"])]
        sp, nm = spaces[si], numbers[ni]
        if S.TOneOf(sp, nm).admissible():
            run_runs(part, sp, nm, order)


def main(tier, seed, only=None):
    terms = prepare(tier)
    shards = []
    # room terms are heavy: give each its own shard
    step = 12
    lo = 0
    while lo < len(terms):
        hi = lo + step
        shards.append(("terms", tier, lo, min(hi, len(terms))))
        lo = hi
    # put the room terms (at the end) one per shard
    shards = [s for s in shards if s[3] <= len(terms) - 12] + [("terms", tier, i, i + 1) for i in range(max(0, len(terms) - 12 - step), len(terms)) if i >= [s for s in shards if s[3] <= len(terms) - 12][-1][3]]
    for si in range(4):
        for ni in range(2):
            for order in (0, 1):
                shards.append(("runs", si, ni, order))
    for idx in range(len(history_terms())):
        shards.append(("history", idx, 2 if tier == "quick" else 3))
    shards.append(("inplace",))
    shards.append(("items",))
    if only:
        shards = [s for s in shards if s[0] == only]
    run = harness.Run(
        PID, tier, seed, "exploration",
        "terms: 14 parameterised base combinators (FixStr, Dict, Spaces x4, DecInt, HexInt, IntSpaces x3, MultiDigit x3; plus, as Seq(.,3) and Grid(.,2,3), EVERY IntSpaces / MultiDigit parameter pair with <= 36 codes and every Spaces start character), every FIRST-disjoint "
        "OneOf of 2-3 alternatives from a 12-entry menu, Seq(n in 0..5/7) and Grid (env-sized on boards h,w in 1..3; fixed incl. zero "
        "dimensions) over all of them, Tupl pairs/triples with FixStr separators, nested Seq/Tupl/Grid to depth 3, Rooms, ValuedRooms over 5 "
        "value combinators, Tupl with Rooms.  Values: all sequences over each alphabet while <= cap else a boundary family; boundary values "
        "0,15,16,255,256,4095; blank runs of every length 1..2*max+1 on 1xN / Nx1 boards; every partition of every board with <= %d cells into "
        "connected rooms in every order of rooms and cells (<= %d cells) or canonical/reversed/rotated.  Histories: for 8 board-sized terms (Rooms, ValuedRooms, Grid, Tupl of them) ONE combinator instance serves every ordered pair (thorough: triple) of "
        "boards from an 11-board menu with repeated areas, and the last round trip is judged; one instance and ONE rooms list object reordered in place between serializations (reverse, rotate, swap, cell order, sort).  Item level: every step of every parameterised base combinator read back directly, the returned list changed in place by the caller, and read again.  Every accepted value also goes through serialize_problem_as_url / deserialize_problem_as_url (with and without return_size).  A term is admitted iff OneOf alternatives "
        "have disjoint FIRST sets and no greedy decimal reader is followed by a digit.  Oracle: decode(encode(v)) == v (rooms up to canonical "
        "order) and consumed == len(text)." % (6 if tier == "quick" else 9, 4 if tier == "quick" else 5),
    )
    run.assumptions = [
        "value domains are defined harness-side by type (mc/serterms.py); a Tupl element list is exactly one step of its element",
        "rooms are orthogonally connected (a 'room' in two pieces is not a room partition)",
    ]
    par.run_shards(run, worker, shards, seed)
    cov = {"evaluations": run.c("evaluations"), "distinct_nontrivial": run.n("nontrivial"), "terms": run.n("terms"), "exhaustive": not run.caps}
    return run.finish(cov)


def replay(case):
    part = harness.Partial()
    if case.get("item_level"):
        run_items(part)
        mine = [x for x in part.violations if x.case.get("term") == case["term"] and x.case.get("items") == case["items"]]
        return (not mine), (mine[0].detail if mine else "round-trips")
    if "inplace_step" in case:
        run_inplace(part)
        mine = [x for x in part.violations if x.case.get("term") == case["term"] and x.case.get("value") == case["value"] and x.case.get("inplace_step") == case["inplace_step"]]
        return (not mine), (mine[0].detail if mine else "round-trips")
    prepare("thorough")
    cands = [t for t in _TERMS if t.name == case["term"]]
    ctx = {"height": case["height"], "width": case["width"]}
    if cands:
        t = cands[0]
        v = case["value"]
        # JSON turned tuples into lists: regenerate the value from the term's own domain
        ctx.update({"seq_cap": 1500, "all_orders_upto": 5, "tupl_cap": 1200})
        for val, sure in problems_of(t, ctx):
            if harness.jsonable(val) == v:
                roundtrip(part, t, t.build(), val, ctx, sure, keyhint(t))
                break
    else:
        for si in range(4):
            for ni in range(2):
                for order in (0, 1):
                    worker(("runs", si, ni, order), part)
        part.violations = [x for x in part.violations if harness.jsonable(x.case) == case]
    return (not part.violations), (part.violations[0].detail if part.violations else "round-trips")
